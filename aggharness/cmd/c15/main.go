// C15 — discovery statistics are independent of batching and lose no traffic.
//
// Runtime monitor (differential + conservation) over the REAL aggregation plugin code:
// common.BuildTree, discovery.GetUpdatedAggregations (ConvergeAggregation + ExtractAggs + Combine),
// discovery.Run + discovery.State (state file write / read back).
//
// The oracle is a reference model written from the property statement: plain counting of the
// record stream (count, per-status counts, min/max timestamp, float64 means) keyed by the
// attribution the FINAL tree gives to each record URL, plus equality of the batch-by-batch result
// with the single-batch result.
package main

import (
	"encoding/json"
	"fmt"
	"math"
	"os"
	"path/filepath"
	"sort"
	"strings"

	"lunar/aggregation-plugin/common"
	"lunar/aggregation-plugin/discovery"
	sd "lunar/shared-model/discovery"

	"github.com/rs/zerolog"

	"verif/aggharness/sim"
)

// ---------------------------------------------------------------- case model

type rec struct {
	TS       int64  `json:"ts"`
	Dur      int    `json:"dur"`
	Tot      int    `json:"tot"`
	Status   int    `json:"status"`
	Method   string `json:"m"`
	URL      string `json:"url"`
	Icpt     string `json:"icpt"`
	Consumer string `json:"consumer"`
}

type kase struct {
	// Regime "single-family": one host, one resource, ids at one level only, nothing declared - the plain
	// case of the statement ("URLs are merged under an inferred path parameter"). Its violations carry their
	// own signature prefix, so that the open findings of the multi-level regime never cover them.
	Regime    string   `json:"regime,omitempty"`
	Threshold int      `json:"threshold"`
	Declared  []string `json:"declared"`
	Records   []rec    `json:"records"`
}

// witness = one decided execution: a case + batch boundaries (+ restart points).
type witness struct {
	Mode     string `json:"mode"` // "split" | "restart"
	Case     int    `json:"case"`
	Seed     uint64 `json:"seed"`
	K        kase   `json:"k"`
	Cuts     []int  `json:"cuts"`     // a new batch starts at each of these record indices (1..n-1), ascending
	Restarts []int  `json:"restarts"` // subset of Cuts: process restart (state file re-read, fresh tree) before that batch
	// FaultAt: the write of the state file fails for the batch that starts at this record index (0 = never);
	// the batches after it are written normally and there is no restart before the next successful write
	FaultAt int `json:"state_write_fails_for_batch_starting_at,omitempty"`
}

func (k kase) logs(lo, hi int) []discovery.AccessLog {
	out := make([]discovery.AccessLog, 0, hi-lo)
	for _, r := range k.Records[lo:hi] {
		out = append(out, discovery.AccessLog{
			Timestamp: r.TS, Duration: r.Dur, TotalDuration: r.Tot, StatusCode: r.Status,
			Method: r.Method, URL: r.URL, Interceptor: r.Icpt, ConsumerTag: r.Consumer,
		})
	}
	return out
}

// obsTree delegates to the real tree and only observes: a convergence that happens inside Insert
// (the variant NormalizeURL uses, which discards the indication) is one the aggregation code is
// never told about.
type obsTree struct {
	*common.SimpleURLTree
	unsignalled int
}

func (t *obsTree) Insert(url string, v *common.EmptyStruct) error {
	c, err := t.SimpleURLTree.InsertWithConvergenceIndication(url, v)
	if c {
		t.unsignalled++
	}
	return err
}

func (k kase) tree() (*common.SimpleURLTree, error) {
	eps := sd.KnownEndpoints{}
	for _, u := range k.Declared {
		eps.Endpoints = append(eps.Endpoints, sd.Endpoint{Method: "GET", URL: u})
	}
	return common.BuildTree(eps, k.Threshold)
}

func emptyAgg() discovery.Agg {
	return discovery.Agg{
		Endpoints:    map[sd.Endpoint]sd.EndpointAgg{},
		Interceptors: map[common.Interceptor]discovery.InterceptorAgg{},
		Consumers:    map[string]sd.EndpointMapping{},
	}
}

func batches(n int, cuts []int) [][2]int {
	out := [][2]int{}
	lo := 0
	for _, c := range cuts {
		if c <= lo || c >= n {
			continue
		}
		out = append(out, [2]int{lo, c})
		lo = c
	}
	out = append(out, [2]int{lo, n})
	return out
}

// ---------------------------------------------------------------- reference model (from the statement)

type mstat struct {
	count    int
	status   map[int]int
	min, max int64
	sumDur   float64
	sumTot   float64
}

func (m *mstat) add(r rec) {
	if m.count == 0 || r.TS < m.min {
		m.min = r.TS
	}
	if m.count == 0 || r.TS > m.max {
		m.max = r.TS
	}
	m.count++
	if m.status == nil {
		m.status = map[int]int{}
	}
	m.status[r.Status]++
	m.sumDur += float64(r.Dur)
	m.sumTot += float64(r.Tot)
}

func consumerOf(r rec) string {
	if r.Consumer == "" {
		return discovery.UnknownConsumerTag
	}
	return r.Consumer
}

func interceptorOf(r rec) common.Interceptor {
	if p := strings.Split(r.Icpt, "/"); len(p) == 2 {
		return common.Interceptor{Type: p[0], Version: p[1]}
	}
	return common.Interceptor{Type: "unknown", Version: "unknown"}
}

// attribute = the endpoint the given (final) tree attributes a record to; pure lookup, no insertion.
func attribute(tree common.SimpleURLTreeI, r rec) sd.Endpoint {
	u, ok := common.StrictNormalizeURL(tree, r.URL)
	if !ok {
		u = r.URL
	}
	return sd.Endpoint{Method: r.Method, URL: u}
}

func closeTo(impl float32, truth float64) bool {
	a := float64(impl)
	return math.Abs(a-truth) <= 1e-3*math.Max(math.Abs(a), math.Abs(truth))+0.01
}

func epStr(e sd.Endpoint) string { return e.Method + " " + e.URL }

// checkEndpoint compares one real aggregate with the model statistics of the records attributed to it.
func checkEndpoint(where string, e sd.Endpoint, a sd.EndpointAgg, m *mstat) (string, string) {
	sum := 0
	for _, c := range a.StatusCodes {
		sum += int(c)
	}
	if int(a.Count) != sum {
		return "C15/conservation/" + where + "count-vs-status-sum", fmt.Sprintf("%s: count=%d but status counts sum to %d (%v)", epStr(e), a.Count, sum, a.StatusCodes)
	}
	if m == nil {
		return "C15/conservation/" + where + "endpoint-without-records", fmt.Sprintf("%s: count=%d but no record of the stream is attributed to it by the final tree", epStr(e), a.Count)
	}
	if int(a.Count) != m.count {
		return "C15/conservation/" + where + "count-vs-records", fmt.Sprintf("%s: count=%d, records attributed to it by the final tree=%d", epStr(e), a.Count, m.count)
	}
	if len(a.StatusCodes) != len(m.status) {
		return "C15/conservation/" + where + "status-map", fmt.Sprintf("%s: status map %v, model %v", epStr(e), a.StatusCodes, m.status)
	}
	for s, c := range m.status {
		if int(a.StatusCodes[s]) != c {
			return "C15/conservation/" + where + "status-map", fmt.Sprintf("%s: status %d counted %d, model %d", epStr(e), s, a.StatusCodes[s], c)
		}
	}
	if a.MinTime != m.min {
		return "C15/conservation/" + where + "min-time", fmt.Sprintf("%s: min=%d, earliest record=%d", epStr(e), a.MinTime, m.min)
	}
	if a.MaxTime != m.max {
		return "C15/conservation/" + where + "max-time", fmt.Sprintf("%s: max=%d, latest record=%d", epStr(e), a.MaxTime, m.max)
	}
	if !closeTo(a.AverageDuration, m.sumDur/float64(m.count)) {
		return "C15/conservation/" + where + "average-duration", fmt.Sprintf("%s: avg=%v, true mean=%v over %d records", epStr(e), a.AverageDuration, m.sumDur/float64(m.count), m.count)
	}
	if !closeTo(a.AverageTotalDuration, m.sumTot/float64(m.count)) {
		return "C15/conservation/" + where + "average-total-duration", fmt.Sprintf("%s: avg=%v, true mean=%v over %d records", epStr(e), a.AverageTotalDuration, m.sumTot/float64(m.count), m.count)
	}
	return "", ""
}

func sortedEndpoints[V any](m map[sd.Endpoint]V) []sd.Endpoint {
	ks := make([]sd.Endpoint, 0, len(m))
	for k := range m {
		ks = append(ks, k)
	}
	sort.Slice(ks, func(i, j int) bool { return epStr(ks[i]) < epStr(ks[j]) })
	return ks
}

func sortedStrings[V any](m map[string]V) []string {
	ks := make([]string, 0, len(m))
	for k := range m {
		ks = append(ks, k)
	}
	sort.Strings(ks)
	return ks
}

// relate compares an over-counted key s with an under-counted key d of the same method and shape.
// absorbed: s has a path parameter where d has a constant (the concrete value the final tree needs
// was already folded into a parameter); stale: only the opposite occurs (s was not merged).
func relate(s, d sd.Endpoint) (absorbed, stale bool) {
	if s.Method != d.Method {
		return false, false
	}
	ss, ds := strings.Split(s.URL, "/"), strings.Split(d.URL, "/")
	if len(ss) != len(ds) {
		return false, false
	}
	sMore, dMore := false, false
	for i := range ss {
		ps := strings.HasPrefix(ss[i], "{") && strings.HasSuffix(ss[i], "}")
		pd := strings.HasPrefix(ds[i], "{") && strings.HasSuffix(ds[i], "}")
		switch {
		case ps && pd, ss[i] == ds[i]:
		case ps:
			sMore = true
		case pd:
			dMore = true
		default:
			return false, false
		}
	}
	return sMore, dMore && !sMore
}

// countDeviation classifies how the per-key counts of a real aggregation deviate from the counts
// of the records the final tree attributes to each key ("" = they agree).
func countDeviation(agg map[sd.Endpoint]sd.EndpointAgg, model map[sd.Endpoint]*mstat) (string, string) {
	var surplus, deficit []sd.Endpoint
	ta, tm := 0, 0
	for _, e := range sortedEndpoints(agg) {
		ta += int(agg[e].Count)
		mc := 0
		if model[e] != nil {
			mc = model[e].count
		}
		if int(agg[e].Count) > mc {
			surplus = append(surplus, e)
		} else if int(agg[e].Count) < mc {
			deficit = append(deficit, e)
		}
	}
	for _, e := range sortedEndpoints(model) {
		tm += model[e].count
		if _, ok := agg[e]; !ok {
			deficit = append(deficit, e)
		}
	}
	if len(surplus)+len(deficit) == 0 {
		return "", ""
	}
	show := func(es []sd.Endpoint) []string {
		out := []string{}
		for _, e := range es {
			mc := 0
			if model[e] != nil {
				mc = model[e].count
			}
			out = append(out, fmt.Sprintf("%s (count %d, records attributed by the final tree %d)", epStr(e), agg[e].Count, mc))
		}
		return out
	}
	detail := fmt.Sprintf("over-counted endpoints %v; under-counted endpoints %v; sum of counts %d, records %d", show(surplus), show(deficit), ta, tm)
	if ta < tm {
		return "traffic-lost", detail
	}
	if ta > tm {
		return "traffic-duplicated", detail
	}
	all := func(xs, ys []sd.Endpoint, rel func(x, y sd.Endpoint) bool) bool {
		for _, x := range xs {
			ok := false
			for _, y := range ys {
				if rel(x, y) {
					ok = true
					break
				}
			}
			if !ok {
				return false
			}
		}
		return true
	}
	if all(surplus, deficit, func(x, y sd.Endpoint) bool { a, _ := relate(x, y); return a }) {
		return "absorbed-under-parameter", detail
	}
	if all(surplus, deficit, func(x, y sd.Endpoint) bool { _, st := relate(x, y); return st }) {
		return "stale-unmerged-key", detail
	}
	return "attribution-other", detail
}

func modelCounts(k kase, tree common.SimpleURLTreeI) map[sd.Endpoint]*mstat {
	eps := map[sd.Endpoint]*mstat{}
	for _, r := range k.Records {
		e := attribute(tree, r)
		if eps[e] == nil {
			eps[e] = &mstat{}
		}
		eps[e].add(r)
	}
	return eps
}

// conservation: every clause of the statement about ONE final aggregation, given the final tree.
// withCause appends the observed cause to the classes it can explain.
func withCause(cls string, tree *obsTree) string {
	if tree.unsignalled > 0 && (cls == "stale-unmerged-key" || cls == "attribution-other") {
		return cls + "-after-unsignalled-convergence"
	}
	return cls
}

func conservation(k kase, agg discovery.Agg, tree *obsTree) (string, string) {
	eps := map[sd.Endpoint]*mstat{}
	cons := map[string]map[sd.Endpoint]*mstat{}
	icpt := map[common.Interceptor]int64{}
	for _, r := range k.Records {
		e := attribute(tree, r)
		if eps[e] == nil {
			eps[e] = &mstat{}
		}
		eps[e].add(r)
		c := consumerOf(r)
		if cons[c] == nil {
			cons[c] = map[sd.Endpoint]*mstat{}
		}
		if cons[c][e] == nil {
			cons[c][e] = &mstat{}
		}
		cons[c][e].add(r)
		i := interceptorOf(r)
		if ts, ok := icpt[i]; !ok || r.TS > ts {
			icpt[i] = r.TS
		}
	}
	if cls, d := countDeviation(agg.Endpoints, eps); cls != "" {
		return "C15/conservation/" + withCause(cls, tree), d
	}
	for _, e := range sortedEndpoints(agg.Endpoints) {
		if s, d := checkEndpoint("", e, agg.Endpoints[e], eps[e]); s != "" {
			return s, d
		}
	}
	for _, c := range sortedStrings(cons) {
		mapping, ok := agg.Consumers[c]
		if !ok {
			return "C15/conservation/consumer-missing", fmt.Sprintf("consumer %q has records but no aggregate", c)
		}
		if cls, d := countDeviation(mapping, cons[c]); cls != "" {
			return "C15/conservation/consumer-only-" + withCause(cls, tree), "consumer " + c + ": " + d
		}
		for _, e := range sortedEndpoints(mapping) {
			if s, d := checkEndpoint("consumer-", e, mapping[e], cons[c][e]); s != "" {
				return s, "consumer " + c + ": " + d
			}
		}
	}
	for _, c := range sortedStrings(agg.Consumers) {
		if _, ok := cons[c]; !ok {
			return "C15/conservation/consumer-without-records", fmt.Sprintf("consumer %q", c)
		}
	}
	if len(agg.Interceptors) != len(icpt) {
		return "C15/conservation/interceptor-keys", fmt.Sprintf("interceptors %v, model %v", agg.Interceptors, icpt)
	}
	for i, ts := range icpt {
		a, ok := agg.Interceptors[i]
		if !ok {
			return "C15/conservation/interceptor-keys", fmt.Sprintf("interceptor %v missing", i)
		}
		if a.Timestamp != ts {
			return "C15/conservation/interceptor-timestamp", fmt.Sprintf("interceptor %v: timestamp %d, latest record %d", i, a.Timestamp, ts)
		}
	}
	return "", ""
}

// ---------------------------------------------------------------- differential: split vs whole

func sumCounts(m map[sd.Endpoint]sd.EndpointAgg) int {
	t := 0
	for _, a := range m {
		t += int(a.Count)
	}
	return t
}

func avgClose(a, b float32) bool {
	x, y := float64(a), float64(b)
	return math.Abs(x-y) <= 1e-3*math.Max(math.Abs(x), math.Abs(y))+0.01
}

// diffMapping returns the first difference between the single-batch and the batch-by-batch
// aggregates of one mapping: kind "counts" (key sets or per-key counts differ) or a field name.
func diffMapping(whole, split map[sd.Endpoint]sd.EndpointAgg) (string, string) {
	var diffs []string
	for _, e := range sortedEndpoints(split) {
		if w, ok := whole[e]; !ok {
			diffs = append(diffs, fmt.Sprintf("%s: single-batch absent, batch-by-batch count %d", epStr(e), split[e].Count))
		} else if w.Count != split[e].Count {
			diffs = append(diffs, fmt.Sprintf("%s: single-batch count %d, batch-by-batch %d", epStr(e), w.Count, split[e].Count))
		}
	}
	for _, e := range sortedEndpoints(whole) {
		if _, ok := split[e]; !ok {
			diffs = append(diffs, fmt.Sprintf("%s: single-batch count %d, batch-by-batch absent", epStr(e), whole[e].Count))
		}
	}
	if len(diffs) > 0 {
		return "counts", fmt.Sprintf("%v; sum of counts single-batch %d, batch-by-batch %d", diffs, sumCounts(whole), sumCounts(split))
	}
	for _, e := range sortedEndpoints(whole) {
		a, b := whole[e], split[e]
		switch {
		case !sameStatus(a.StatusCodes, b.StatusCodes):
			return "status-map", fmt.Sprintf("%s: single-batch %v, batch-by-batch %v", epStr(e), a.StatusCodes, b.StatusCodes)
		case a.MinTime != b.MinTime:
			return "min-time", fmt.Sprintf("%s: single-batch %d, batch-by-batch %d", epStr(e), a.MinTime, b.MinTime)
		case a.MaxTime != b.MaxTime:
			return "max-time", fmt.Sprintf("%s: single-batch %d, batch-by-batch %d", epStr(e), a.MaxTime, b.MaxTime)
		case !avgClose(a.AverageDuration, b.AverageDuration):
			return "average-duration", fmt.Sprintf("%s: single-batch %v, batch-by-batch %v", epStr(e), a.AverageDuration, b.AverageDuration)
		case !avgClose(a.AverageTotalDuration, b.AverageTotalDuration):
			return "average-total-duration", fmt.Sprintf("%s: single-batch %v, batch-by-batch %v", epStr(e), a.AverageTotalDuration, b.AverageTotalDuration)
		}
	}
	return "", ""
}

func sameStatus(a, b map[int]sd.Count) bool {
	if len(a) != len(b) {
		return false
	}
	for k, v := range a {
		if b[k] != v {
			return false
		}
	}
	return true
}

// difference between two final aggregations: scope "" (endpoints), "consumer-" (+ consumer name) or
// "interceptor-"; kind as in diffMapping.
type aggDiff struct {
	scope, consumer, kind, detail string
}

func diffAgg(whole, split discovery.Agg) *aggDiff {
	if k, d := diffMapping(whole.Endpoints, split.Endpoints); k != "" {
		return &aggDiff{"", "", k, d}
	}
	cw, cs := sortedStrings(whole.Consumers), sortedStrings(split.Consumers)
	if strings.Join(cw, "\x00") != strings.Join(cs, "\x00") {
		return &aggDiff{"consumer-", "", "set", fmt.Sprintf("single-batch consumers %v, batch-by-batch %v", cw, cs)}
	}
	for _, c := range cw {
		if k, d := diffMapping(whole.Consumers[c], split.Consumers[c]); k != "" {
			return &aggDiff{"consumer-", c, k, "consumer " + c + ": " + d}
		}
	}
	if len(whole.Interceptors) != len(split.Interceptors) {
		return &aggDiff{"interceptor-", "", "keys", fmt.Sprintf("%v vs %v", whole.Interceptors, split.Interceptors)}
	}
	for i, a := range whole.Interceptors {
		b, ok := split.Interceptors[i]
		if !ok {
			return &aggDiff{"interceptor-", "", "keys", fmt.Sprintf("%v missing batch-by-batch", i)}
		}
		if a.Timestamp != b.Timestamp {
			return &aggDiff{"interceptor-", "", "timestamp", fmt.Sprintf("%v: %d vs %d", i, a.Timestamp, b.Timestamp)}
		}
	}
	return nil
}

// ---------------------------------------------------------------- executions of the real code

type runInfo struct {
	rekeyAcrossBoundary int // batches after which a key of the previous aggregation had disappeared
}

func runBatches(k kase, cuts []int) (discovery.Agg, *obsTree, runInfo, error) {
	var info runInfo
	raw, err := k.tree()
	if err != nil {
		return discovery.Agg{}, nil, info, fmt.Errorf("BuildTree: %w", err)
	}
	tree := &obsTree{SimpleURLTree: raw}
	agg := emptyAgg()
	for _, b := range batches(len(k.Records), cuts) {
		next, err := discovery.GetUpdatedAggregations(agg, k.logs(b[0], b[1]), tree)
		if err != nil {
			return agg, tree, info, fmt.Errorf("GetUpdatedAggregations(batch %v): %w", b, err)
		}
		for e := range agg.Endpoints {
			if _, ok := next.Endpoints[e]; !ok {
				info.rekeyAcrossBoundary++
				break
			}
		}
		agg = next
	}
	return agg, tree, info, nil
}

type wholeResult struct {
	agg       discovery.Agg
	tree      *obsTree
	conserves bool
}

func runWhole(k kase) (wholeResult, string, string) {
	agg, tree, _, err := runBatches(k, nil)
	if err != nil {
		return wholeResult{}, "C15/error/single-batch", err.Error()
	}
	if s, d := conservation(k, agg, tree); s != "" {
		return wholeResult{agg, tree, false}, strings.Replace(s, "C15/conservation/", "C15/conservation/single-batch/", 1), d
	}
	return wholeResult{agg, tree, true}, "", ""
}

func consumerRecords(k kase, c string) kase {
	out := kase{Threshold: k.Threshold, Declared: k.Declared}
	for _, r := range k.Records {
		if consumerOf(r) == c {
			out.Records = append(out.Records, r)
		}
	}
	return out
}

// evalSplit decides one batch-by-batch execution against the single-batch one and the model.
// A difference in keys / counts is classified by how the batch-by-batch result deviates from the
// counts of the records its own final tree attributes to each key. When only the single-batch
// result deviates from its model (already reported as conservation/single-batch/...) and the
// batch-by-batch one is consistent, the difference is counted, not reported a second time.
func evalSplit(k kase, cuts []int, whole wholeResult) (sig, detail string, info runInfo, onlyWholeInconsistent bool) {
	agg, tree, info, err := runBatches(k, cuts)
	if err != nil {
		return "C15/error/batch-by-batch", err.Error(), info, false
	}
	if df := diffAgg(whole.agg, agg); df != nil {
		treeDiffers := false
		for _, r := range k.Records {
			if attribute(tree, r) != attribute(whole.tree, r) {
				treeDiffers = true
				break
			}
		}
		note := " [final tree attributes the records identically to the single-batch tree]"
		if treeDiffers {
			note = " [final tree attributes the records DIFFERENTLY from the single-batch tree]"
		}
		if df.kind != "counts" {
			return "C15/split-dependent/" + df.scope + df.kind, df.detail + note, info, false
		}
		// classify by how the batch-by-batch result deviates from the records (endpoints first;
		// a consumer-level class is only named when the endpoint level is consistent)
		scope := ""
		cls, cd := countDeviation(agg.Endpoints, modelCounts(k, tree))
		if cls == "" {
			for _, c := range sortedStrings(agg.Consumers) {
				if cls, cd = countDeviation(agg.Consumers[c], modelCounts(consumerRecords(k, c), tree)); cls != "" {
					scope, cd = "consumer-only-", "consumer "+c+": "+cd
					break
				}
			}
		}
		switch {
		case cls != "":
			return "C15/split-dependent/" + scope + withCause(cls, tree), df.detail + " || batch-by-batch result vs records: " + cd + note, info, false
		case !whole.conserves:
			return "", "", info, true
		case treeDiffers:
			return "C15/split-dependent/" + df.scope + "final-tree-differs", df.detail + note, info, false
		default:
			return "C15/split-dependent/" + df.scope + "unexplained", df.detail + note, info, false
		}
	}
	if whole.conserves {
		if s, d := conservation(k, agg, tree); s != "" {
			return strings.Replace(s, "C15/conservation/", "C15/conservation/batch-by-batch/", 1), d, info, false
		}
	}
	return "", "", info, false
}

var stateSeq int
var minimised = map[string]int{}

// evalRestart runs discovery.Run batch by batch on a state file, with restarts, and checks totals.
func evalRestart(k kase, cuts, restarts []int, scratch string, faultAt int) (string, string) {
	s, d := evalRestart0(k, cuts, restarts, scratch, faultAt)
	if faultAt > 0 && strings.HasPrefix(s, "C15/restart/") {
		s = "C15/after-failed-state-write/" + strings.TrimPrefix(s, "C15/restart/")
		d = fmt.Sprintf("the state file could not be written for the batch starting at record %d (transient fault, reported by Run); later batches were written normally. %s", faultAt, d)
	}
	return s, d
}

func evalRestart0(k kase, cuts, restarts []int, scratch string, faultAt int) (string, string) {
	stateSeq++
	path := filepath.Join(scratch, fmt.Sprintf("state-%d.json", stateSeq))
	defer os.Remove(path)
	isRestart := map[int]bool{}
	for _, r := range restarts {
		isRestart[r] = true
	}
	st := &discovery.State{DiscoverFilepath: path}
	if err := st.InitializeState(); err != nil {
		return "C15/error/initialize-state", err.Error()
	}
	tree, err := k.tree()
	if err != nil {
		return "C15/error/build-tree", err.Error()
	}
	for _, b := range batches(len(k.Records), cuts) {
		if isRestart[b[0]] {
			st = &discovery.State{DiscoverFilepath: path}
			if err := st.InitializeState(); err != nil {
				return "C15/error/restart-initialize-state", err.Error()
			}
			if tree, err = k.tree(); err != nil {
				return "C15/error/build-tree", err.Error()
			}
		}
		logs := k.logs(b[0], b[1])
		in := make([]common.AccessLog, len(logs))
		for i, l := range logs {
			in[i] = common.AccessLog(l)
		}
		faulted := faultAt > 0 && b[0] == faultAt
		if faulted {
			// the state file cannot be written: a directory stands in its place for the duration of this batch
			_ = os.Remove(path)
			if err := os.Mkdir(path, 0o755); err != nil {
				return "C15/error/harness-fault", err.Error()
			}
		}
		err := discovery.Run(st, in, tree)
		if faulted {
			_ = os.Remove(path)
			if err == nil {
				return "C15/error/harness-fault", "the state write did not fail although a directory stood in the file's place"
			}
			continue
		}
		if err != nil {
			return "C15/error/run", fmt.Sprintf("batch %v: %v", b, err)
		}
	}
	data, err := os.ReadFile(path)
	if err != nil {
		return "C15/error/state-file-read", err.Error()
	}
	var out sd.Output
	if err := json.Unmarshal(data, &out); err != nil {
		return "C15/restart/state-file-unparsable", err.Error()
	}
	agg := discovery.ConvertFromPersisted(out)

	n := len(k.Records)
	byMethod, byStatus := map[string]int{}, map[int]int{}
	byConsumer := map[string]int{}
	icpt := map[common.Interceptor]bool{}
	for _, r := range k.Records {
		byMethod[r.Method]++
		byStatus[r.Status]++
		byConsumer[consumerOf(r)]++
		icpt[interceptorOf(r)] = true
	}
	gotMethod, gotStatus := map[string]int{}, map[int]int{}
	total := 0
	for e, a := range agg.Endpoints {
		total += int(a.Count)
		gotMethod[e.Method] += int(a.Count)
		for s, c := range a.StatusCodes {
			gotStatus[s] += int(c)
		}
	}
	if total != n {
		kind := "total-count-lost"
		if total > n {
			kind = "total-count-duplicated"
		}
		return "C15/restart/" + kind, fmt.Sprintf("sum of endpoint counts after restart(s)=%d, records=%d; endpoints=%v", total, n, describe(agg.Endpoints))
	}
	if fmt.Sprint(gotMethod) != fmt.Sprint(byMethod) {
		return "C15/restart/per-method-total", fmt.Sprintf("per-method totals %v, records %v", gotMethod, byMethod)
	}
	if fmt.Sprint(gotStatus) != fmt.Sprint(byStatus) {
		return "C15/restart/per-status-total", fmt.Sprintf("per-status totals %v, records %v", gotStatus, byStatus)
	}
	for _, c := range sortedStrings(byConsumer) {
		mapping, ok := agg.Consumers[c]
		if !ok {
			return "C15/restart/consumer-lost", fmt.Sprintf("consumer %q (%d records) absent after restart(s)", c, byConsumer[c])
		}
		if t := sumCounts(mapping); t != byConsumer[c] {
			return "C15/restart/consumer-total", fmt.Sprintf("consumer %q: counts sum to %d, records %d", c, t, byConsumer[c])
		}
	}
	for i := range icpt {
		if _, ok := agg.Interceptors[i]; !ok {
			return "C15/restart/interceptor-lost", fmt.Sprintf("interceptor %v absent after restart(s)", i)
		}
	}
	return "", ""
}

func describe(m map[sd.Endpoint]sd.EndpointAgg) []string {
	out := []string{}
	for _, e := range sortedEndpoints(m) {
		out = append(out, fmt.Sprintf("%s=%d", epStr(e), m[e].Count))
	}
	return out
}

// evaluate decides one witness from scratch (used by replay and by the minimiser): every signature
// the execution exhibits, with its detail.
func evaluate(w witness, scratch string) (found [][2]string) {
	defer func() {
		if r := recover(); r != nil {
			found = append(found, [2]string{"C15/panic/" + w.Mode, fmt.Sprint(r)})
		}
	}()
	if w.Mode == "restart" {
		if s, d := evalRestart(w.K, w.Cuts, w.Restarts, scratch, w.FaultAt); s != "" {
			found = append(found, [2]string{s, d})
		}
		return found
	}
	whole, s, d := runWhole(w.K)
	if s != "" {
		found = append(found, [2]string{s, d})
	}
	if whole.tree != nil && len(w.Cuts) > 0 {
		if s, d, _, _ := evalSplit(w.K, w.Cuts, whole); s != "" {
			found = append(found, [2]string{s, d})
		}
	}
	return found
}

func detailOf(found [][2]string, sig string) (string, bool) {
	for _, f := range found {
		if f[0] == sig {
			return f[1], true
		}
	}
	return "", false
}

// ---------------------------------------------------------------- witness minimisation

func dropRecords(w witness, lo, hi int) witness {
	nw := witness{Mode: w.Mode, Case: w.Case, Seed: w.Seed}
	nw.K = kase{Threshold: w.K.Threshold, Declared: w.K.Declared}
	nw.K.Records = append(append([]rec{}, w.K.Records[:lo]...), w.K.Records[hi:]...)
	shift := func(xs []int) []int {
		out := []int{}
		for _, c := range xs {
			nc := c
			if c >= hi {
				nc = c - (hi - lo)
			} else if c > lo {
				nc = lo
			}
			if nc > 0 && nc < len(nw.K.Records) && (len(out) == 0 || out[len(out)-1] != nc) {
				out = append(out, nc)
			}
		}
		return out
	}
	nw.Cuts = shift(w.Cuts)
	nw.Restarts = shift(w.Restarts)
	return nw
}

func minimise(w witness, sig, scratch string) witness {
	budget := 1200
	same := func(c witness) bool {
		if budget <= 0 {
			return false
		}
		budget--
		_, ok := detailOf(evaluate(c, scratch), sig)
		return ok
	}
	for changed := true; changed; {
		changed = false
		for chunk := len(w.K.Records) / 2; chunk >= 1; chunk /= 2 {
			for lo := 0; lo+chunk <= len(w.K.Records) && len(w.K.Records) > 1; {
				c := dropRecords(w, lo, lo+chunk)
				if same(c) {
					w, changed = c, true
				} else {
					lo += chunk
				}
			}
		}
		for i := 0; i < len(w.Cuts); {
			c := w
			cut := w.Cuts[i]
			c.Cuts = append(append([]int{}, w.Cuts[:i]...), w.Cuts[i+1:]...)
			c.Restarts = []int{}
			for _, r := range w.Restarts {
				if r != cut {
					c.Restarts = append(c.Restarts, r)
				}
			}
			if same(c) {
				w, changed = c, true
			} else {
				i++
			}
		}
		for i := 0; i < len(w.K.Declared); {
			c := w
			c.K.Declared = append(append([]string{}, w.K.Declared[:i]...), w.K.Declared[i+1:]...)
			if same(c) {
				w, changed = c, true
			} else {
				i++
			}
		}
	}
	// normalise irrelevant fields where that keeps the signature
	for i := range w.K.Records {
		c := w
		c.K.Records = append([]rec{}, w.K.Records...)
		r := c.K.Records[i]
		r.Icpt, r.Consumer, r.Dur, r.Tot, r.Status = "", "", 0, 0, 200
		c.K.Records[i] = r
		if same(c) {
			w = c
		}
	}
	return w
}

// ---------------------------------------------------------------- workload

var methods = []string{"GET", "GET", "GET", "POST", "PUT", "DELETE"}
var statuses = []int{200, 200, 200, 201, 204, 301, 400, 404, 429, 500, 503}
var interceptors = []string{"lunar-aiohttp-interceptor/2.1.0", "lunar-ts-interceptor/1.4.2", "lunar-java-interceptor/0.9.0", ""}
var consumers = []string{"", "billing", "checkout", "search-svc", "mobile"}

func genCase(r *sim.Rand) kase {
	k := kase{Threshold: r.Range(2, 4)}
	switch r.Intn(10) {
	case 0, 1, 2, 3:
		n := r.Range(4, 10)
		return fill(r, k, n, true)
	case 4, 5, 6, 7:
		return fill(r, k, r.Range(11, 60), false)
	default:
		return fill(r, k, r.Range(61, 400), false)
	}
}

// genSingleFamily: host/res/<id>[/details] with one id pool straddling the threshold; optional constants
// beside the ids; 4-40 records.
func genSingleFamily(r *sim.Rand) kase {
	k := kase{Regime: "single-family", Threshold: r.Range(2, 4)}
	host := sim.Pick(r, []string{"api.com", "svc.example.org"})
	res := sim.Pick(r, []string{"user", "orders", "v1/accounts"})
	pool := r.Range(k.Threshold, k.Threshold+4)
	suffix := r.Chance(1, 3)
	constants := r.Chance(1, 4)
	n := r.Range(4, 10)
	if r.Chance(1, 3) {
		n = r.Range(11, 40)
	}
	nCons := r.Range(1, 3)
	base := int64(1_700_000_000_000) + int64(r.Intn(1_000_000))
	for i := 0; i < n; i++ {
		u := fmt.Sprintf("%s/%s/%d", host, res, 1+r.Intn(pool))
		if constants && r.Chance(1, 5) {
			u = host + "/" + res + "/" + sim.Pick(r, []string{"search", "me"})
		}
		if suffix && r.Bool() {
			u += "/details"
		}
		rc := rec{
			TS:       base + int64(r.Intn(5_000_000)) - 2_000_000,
			Dur:      sim.Pick(r, []int{0, 1, r.Intn(50), r.Intn(5000)}),
			Status:   sim.Pick(r, statuses),
			Method:   sim.Pick(r, []string{"GET", "GET", "POST"}),
			URL:      u,
			Icpt:     interceptors[0],
			Consumer: consumers[r.Intn(nCons)],
		}
		rc.Tot = rc.Dur + r.Intn(2000)
		k.Records = append(k.Records, rc)
	}
	return k
}

// genDeclaredSiblings: the known endpoints declare the same parameter under t sibling prefixes of identical
// shape (api.com/v1/user/{id} ... api.com/vt/user/{id}); traffic on them is aggregated first, then a further
// prefix crosses the threshold one level up, which merges the sibling sub-trees and renames the declared
// parameter. All merged sub-trees have the same shape, so the outcome does not depend on which of them the
// tree samples (the open findings need sub-trees of different shapes).
func genDeclaredSiblings(r *sim.Rand) kase {
	k := kase{Regime: "declared-siblings", Threshold: r.Range(2, 4)}
	host := sim.Pick(r, []string{"api.com", "svc.example.org"})
	res := sim.Pick(r, []string{"user", "orders"})
	name := sim.Pick(r, []string{"id", "userId"})
	for i := 1; i <= k.Threshold; i++ {
		k.Declared = append(k.Declared, fmt.Sprintf("%s/v%d/%s/{%s}", host, i, res, name))
	}
	base := int64(1_700_000_000_000) + int64(r.Intn(1_000_000))
	add := func(v, id int) {
		rc := rec{
			TS:       base + int64(r.Intn(5_000_000)) - 2_000_000,
			Dur:      sim.Pick(r, []int{0, 1, r.Intn(50), r.Intn(5000)}),
			Status:   sim.Pick(r, statuses),
			Method:   "GET",
			URL:      fmt.Sprintf("%s/v%d/%s/%d", host, v, res, id),
			Icpt:     interceptors[0],
			Consumer: consumers[r.Intn(2)],
		}
		rc.Tot = rc.Dur + r.Intn(2000)
		k.Records = append(k.Records, rc)
	}
	n1 := r.Range(3, 8)
	for i := 0; i < n1; i++ {
		add(r.Range(1, k.Threshold), r.Range(1, 5))
	}
	extra := r.Range(1, 2) // further prefixes: the level above the declared parameter converges
	n2 := r.Range(2, 6)
	for i := 0; i < n2; i++ {
		add(r.Range(1, k.Threshold+extra), r.Range(1, 5))
	}
	add(k.Threshold+1, r.Range(1, 5))
	for i := 0; i < r.Range(0, 4); i++ {
		add(r.Range(1, k.Threshold+extra), r.Range(1, 5))
	}
	return k
}

func fill(r *sim.Rand, k kase, n int, small bool) kase {
	hosts := []string{"api.com", "svc.example.org"}[:r.Range(1, 2)]
	// id pools sized around the threshold so the threshold is crossed early, late or never
	poolSize := func() int { return r.Range(k.Threshold-1, k.Threshold+3) }
	ids := func(prefix string, n int) []string {
		out := make([]string, n)
		for i := range out {
			out[i] = fmt.Sprintf("%s%d", prefix, i+1)
		}
		return out
	}
	type family func() string
	var fams []family
	nFam := r.Range(1, 3)
	if small {
		nFam = r.Range(1, 2)
	}
	for f := 0; f < nFam; f++ {
		host := sim.Pick(r, hosts)
		res := sim.Pick(r, []string{"users", "orders", "items", "v1/accounts"})
		l1 := ids("", poolSize())
		l2 := ids("s", poolSize())
		sub := sim.Pick(r, []string{"posts", "lines", "tags"})
		switch r.Intn(6) {
		case 0: // one level: host/res/<id>
			fams = append(fams, func() string { return host + "/" + res + "/" + sim.Pick(r, l1) })
		case 1: // one level with constant suffix, mixed with the bare form
			fams = append(fams, func() string {
				u := host + "/" + res + "/" + sim.Pick(r, l1)
				if r.Bool() {
					u += "/details"
				}
				return u
			})
		case 2, 3: // two levels: host/res/<id>/sub/<id2>
			fams = append(fams, func() string {
				u := host + "/" + res + "/" + sim.Pick(r, l1)
				if r.Chance(3, 4) {
					u += "/" + sub + "/" + sim.Pick(r, l2)
				}
				return u
			})
		case 4: // declared path parameter, inferred one below it
			decl := host + "/" + res + "/{" + sim.Pick(r, []string{"id", "userId"}) + "}"
			if r.Bool() {
				decl += "/" + sub
			}
			already := false
			for _, d := range k.Declared {
				if strings.HasPrefix(d, host+"/"+res+"/{") {
					already = true
				}
			}
			if !already {
				k.Declared = append(k.Declared, decl)
			}
			fams = append(fams, func() string {
				u := host + "/" + res + "/" + sim.Pick(r, l1)
				switch r.Intn(3) {
				case 0:
					u += "/" + sub
				case 1:
					u += "/" + sub + "/" + sim.Pick(r, l2)
				}
				return u
			})
		default: // constants next to ids at the same level
			fams = append(fams, func() string {
				if r.Chance(1, 3) {
					return host + "/" + res + "/" + sim.Pick(r, []string{"search", "me"})
				}
				return host + "/" + res + "/" + sim.Pick(r, l1)
			})
		}
	}
	if r.Chance(1, 3) {
		h := sim.Pick(r, hosts)
		fams = append(fams, func() string { return h + "/" + sim.Pick(r, []string{"health", "v2/status"}) })
	}
	nCons := r.Range(1, 4)
	cons := make([]string, nCons)
	for i := range cons {
		cons[i] = consumers[(r.Intn(len(consumers))+i)%len(consumers)]
	}
	nIcpt := r.Range(1, 3)
	oneMethod := r.Chance(1, 2)
	base := int64(1_700_000_000_000) + int64(r.Intn(1_000_000))
	for i := 0; i < n; i++ {
		rc := rec{
			TS:       base + int64(r.Intn(5_000_000)) - 2_000_000,
			Dur:      sim.Pick(r, []int{0, 1, r.Intn(50), r.Intn(5000), r.Intn(1_000_001), 1_000_000}),
			Status:   sim.Pick(r, statuses),
			Method:   "GET",
			URL:      sim.Pick(r, fams)(),
			Icpt:     interceptors[r.Intn(nIcpt)],
			Consumer: sim.Pick(r, cons),
		}
		if r.Chance(1, 8) {
			rc.TS = base // duplicates of the same instant
		}
		rc.Tot = rc.Dur + r.Intn(2000)
		if !oneMethod {
			rc.Method = sim.Pick(r, methods)
		}
		k.Records = append(k.Records, rc)
	}
	return k
}

func cutsFromMask(n int, mask uint64) []int {
	out := []int{}
	for i := 1; i < n; i++ {
		if mask&(1<<(i-1)) != 0 {
			out = append(out, i)
		}
	}
	return out
}

func randomCuts(r *sim.Rand, n, den int) []int {
	out := []int{}
	for i := 1; i < n; i++ {
		if r.Intn(den) == 0 {
			out = append(out, i)
		}
	}
	return out
}

// ---------------------------------------------------------------- main

func shape(k kase, whole discovery.Agg, rekeyed bool) string {
	levels := 0
	declaredHit := false
	for e := range whole.Endpoints {
		if c := strings.Count(e.URL, "{_param_"); c > levels {
			levels = c
		}
		if strings.Contains(e.URL, "{id}") || strings.Contains(e.URL, "{userId}") {
			declaredHit = true
		}
	}
	nb := "n<=10"
	if len(k.Records) > 60 {
		nb = "n>60"
	} else if len(k.Records) > 10 {
		nb = "n<=60"
	}
	cs := map[string]bool{}
	for _, r := range k.Records {
		cs[r.Consumer] = true
	}
	return fmt.Sprintf("thr%d/levels%d/declared%v/cons%d/%s/rekey%v/eps%d", k.Threshold, levels, declaredHit, len(cs), nb, rekeyed, min(len(whole.Endpoints), 6))
}

func main() {
	zerolog.SetGlobalLevel(zerolog.Disabled)
	args := sim.ParseArgs()
	v := sim.NewVerdict("C15", args.Seed, args.Tier, args.Batch, args.Out)
	v.Rule = "case = generated access-log stream (4-400 records; 1-3 URL families whose id pools straddle the convergence threshold 2-4 at one and two levels, declared path parameters, constants next to ids, 1-4 consumers, 1-3 interceptors, durations 0..1e6, unordered and duplicate timestamps) x batch splits (all 2^(n-1) for n<=10; singletons, every/sampled two-batch split and random splits of 3 densities above) x restarts; non-trivial iff the single-batch result contains an inferred path parameter AND in at least one split an aggregate created by an earlier batch was re-keyed by a later one; distinct by <threshold, #inferred levels, declared parameter hit, #consumers, n bucket, #endpoints>"
	v.Assumptions = []string{
		"attribution of a record to an endpoint = pure Lookup (StrictNormalizeURL) on the final tree of the run; the URL tree's own correctness is not judged here",
		"averages compared with 1e-3 relative + 0.01 absolute tolerance (float32 accumulation is the implementation's stated precision)",
		"after a restart only totals are demanded (sum of counts, per method, per status, per consumer, interceptor set): timestamps are persisted with 1 s resolution and keys may differ under the fresh tree",
		"empty consumer tag is reported as discovery.UnknownConsumerTag, an interceptor header that is not type/version as unknown/unknown (conventions taken as given)",
	}
	base := os.Getenv("VERIF_SCRATCH")
	if base == "" || strings.HasPrefix(base, "/repo") || strings.HasPrefix(base, "/verif") {
		base = os.TempDir()
	}
	scratch, err := os.MkdirTemp(base, "c15-")
	if err != nil {
		v.Inconclude("cannot create scratch dir: " + err.Error())
		os.Exit(v.Write())
	}
	defer os.RemoveAll(scratch)

	if args.Replay != "" {
		data, err := os.ReadFile(args.Replay)
		var f struct {
			Replay witness `json:"replay"`
		}
		if err == nil {
			err = json.Unmarshal(data, &f)
		}
		if err != nil {
			v.Inconclude("cannot read replay file: " + err.Error())
			os.RemoveAll(scratch)
			os.Exit(v.Write())
		}
		v.Eval(1)
		for attempt := 0; attempt < 16; attempt++ {
			found := evaluate(f.Replay, scratch)
			for _, f2 := range found {
				v.Violate(f2[0], f2[1], f.Replay)
			}
			v.Count("replay_attempts", 1)
			if len(found) > 0 {
				break
			}
		}
		os.RemoveAll(scratch)
		os.Exit(v.Write())
	}

	total := args.Pick(320, 9600)
	lo, hi := args.Share(total)
	nontrivial := 0
	for i := lo; i < hi; i++ {
		r := args.CaseRand(i)
		k := genCase(r)
		fmt.Printf("case %d n=%d thr=%d declared=%v\n", i, len(k.Records), k.Threshold, k.Declared)
		if runCase(i, args, r, k, v, scratch) {
			nontrivial++
		}
	}
	slo, shi := args.Share(args.Pick(160, 4800))
	for i := slo; i < shi; i++ {
		r := args.CaseRand(1_000_000 + i)
		k := genSingleFamily(r)
		if runCase(1_000_000+i, args, r, k, v, scratch) {
			nontrivial++
			v.Count("nontrivial_single_family_cases", 1)
		}
		v.Count("single_family_cases", 1)
	}
	dlo, dhi := args.Share(args.Pick(160, 4800))
	for i := dlo; i < dhi; i++ {
		r := args.CaseRand(2_000_000 + i)
		k := genDeclaredSiblings(r)
		if runCase(2_000_000+i, args, r, k, v, scratch) {
			nontrivial++
			v.Count("nontrivial_declared_siblings_cases", 1)
		}
		v.Count("declared_siblings_cases", 1)
	}
	if nontrivial == 0 {
		v.Inconclude("no case of this batch converged the tree across a batch boundary")
	}
	os.RemoveAll(scratch)
	os.Exit(v.Write())
}

func runCase(idx int, args sim.Args, r *sim.Rand, k kase, v *sim.Verdict, scratch string) (nontrivial bool) {
	n := len(k.Records)
	reported := map[string]bool{}
	report := func(w witness, sig, detail string) {
		if reported[sig] {
			return
		}
		reported[sig] = true
		final := sig
		if k.Regime != "" {
			final = strings.Replace(sig, "C15/", "C15/"+k.Regime+"/", 1)
		}
		minimised[final]++
		if minimised[final] > 2 {
			v.Violate(final, fmt.Sprintf("(not minimised) case %d, %d records, cuts %v, restarts %v: %s", idx, n, w.Cuts, w.Restarts, detail), w)
			return
		}
		m := minimise(w, sig, scratch)
		md, _ := detailOf(evaluate(m, scratch), sig)
		v.Violate(final, fmt.Sprintf("minimal witness: %d records, cuts %v, restarts %v: %s || original (case %d, %d records, cuts %v): %s",
			len(m.K.Records), m.Cuts, m.Restarts, md, idx, n, w.Cuts, detail), m)
	}
	mk := func(mode string, cuts, restarts []int) witness {
		return witness{Mode: mode, Case: idx, Seed: args.Seed, K: k, Cuts: cuts, Restarts: restarts}
	}
	var whole wholeResult
	var wsig, wdet string
	if sim.Guard(v, "C15/panic/single-batch", mk("split", nil, nil), func() { whole, wsig, wdet = runWhole(k) }) {
		return false
	}
	v.Eval(1)
	v.Count("records", n)
	if wsig != "" {
		report(mk("split", nil, nil), wsig, wdet)
		if whole.tree == nil {
			return false
		}
	}
	converged := false
	for e := range whole.agg.Endpoints {
		if strings.Contains(e.URL, "{_param_") {
			converged = true
		}
	}
	if converged {
		v.Count("cases_with_inferred_parameter", 1)
	}

	// --- splits
	var splits [][]int
	if n <= 10 {
		for mask := uint64(1); mask < 1<<(n-1); mask++ {
			splits = append(splits, cutsFromMask(n, mask))
		}
		v.Count("cases_with_all_splits_enumerated", 1)
	} else {
		all := make([]int, 0, n-1)
		for i := 1; i < n; i++ {
			all = append(all, i)
		}
		splits = append(splits, all) // every record its own batch
		if n <= 60 {
			for i := 1; i < n; i++ {
				splits = append(splits, []int{i})
			}
		} else {
			for j := 0; j < 24; j++ {
				splits = append(splits, []int{r.Range(1, n-1)})
			}
		}
		for j := 0; j < 12; j++ {
			splits = append(splits, randomCuts(r, n, []int{2, 5, 20}[j%3]))
		}
	}
	rekeyed := false
	for _, cuts := range splits {
		var s, d string
		var info runInfo
		w := mk("split", cuts, nil)
		var onlyWhole bool
		if sim.Guard(v, "C15/panic/batch-by-batch", w, func() { s, d, info, onlyWhole = evalSplit(k, cuts, whole) }) {
			continue
		}
		v.Eval(1)
		v.Count("splits", 1)
		v.Count("batches", len(cuts)+1)
		if info.rekeyAcrossBoundary > 0 {
			rekeyed = true
			v.Count("splits_with_rekey_across_boundary", 1)
		}
		if onlyWhole {
			v.Count("splits_differing_only_because_single_batch_result_is_inconsistent", 1)
		}
		if s != "" {
			report(w, s, d)
		}
	}

	// --- restarts
	type rs struct {
		cuts, restarts []int
		faultAt        int
	}
	var rss []rs
	if n <= 7 {
		for _, cuts := range splits {
			for _, c := range cuts {
				rss = append(rss, rs{cuts, []int{c}, 0})
			}
			if len(cuts) >= 2 {
				// a transient failure of the state write in a middle batch, no restart
				rss = append(rss, rs{cuts, nil, cuts[0]})
			}
		}
	} else {
		for j := 0; j < 10; j++ {
			cuts := randomCuts(r, n, []int{2, 4, 10}[j%3])
			if len(cuts) == 0 {
				cuts = []int{r.Range(1, n-1)}
			}
			var restarts []int
			for _, c := range cuts {
				if r.Chance(1, 3) {
					restarts = append(restarts, c)
				}
			}
			if len(restarts) == 0 {
				restarts = []int{sim.Pick(r, cuts)}
			}
			rss = append(rss, rs{cuts, restarts, 0})
			if j < 3 && len(cuts) >= 2 {
				rss = append(rss, rs{cuts, nil, cuts[r.Intn(len(cuts)-1)]})
			}
		}
		rss = append(rss, rs{nil, nil, 0}) // Run + state file without any restart
	}
	for _, x := range rss {
		var s, d string
		w := mk("restart", x.cuts, x.restarts)
		w.FaultAt = x.faultAt
		if sim.Guard(v, "C15/panic/restart", w, func() { s, d = evalRestart(k, x.cuts, x.restarts, scratch, x.faultAt) }) {
			continue
		}
		if x.faultAt > 0 {
			v.Count("runs_with_a_failed_state_write_in_a_middle_batch", 1)
		}
		v.Eval(1)
		v.Count("restart_runs", 1)
		v.Count("restarts", len(x.restarts))
		if s != "" {
			report(w, s, d)
		}
	}

	if converged && rekeyed {
		v.Distinct(shape(k, whole.agg, rekeyed))
		v.Count("nontrivial_cases", 1)
		v.Sample(map[string]any{"case": idx, "records": n, "threshold": k.Threshold, "declared": k.Declared,
			"endpoints_single_batch": describe(whole.agg.Endpoints), "splits": len(splits), "restart_runs": len(rss)})
		return true
	}
	return false
}
