package sim

import (
	"flag"
	"fmt"
	"os"
	"runtime/debug"
)

// Args are the flags every child program takes.
type Args struct {
	Seed    uint64
	Tier    string
	Batch   int
	Batches int
	Out     string
	Replay  string
}

func ParseArgs() Args {
	var a Args
	flag.Uint64Var(&a.Seed, "seed", 1, "VERIF_SEED")
	flag.StringVar(&a.Tier, "tier", "quick", "quick|thorough")
	flag.IntVar(&a.Batch, "batch", 0, "batch index")
	flag.IntVar(&a.Batches, "batches", 1, "number of batches")
	flag.StringVar(&a.Out, "out", "", "output directory (verdict.json)")
	flag.StringVar(&a.Replay, "replay", "", "replay file")
	flag.Parse()
	if a.Out == "" {
		fmt.Fprintln(os.Stderr, "-out required")
		os.Exit(3)
	}
	return a
}

func (a Args) Thorough() bool { return a.Tier == "thorough" }

// Pick returns q for the quick tier and t for the thorough tier.
func (a Args) Pick(q, t int) int {
	if a.Thorough() {
		return t
	}
	return q
}

// Share splits total cases across batches; returns this batch's [lo,hi).
func (a Args) Share(total int) (int, int) {
	per := (total + a.Batches - 1) / a.Batches
	lo := a.Batch * per
	hi := lo + per
	if hi > total {
		hi = total
	}
	if lo > hi {
		lo = hi
	}
	return lo, hi
}

// CaseRand derives the generator of case i: independent of batching, so a case replays alone.
func (a Args) CaseRand(i int) *Rand {
	return NewRand(a.Seed*1000003 + uint64(i)*7919 + 17)
}

// Guard runs fn and turns a panic into a violation with the given signature prefix.
func Guard(v *Verdict, sig string, replay any, fn func()) (panicked bool) {
	defer func() {
		if r := recover(); r != nil {
			panicked = true
			v.Violate(sig, fmt.Sprintf("panic: %v\n%s", r, debug.Stack()), replay)
		}
	}()
	fn()
	return false
}
