package sim

// Rand is a splitmix64 generator: the whole workload of a check is a function of VERIF_SEED.
type Rand struct{ s uint64 }

func NewRand(seed uint64) *Rand { return &Rand{s: seed*0x9E3779B97F4A7C15 + 0x1234567} }

func (r *Rand) U64() uint64 {
	r.s += 0x9E3779B97F4A7C15
	z := r.s
	z = (z ^ (z >> 30)) * 0xBF58476D1CE4E5B9
	z = (z ^ (z >> 27)) * 0x94D049BB133111EB
	return z ^ (z >> 31)
}

// Intn returns a value in [0,n).
func (r *Rand) Intn(n int) int {
	if n <= 0 {
		return 0
	}
	return int(r.U64() % uint64(n))
}

// Range returns a value in [lo,hi].
func (r *Rand) Range(lo, hi int) int { return lo + r.Intn(hi-lo+1) }

func (r *Rand) Bool() bool { return r.U64()&1 == 1 }

// Chance is true with probability num/den.
func (r *Rand) Chance(num, den int) bool { return r.Intn(den) < num }

func Pick[T any](r *Rand, xs []T) T { return xs[r.Intn(len(xs))] }

func (r *Rand) Shuffle(n int, swap func(i, j int)) {
	for i := n - 1; i > 0; i-- {
		j := r.Intn(i + 1)
		swap(i, j)
	}
}

// Fork derives an independent generator (e.g. one per case, so a case can be replayed alone).
func (r *Rand) Fork(tag uint64) *Rand { return NewRand(r.U64() ^ (tag * 0xD6E8FEB86659FD93)) }
