"""Per-property configuration of the driver (what to build, how many batches, watchdogs)."""


def go(pid, level, technique, batches=(4, 16), watchdog=(300, 1500), race=None, module="harness", **kw):
    d = {
        "id": pid, "kind": "go", "module": module, "pkg": f"./cmd/{pid.lower()}", "level": level,
        "technique": technique,
        "batches": {"quick": batches[0], "thorough": batches[1]},
        "watchdog_s": {"quick": watchdog[0], "thorough": watchdog[1]},
        "race": race or {"quick": "no", "thorough": "no"},
    }
    d.update(kw)
    return d


CHECKS = {
    "C01": go("C01", "exploration",
              "runtime monitor: hierarchical fixed-window reference model (4 window conventions) over verdict histories on a virtual clock + porcupine linearizability of frozen-clock concurrent rounds",
              batches=(8, 16), race={"quick": "no", "thorough": "both"}),
}

TEXTS = {
    "C01": {
        "text": "Held on the executions produced: thousands of generated quota hierarchies x arrival histories on a boundary-rich virtual time grid through the real streams.Stream, judged by a reference model under every admissible window convention, plus porcupine-checked concurrent rounds. Exploration is the right level: the property quantifies over unbounded histories and schedules, which a monitor can only sample.",
        "design_ref": "DESIGN.md §5 C01",
        "note": "Trusts: the virtual clock installed through SetClockForVerif is the only time source of the quota code; verdict read from the returned actions; window convention left free (4 variants); Redis-backed shared state not exercised (in-memory state only).",
    },
}

# Properties not (yet) claimed. Kept current as checks are added.
NOT_APPLICABLE = [
    {"property_id": p, "reason": "check under construction in this session; not claimed until it runs silently on the unchanged tree"}
    for p in ["C02", "C03", "C04", "C05", "C06", "C07", "C08", "C09", "C10", "C11", "C12", "C13", "C14", "C15", "C16", "C17", "C18", "C19", "C20"]
]
