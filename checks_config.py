"""Per-property configuration of the driver: one JSON file per property under checks.d/.

Keys: id, kind (go|py), module, pkg | script, level, technique, batches{quick,thorough},
watchdog_s{quick,thorough}, race{quick,thorough: no|only|both}, text, design_ref, note,
optional threads_per_child, race_slowdown.
"""
import glob
import json
import os

HERE = os.path.dirname(os.path.abspath(__file__))
ALL = ["C%02d" % i for i in range(1, 21)]

CHECKS = {}
TEXTS = {}
# Only properties listed in checks.d/READY are claimed in MANIFEST.json; the driver can still run
# the others (VERIF_ALL=1 ./check C<NN> quick, or directly by id) while they are being vetted.
with open(os.path.join(HERE, "checks.d", "READY")) as _f:
    READY = set(_f.read().split())
for path in sorted(glob.glob(os.path.join(HERE, "checks.d", "C*.json"))):
    with open(path) as f:
        c = json.load(f)
    if c.get("disabled"):
        continue
    c["ready"] = c["id"] in READY
    CHECKS[c["id"]] = c
    TEXTS[c["id"]] = {"text": c["text"], "design_ref": c["design_ref"], "note": c["note"]}

_REASONS = {}
_rp = os.path.join(HERE, "checks.d", "not_applicable.json")
if os.path.exists(_rp):
    with open(_rp) as f:
        _REASONS = json.load(f)

NOT_APPLICABLE = [
    {"property_id": p, "reason": _REASONS.get(p, "check not built yet in this session; not claimed until it runs silently on the unchanged tree")}
    for p in ALL if p not in CHECKS or not CHECKS[p]["ready"]
]
