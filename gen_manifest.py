#!/usr/bin/env python3
"""Regenerates MANIFEST.json from checks_config.py (single source of truth for the driver)."""
import json
import os
import subprocess

from checks_config import CHECKS, NOT_APPLICABLE, TEXTS

HERE = os.path.dirname(os.path.abspath(__file__))


def hook_commits():
    try:
        out = subprocess.run(["git", "-C", "/repo", "log", "--format=%H %s"], capture_output=True, text=True).stdout
    except Exception:
        return []
    return [ln.split()[0] for ln in out.splitlines() if " verif hooks:" in " " + ln]


baseline = json.load(open("/root/.vp/BASELINE.json"))["cmd"] if os.path.exists("/root/.vp/BASELINE.json") else ""
manifest = {
    "version": 1,
    "setup_cmd": "./check setup",
    "hooks": {
        "guard": "verif",
        "enable": "go build -tags verif (the checks build their child programs from /verif/harness, whose go.mod replaces lunar/engine, lunar/toolkit-core and lunar/shared-model with /repo's working tree)",
        "baseline_off_cmd": baseline,
        "source_commits": hook_commits(),
        "add_only": True,
    },
    "engines": [
        {"name": "harness", "path": "harness", "serves_properties": sorted(k for k, c in CHECKS.items() if c["ready"] and c.get("module", "harness") == "harness" and c.get("kind", "go") == "go"),
         "kind_free_text": "Go module driving the real engine code (streams.Stream, routing.Handler, remedies, caches, queues) under generated workloads on a virtual clock; monitors decide on hook events, verdict histories (porcupine) and reference models"},
        {"name": "aggharness", "path": "aggharness", "serves_properties": sorted(k for k, c in CHECKS.items() if c["ready"] and c.get("module") == "aggharness"),
         "kind_free_text": "Go module driving lunar/aggregation-plugin (discovery aggregation) differential batching monitor"},
        {"name": "py", "path": "py", "serves_properties": sorted(k for k, c in CHECKS.items() if c["ready"] and c.get("kind") == "py"),
         "kind_free_text": "python3-vt harness importing the real interceptor modules with stubbed third-party packages; reference circuit breaker and address classifier"},
    ],
    "checks": [],
    "not_applicable": NOT_APPLICABLE,
    "notes": "All checks are runtime monitors over executions of the real code (see DESIGN.md). exit 2 = inconclusive (watchdog / nothing non-trivial observed), never used for a verdict.",
}
for pid in sorted(CHECKS):
    c = CHECKS[pid]
    if not c["ready"]:
        continue
    t = TEXTS[pid]
    manifest["checks"].append({
        "property_id": pid,
        "quick_cmd": f"./check {pid} quick",
        "thorough_cmd": f"./check {pid} thorough",
        "evidence_file": f"evidence/{pid}.json",
        "replay_cmd_template": f"./check {pid} quick --replay {{path}}",
        "engine": c.get("module", "harness") if c.get("kind", "go") == "go" else "py",
        "level_claimed": {"category": c["level"], "text": t["text"], "design_ref": t["design_ref"]},
        "level_note": t["note"],
        "technique": c["technique"],
    })
json.dump(manifest, open(os.path.join(HERE, "MANIFEST.json"), "w"), indent=1)
print("MANIFEST.json:", len(manifest["checks"]), "checks,", len(NOT_APPLICABLE), "not_applicable")
