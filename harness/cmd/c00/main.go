package main

import (
	"fmt"

	"github.com/anishathalye/porcupine"
	"lunar/engine/streams"
	"lunar/toolkit-core/verifhook"
)

func main() {
	_ = porcupine.Ok
	_, _ = streams.NewStream()
	fmt.Println(verifhook.Enabled)
}
