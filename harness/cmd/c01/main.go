// C01 - fixed-window quotas never admit more than their limit per window.
//
// Real streams.Stream (Limiter -> GenerateResponse 429) on a virtual clock. Oracle: a hierarchical
// fixed-window reference model evaluated under four window conventions; a history is violating only
// if it contradicts all four. Concurrent rounds (clock frozen) are judged by porcupine against the
// same model.
package main

import (
	"encoding/json"
	"fmt"
	"os"
	"sort"
	"strings"
	"sync"
	"sync/atomic"
	"time"

	"github.com/anishathalye/porcupine"

	"lunar/toolkit-core/verifhook"

	"verif/harness/sim"
)

type node struct {
	ID      string `json:"id"`
	Max     int64  `json:"max"`
	WindowS int64  `json:"window_s"`
	Group   string `json:"group_header,omitempty"`
	Pct     int64  `json:"allocation_pct,omitempty"` // informational: how the child was declared
}

type quotaCase struct {
	Chain      []node `json:"chain"`      // root first
	LimiterOn  int    `json:"limiter_on"` // index into Chain
	NoLimiter  bool   `json:"no_limiter"` // only system flows count; nothing may be refused
	QuotaYAML  string `json:"quota_yaml"`
	FlowYAML   string `json:"flow_yaml"`
	Unit       string `json:"unit"`
	Concurrent bool   `json:"concurrent"`
}

type arrival struct {
	OffsetNs int64             `json:"offset_ns"` // relative to T0
	ID       string            `json:"id"`
	Headers  map[string]string `json:"headers"`
	Refused  bool              `json:"refused"`
	Err      string            `json:"err,omitempty"`
}

// two group values that share their first 80 characters (bearer tokens of one issuer look like this)
var (
	longGroupA = "Bearer eyJhbGciOiJSUzI1NiIsInR5cCI6IkpXVCIsImtpZCI6Imlzc3Vlci1rZXktMDEifQ.eyJpc3MiOiJodHRwczovL2lkcC5leGFtcGxlLmNvbSIsInN1YiI6InRlbmFudC1hIn0"
	longGroupB = "Bearer eyJhbGciOiJSUzI1NiIsInR5cCI6IkpXVCIsImtpZCI6Imlzc3Vlci1rZXktMDEifQ.eyJpc3MiOiJodHRwczovL2lkcC5leGFtcGxlLmNvbSIsInN1YiI6InRlbmFudC1iIn0"
)

var t0 = time.Date(2026, 3, 1, 12, 0, 0, 300_000_000, time.UTC)

func genCase(r *sim.Rand) quotaCase {
	depth := r.Intn(3)
	var qc quotaCase
	unit := "second"
	windows := []int64{1, 2, 3, 5}
	if r.Chance(1, 8) {
		unit = "minute"
		windows = []int64{1}
	}
	qc.Unit = unit
	mul := int64(1)
	if unit == "minute" {
		mul = 60
	}
	root := node{ID: "qroot", Max: int64(r.Range(1, 5)), WindowS: sim.Pick(r, windows) * mul}
	if r.Chance(1, 2) {
		root.Group = "x-group"
	}
	qc.Chain = append(qc.Chain, root)
	var sb strings.Builder
	fmt.Fprintf(&sb, "quotas:\n  - id: %s\n    filter:\n      url: a.com/*\n    strategy:\n      fixed_window:\n        max: %d\n        interval: %d\n        interval_unit: %s\n",
		root.ID, root.Max, root.WindowS/mul, unit)
	if root.Group != "" {
		fmt.Fprintf(&sb, "        group_by_header: %s\n", root.Group)
	}
	if depth > 0 {
		sb.WriteString("internal_limits:\n")
	}
	parent := root
	for d := 1; d <= depth; d++ {
		n := node{ID: fmt.Sprintf("qchild%d", d)}
		fmt.Fprintf(&sb, "  - id: %s\n    parent_id: %s\n", n.ID, parent.ID)
		if r.Chance(1, 3) {
			pct := int64(sim.Pick(r, []int{20, 34, 50, 67, 100}))
			n.Pct = pct
			n.Max = parent.Max * pct / 100
			n.WindowS = parent.WindowS
			n.Group = parent.Group
			fmt.Fprintf(&sb, "    strategy:\n      allocation_percentage: %d\n", pct)
		} else {
			n.Max = int64(r.Range(1, 5))
			n.WindowS = sim.Pick(r, windows) * mul
			if r.Chance(1, 2) {
				n.Group = sim.Pick(r, []string{"x-group", "x-tenant"})
			}
			fmt.Fprintf(&sb, "    strategy:\n      fixed_window:\n        max: %d\n        interval: %d\n        interval_unit: %s\n",
				n.Max, n.WindowS/mul, unit)
			if n.Group != "" {
				fmt.Fprintf(&sb, "        group_by_header: %s\n", n.Group)
			}
		}
		qc.Chain = append(qc.Chain, n)
		parent = n
	}
	qc.QuotaYAML = sb.String()
	qc.LimiterOn = r.Intn(len(qc.Chain))
	if r.Chance(1, 10) {
		qc.NoLimiter = true
		return qc
	}
	qc.FlowYAML = fmt.Sprintf(`name: limitflow
filter:
  url: a.com/*
processors:
  Lim:
    processor: Limiter
    parameters:
      - key: quota_id
        value: %s
  TooMany:
    processor: GenerateResponse
    parameters:
      - key: status
        value: 429
      - key: body
        value: too many
flow:
  request:
    - from:
        stream:
          name: globalStream
          at: start
      to:
        processor:
          name: Lim
    - from:
        processor:
          name: Lim
          condition: above_limit
      to:
        processor:
          name: TooMany
    - from:
        processor:
          name: Lim
          condition: below_limit
      to:
        stream:
          name: globalStream
          at: end
  response:
    - from:
        processor:
          name: TooMany
      to:
        stream:
          name: globalStream
          at: end
`, qc.Chain[qc.LimiterOn].ID)
	return qc
}

// ---- reference model ------------------------------------------------------------------------

type convention struct {
	Trunc bool // anchor truncated to the second
	Gt    bool // restart when elapsed > W (otherwise >=)
}

var conventions = []convention{{true, false}, {true, true}, {false, false}, {false, true}}

func (c convention) String() string {
	a, b := "anchor-exact", "restart-ge"
	if c.Trunc {
		a = "anchor-trunc"
	}
	if c.Gt {
		b = "restart-gt"
	}
	return a + "/" + b
}

type winState struct {
	Anchor int64 // ns since T0 epoch (absolute unix ns)
	Count  int64
	Set    bool
}

type model struct {
	conv      convention
	chain     []node // limiter node first, root last
	st        map[string]*winState
	rollovers int
}

func newModel(conv convention, qc quotaCase) *model {
	m := &model{conv: conv, st: map[string]*winState{}}
	for i := qc.LimiterOn; i >= 0; i-- {
		m.chain = append(m.chain, qc.Chain[i])
	}
	return m
}

func groupOf(n node, h map[string]string) string {
	if n.Group == "" {
		return "default"
	}
	if v, ok := h[n.Group]; ok {
		return v
	}
	return "default"
}

// step returns the model's verdict (true = admitted) and the node that refused.
func (m *model) step(tNs int64, h map[string]string) (bool, string) {
	for _, n := range m.chain {
		key := n.ID + "|" + groupOf(n, h)
		ws := m.st[key]
		if ws == nil {
			ws = &winState{}
			m.st[key] = ws
		}
		if n.Max < 1 {
			return false, n.ID
		}
		w := n.WindowS * int64(time.Second)
		restart := !ws.Set
		if ws.Set {
			el := tNs - ws.Anchor
			if m.conv.Gt {
				restart = el > w
			} else {
				restart = el >= w
			}
		}
		if restart {
			if ws.Set {
				m.rollovers++
			}
			ws.Set = true
			ws.Count = 0
			ws.Anchor = tNs
			if m.conv.Trunc {
				ws.Anchor = tNs - tNs%int64(time.Second)
			}
		}
		if ws.Count+1 > n.Max {
			return false, n.ID
		}
		ws.Count++
	}
	return true, ""
}

func (m *model) encode() string {
	keys := make([]string, 0, len(m.st))
	for k := range m.st {
		keys = append(keys, k)
	}
	sort.Strings(keys)
	var sb strings.Builder
	for _, k := range keys {
		ws := m.st[k]
		fmt.Fprintf(&sb, "%s=%d,%d,%v;", k, ws.Anchor, ws.Count, ws.Set)
	}
	return sb.String()
}

func (m *model) clone() *model {
	c := &model{conv: m.conv, chain: m.chain, st: map[string]*winState{}}
	for k, v := range m.st {
		cp := *v
		c.st[k] = &cp
	}
	return c
}

// ---- workload --------------------------------------------------------------------------------

func genArrivals(r *sim.Rand, qc quotaCase, n int) []arrival {
	groups := []string{"", "g1", "g2", longGroupA, longGroupB}
	tenants := []string{"", "t1"}
	var out []arrival
	cur := int64(0)
	w := qc.Chain[qc.LimiterOn].WindowS * int64(time.Second)
	wRoot := qc.Chain[0].WindowS * int64(time.Second)
	sec := int64(time.Second)
	for i := 0; i < n; i++ {
		ww := w
		if r.Bool() {
			ww = wRoot
		}
		abs := t0.UnixNano() + cur
		toNextSec := sec - abs%sec
		var delta int64
		switch r.Intn(14) {
		case 0, 1, 2:
			delta = 0
		case 3:
			delta = 1
		case 4:
			delta = 250 * int64(time.Millisecond)
		case 5:
			delta = ww - 1
		case 6:
			delta = ww
		case 7:
			delta = ww + 1
		case 8:
			delta = toNextSec // exactly on a second boundary
		case 9:
			delta = toNextSec - 1
		case 10:
			delta = toNextSec + ww - sec // boundary of a window anchored on a truncated second
		case 11:
			delta = 2*ww + int64(r.Intn(1000))*int64(time.Millisecond)
		case 12:
			delta = int64(r.Intn(int(ww/int64(time.Millisecond))+1)) * int64(time.Millisecond)
		case 13:
			delta = toNextSec + ww - sec - 1
		}
		if delta < 0 {
			delta = 0
		}
		cur += delta
		a := arrival{OffsetNs: cur, ID: fmt.Sprintf("r%d", i), Headers: map[string]string{}}
		if i > 0 && r.Chance(1, 12) {
			a.ID = out[i-1].ID // re-used transaction id
		}
		if g := sim.Pick(r, groups); g != "" {
			a.Headers["x-group"] = g
		}
		if tn := sim.Pick(r, tenants); tn != "" {
			a.Headers["x-tenant"] = tn
		}
		out = append(out, a)
	}
	return out
}

type replay struct {
	Case     int       `json:"case"`
	Seed     uint64    `json:"seed"`
	Quota    quotaCase `json:"quota"`
	Arrivals []arrival `json:"arrivals"`
	Round    []arrival `json:"round,omitempty"`
	Note     string    `json:"note,omitempty"`
	Verdicts []string  `json:"convention_verdicts,omitempty"`
}

func main() {
	args := sim.ParseArgs()
	v := sim.NewVerdict("C01", args.Seed, args.Tier, args.Batch, args.Out)
	v.Rule = "case = generated quota hierarchy (depth 0-2, max 1-5, window 1-5 s / 1 min, group header, allocation %) + limiter position + arrival history on a boundary-rich virtual time grid; non-trivial iff the history contains at least one refusal and one admission after a window rollover; distinct by <depth, limiter position, grouping, #rollovers bucket, #boundary arrivals bucket, concurrent?>"
	v.Assumptions = []string{
		"window convention is free: anchor exact or truncated to the second, restart at elapsed >= W or > W; one convention per history",
		"a node counts every request that reached it and that the node itself admitted (no refund when an ancestor refuses)",
		"verdict = presence of an EarlyResponseAction in the actions returned by Stream.ExecuteFlow",
	}
	root := sim.ScratchRoot("c01")
	defer os.RemoveAll(root)

	clk := sim.NewVClock(t0)
	sim.UseClock(clk)

	nSeq := args.Pick(3200, 12000)
	nConc := args.Pick(480, 4000)
	total := nSeq + nConc
	lo, hi := args.Share(total)
	if args.Replay != "" {
		runReplay(args, v, root, clk)
		os.Exit(v.Write())
	}
	for i := lo; i < hi; i++ {
		r := args.CaseRand(i)
		qc := genCase(r)
		qc.Concurrent = i >= nSeq
		if i < nSeq && i%8 == 7 && !qc.NoLimiter {
			runStraddle(i, args, r, qc, v, root, clk)
			continue
		}
		runCase(i, args, r, qc, v, root, clk, nil)
	}
	// crowd histories: more than four thousand group values appear between two bursts of one group inside one window
	clo, chi := args.Share(args.Pick(8, 96))
	for i := clo; i < chi; i++ {
		r := args.CaseRand(4_000_000 + i)
		var qc quotaCase
		for try := 0; try < 200; try++ {
			qc = genCase(r)
			if !qc.NoLimiter && qc.Chain[qc.LimiterOn].Group == "x-group" {
				break
			}
		}
		if qc.NoLimiter || qc.Chain[qc.LimiterOn].Group != "x-group" {
			continue
		}
		w := qc.Chain[qc.LimiterOn].WindowS * int64(time.Second)
		for _, n := range qc.Chain {
			if n.WindowS*int64(time.Second) > w {
				w = n.WindowS * int64(time.Second)
			}
		}
		var arr []arrival
		n := 0
		add := func(off int64, g string) {
			n++
			arr = append(arr, arrival{OffsetNs: off, ID: fmt.Sprintf("k%d", n), Headers: map[string]string{"x-group": g, "x-tenant": "t1"}})
		}
		burst := int(qc.Chain[qc.LimiterOn].Max) + 2
		for k := 0; k < burst; k++ {
			add(int64(k), "crowd-first")
		}
		second := 2*w + int64(time.Second) // well inside a later window of every node
		for k := 0; k < burst; k++ {
			add(second+int64(k), "crowd-first")
		}
		crowd := r.Range(4100, 4600)
		for k := 0; k < crowd; k++ {
			add(second+1000+int64(k)*100, fmt.Sprintf("crowd-%d", k))
		}
		for k := 0; k < 3; k++ {
			add(second+1000+int64(crowd)*100+int64(k), "crowd-first")
		}
		runCase(4_000_000+i, args, r, qc, v, root, clk, &replay{Arrivals: arr})
		v.Count("crowd_histories", 1)
	}
	if v.Counters["refused"] == 0 || v.Counters["admitted"] == 0 {
		v.Inconclude("no refusal or no admission observed in this batch")
	}
	os.Exit(v.Write())
}

func runReplay(args sim.Args, v *sim.Verdict, root string, clk *sim.VClock) {
	data, err := os.ReadFile(args.Replay)
	if err != nil {
		v.Inconclude("cannot read replay file: " + err.Error())
		return
	}
	var wrap struct {
		Replay replay `json:"replay"`
	}
	if err := json.Unmarshal(data, &wrap); err != nil {
		v.Inconclude("cannot parse replay file: " + err.Error())
		return
	}
	rp := wrap.Replay
	r := sim.NewRand(rp.Seed)
	runCase(rp.Case, args, r, rp.Quota, v, root, clk, &rp)
}

func runCase(idx int, args sim.Args, r *sim.Rand, qc quotaCase, v *sim.Verdict, root string, clk *sim.VClock, rp *replay) {
	cfg := sim.Config{Quotas: map[string]string{"quota.yaml": qc.QuotaYAML}, Flows: map[string]string{}}
	if !qc.NoLimiter {
		cfg.Flows["flow.yaml"] = qc.FlowYAML
	}
	// every case starts at a fresh virtual instant later than anything seen so far
	base := clk.Now().Add(10 * time.Minute)
	base = base.Truncate(time.Second).Add(300 * time.Millisecond)
	clk.Set(base)
	env, err := sim.NewStreamEnv(root, cfg)
	v.Eval(1)
	if err != nil {
		v.Violate("C01/harness/config-rejected", fmt.Sprintf("generated configuration rejected: %v", err), replay{Case: idx, Seed: args.Seed, Quota: qc})
		return
	}
	defer os.RemoveAll(env.FlowsDir + "/..")

	var arrivals []arrival
	if rp != nil {
		arrivals = rp.Arrivals
	} else {
		arrivals = genArrivals(r, qc, r.Range(12, 40))
	}
	models := make([]*model, len(conventions))
	alive := make([]string, len(conventions)) // "" = still consistent, else first inconsistency
	for i, c := range conventions {
		models[i] = newModel(c, qc)
	}
	boundary, refusedN, admittedN := 0, 0, 0
	for k := range arrivals {
		a := &arrivals[k]
		at := base.Add(time.Duration(a.OffsetNs))
		clk.Set(at)
		res := env.OnRequest(sim.Txn{ID: fmt.Sprintf("c%d-%s", idx, a.ID), Method: "GET", URL: "a.com/x", Headers: a.Headers})
		if res.Err != nil {
			a.Err = res.Err.Error()
			v.Violate("C01/error-from-engine", fmt.Sprintf("ExecuteFlow returned %v", res.Err), replay{Case: idx, Seed: args.Seed, Quota: qc, Arrivals: arrivals[:k+1]})
			return
		}
		a.Refused = res.Early != nil
		if a.Refused {
			refusedN++
			if res.Early.Status != 429 {
				v.Violate("C01/refusal-status", fmt.Sprintf("refusal carries status %d", res.Early.Status), nil)
			}
		} else {
			admittedN++
		}
		if at.UnixNano()%int64(time.Second) == 0 || at.UnixNano()%int64(time.Second) == int64(time.Second)-1 {
			boundary++
		}
		if qc.NoLimiter {
			if a.Refused {
				v.Violate("C01/refused-without-limiter", "a request was refused although no limiter references the quota", replay{Case: idx, Seed: args.Seed, Quota: qc, Arrivals: arrivals[:k+1]})
				return
			}
			continue
		}
		for i, m := range models {
			if alive[i] != "" {
				continue
			}
			ok, by := m.step(at.UnixNano(), a.Headers)
			if ok && a.Refused {
				alive[i] = fmt.Sprintf("spurious-refusal at #%d (t=+%dns): no node of the chain is full", k, a.OffsetNs)
			} else if !ok && !a.Refused {
				alive[i] = fmt.Sprintf("over-admission at #%d (t=+%dns): node %s is full", k, a.OffsetNs, by)
			}
		}
		allDead := true
		for _, s := range alive {
			if s == "" {
				allDead = false
			}
		}
		if allDead {
			kind := "spurious-refusal"
			if strings.HasPrefix(alive[0], "over-admission") {
				kind = "over-admission"
			}
			grp := "ungrouped"
			if qc.Chain[qc.LimiterOn].Group != "" || qc.Chain[0].Group != "" {
				grp = "grouped"
			}
			sig := fmt.Sprintf("C01/%s/depth%d/%s", kind, qc.LimiterOn, grp)
			v.Violate(sig, "history contradicts every window convention: "+strings.Join(alive, " | "),
				replay{Case: idx, Seed: args.Seed, Quota: qc, Arrivals: arrivals[:k+1], Verdicts: alive})
			return
		}
	}
	rollovers := models[0].rollovers
	v.Count("requests", len(arrivals))
	v.Count("refused", refusedN)
	v.Count("admitted", admittedN)
	v.Count("rollovers", rollovers)
	v.Count("boundary_arrivals", boundary)

	// concurrent round: clock frozen strictly inside a window of every node
	concOK := true
	if qc.Concurrent && !qc.NoLimiter {
		concOK = concurrentRound(idx, args, r, qc, env, models, alive, arrivals, base, clk, v)
	}
	if !concOK {
		return
	}
	if refusedN > 0 && admittedN > 0 {
		bucket := func(n int) int {
			switch {
			case n == 0:
				return 0
			case n < 3:
				return 1
			case n < 8:
				return 2
			}
			return 3
		}
		v.Distinct(fmt.Sprintf("d%d/l%d/g%v%v/r%d/b%d/c%v/w%d/m%d", len(qc.Chain), qc.LimiterOn, qc.Chain[0].Group != "",
			qc.Chain[qc.LimiterOn].Group != "", bucket(rollovers), bucket(boundary), qc.Concurrent, qc.Chain[qc.LimiterOn].WindowS, qc.Chain[qc.LimiterOn].Max))
	}
	if idx%97 == 0 {
		v.Sample(replay{Case: idx, Seed: args.Seed, Quota: qc, Arrivals: arrivals})
	}
}

type concIn struct {
	TNs     int64
	Headers map[string]string
}

func concurrentRound(idx int, args sim.Args, r *sim.Rand, qc quotaCase, env *sim.StreamEnv, models []*model, alive []string,
	history []arrival, base time.Time, clk *sim.VClock, v *sim.Verdict,
) bool {
	// move to an instant that is 400ms inside a fresh second, then freeze
	last := base
	if len(history) > 0 {
		last = base.Add(time.Duration(history[len(history)-1].OffsetNs))
	}
	at := last.Truncate(time.Second).Add(time.Second + 400*time.Millisecond)
	clk.Set(at)
	n := r.Range(8, 24)
	groups := []string{"", "g1", "g2", longGroupA, longGroupB}
	round := make([]arrival, n)
	ops := make([]porcupine.Operation, n)
	var tick atomic.Int64
	var wg sync.WaitGroup
	start := make(chan struct{})
	var order []int
	var omu sync.Mutex
	for i := 0; i < n; i++ {
		h := map[string]string{}
		if g := sim.Pick(r, groups); g != "" {
			h["x-group"] = g
		}
		round[i] = arrival{OffsetNs: at.Sub(base).Nanoseconds(), ID: fmt.Sprintf("k%d", i), Headers: h}
		wg.Add(1)
		go func(i int) {
			defer wg.Done()
			<-start
			call := tick.Add(1)
			res := env.OnRequest(sim.Txn{ID: fmt.Sprintf("c%d-k%d", idx, i), Method: "GET", URL: "a.com/x", Headers: h})
			ret := tick.Add(1)
			round[i].Refused = res.Early != nil
			if res.Err != nil {
				round[i].Err = res.Err.Error()
			}
			omu.Lock()
			order = append(order, i)
			omu.Unlock()
			ops[i] = porcupine.Operation{ClientId: i, Input: concIn{TNs: at.UnixNano(), Headers: h}, Call: call, Output: !round[i].Refused, Return: ret}
		}(i)
	}
	close(start)
	wg.Wait()
	v.Count("concurrent_rounds", 1)
	v.Count("concurrent_requests", n)
	v.Distinct(fmt.Sprintf("interleaving/%v", order))
	v.Count("interleavings_recorded", 1)
	for _, a := range round {
		if a.Err != "" {
			v.Violate("C01/error-from-engine/concurrent", a.Err, replay{Case: idx, Seed: args.Seed, Quota: qc, Arrivals: history, Round: round})
			return false
		}
	}
	// Bound under concurrency (the statement demands exact refusals only for one-at-a-time handling):
	// the admitted requests of the round, applied to the reference model in any order, must all fit.
	// Refused requests are ignored - they may have consumed lower-level slots, which only makes the
	// model's counters an under-approximation of the real ones.
	anyOK := false
	var reasons []string
	for i, m0 := range models {
		if alive[i] != "" {
			continue
		}
		m := m0.clone()
		fits := true
		for _, a := range round {
			if a.Refused {
				continue
			}
			if ok, by := m.step(at.UnixNano(), a.Headers); !ok {
				fits = false
				reasons = append(reasons, fmt.Sprintf("%s: node %s exceeds its maximum", conventions[i].String(), by))
				break
			}
		}
		if fits {
			anyOK = true
			break
		}
	}
	_ = ops
	v.Count("concurrent_bound_checks", 1)
	if !anyOK {
		adm := 0
		for _, a := range round {
			if !a.Refused {
				adm++
			}
		}
		v.Violate(fmt.Sprintf("C01/concurrent-over-admission/depth%d", qc.LimiterOn),
			fmt.Sprintf("%d concurrent requests at a frozen instant, %d admitted: under every window convention the admitted ones alone exceed a quota of the chain (%s)", len(round), adm, strings.Join(reasons, "; ")),
			replay{Case: idx, Seed: args.Seed, Quota: qc, Arrivals: history, Round: round})
		return false
	}
	for _, a := range round {
		if a.Refused {
			v.Count("refused", 1)
		} else {
			v.Count("admitted", 1)
		}
	}
	return true
}

// runStraddle: a request that was counted into a full window is parked between the limiter's
// Inc and its Allowed; meanwhile the window rolls over and is filled by other requests; then the
// parked request reads its verdict. Its arrival window and its verdict window are both full, so it
// must be refused whatever the window convention.
func runStraddle(idx int, args sim.Args, r *sim.Rand, qc quotaCase, v *sim.Verdict, root string, clk *sim.VClock) {
	v.Eval(1)
	cfg := sim.Config{Quotas: map[string]string{"quota.yaml": qc.QuotaYAML}, Flows: map[string]string{"flow.yaml": qc.FlowYAML}}
	base := clk.Now().Add(10 * time.Minute).Truncate(time.Second).Add(300 * time.Millisecond)
	clk.Set(base)
	env, err := sim.NewStreamEnv(root, cfg)
	if err != nil {
		return
	}
	defer env.Cleanup()
	h := map[string]string{"x-group": "g1", "x-tenant": "t1"}
	send := func(id string) bool {
		res := env.OnRequest(sim.Txn{ID: fmt.Sprintf("c%d-%s", idx, id), Method: "GET", URL: "a.com/x", Headers: h})
		return res.Early == nil && res.Err == nil
	}
	// capacity seen through the limiter = the smallest maximum on the chain; longest window on the chain
	minMax, maxW := int64(1<<62), int64(0)
	for i := qc.LimiterOn; i >= 0; i-- {
		if qc.Chain[i].Max < minMax {
			minMax = qc.Chain[i].Max
		}
		if qc.Chain[i].WindowS > maxW {
			maxW = qc.Chain[i].WindowS
		}
	}
	if minMax < 1 {
		return
	}
	var arrivals []arrival
	admitted1 := 0
	for i := 0; i < int(minMax)+2; i++ {
		ok := send(fmt.Sprintf("fill1-%d", i))
		arrivals = append(arrivals, arrival{OffsetNs: 0, ID: fmt.Sprintf("fill1-%d", i), Headers: h, Refused: !ok})
		if ok {
			admitted1++
		}
	}
	parked := make(chan struct{})
	release := make(chan struct{})
	xid := fmt.Sprintf("c%d-X", idx)
	verifhook.SetYield(func(point string, a []string) {
		if point == "limiter.between-inc-and-allowed" && len(a) > 0 && a[0] == xid {
			close(parked)
			<-release
		}
	})
	defer verifhook.SetYield(nil)
	done := make(chan bool, 1)
	go func() { done <- send("X") }()
	select {
	case <-parked:
	case ok := <-done:
		_ = ok
		return // the limiter did not reach the yield point (refused before counting)
	case <-time.After(20 * time.Second):
		v.Inconclude(fmt.Sprintf("case %d: parked request never reached the limiter", idx))
		close(release)
		return
	}
	// every window of the chain rolls over
	clk.Set(base.Add(time.Duration(maxW)*time.Second + 700*time.Millisecond))
	admitted2 := 0
	for i := 0; i < int(minMax)+2; i++ {
		ok := send(fmt.Sprintf("fill2-%d", i))
		arrivals = append(arrivals, arrival{OffsetNs: clk.Now().Sub(base).Nanoseconds(), ID: fmt.Sprintf("fill2-%d", i), Headers: h, Refused: !ok})
		if ok {
			admitted2++
		}
	}
	close(release)
	var xok bool
	select {
	case xok = <-done:
	case <-time.After(20 * time.Second):
		v.Inconclude(fmt.Sprintf("case %d: parked request never returned", idx))
		return
	}
	arrivals = append(arrivals, arrival{OffsetNs: 0, ID: "X (counted at +0, verdict read after the rollover)", Headers: h, Refused: !xok})
	v.Count("straddle_scenarios", 1)
	rp := replay{Case: idx, Seed: args.Seed, Quota: qc, Arrivals: arrivals, Note: "straddle: X parked between Inc and Allowed across a window rollover"}
	if int64(admitted1) > minMax || int64(admitted2) > minMax {
		v.Violate(fmt.Sprintf("C01/over-admission/depth%d/straddle-fill", qc.LimiterOn), fmt.Sprintf("a fill phase admitted %d / %d requests, the chain allows %d per window", admitted1, admitted2, minMax), rp)
		return
	}
	if xok && int64(admitted1) == minMax && int64(admitted2) == minMax {
		v.Violate(fmt.Sprintf("C01/over-admission/depth%d/verdict-read-after-rollover", qc.LimiterOn),
			fmt.Sprintf("request X was counted into a full window (%d of %d admitted), parked, the window rolled over and was filled again (%d of %d), then X was let through: its arrival window and its verdict window both hold the maximum already", admitted1, minMax, admitted2, minMax), rp)
		return
	}
	if !xok {
		v.Count("refused", 1)
		v.Count("straddle_refused_as_required", 1)
	}
	v.Distinct(fmt.Sprintf("straddle/d%d/l%d/m%d", len(qc.Chain), qc.LimiterOn, minMax))
}
