// C02 - concurrency quotas bound in-flight requests and always free their slots.
//
// Real streams.Stream with a Limiter on a concurrent quota (optionally with a concurrent parent),
// a steerable probe that can answer an admitted request early, Stream.OnError for proxy errors, and
// a virtual clock driving expiry and the quota's garbage collector. Oracle: an in-flight set model
// (certain / possible members), capacity probes at quiescent points, and porcupine with a counting
// semaphore for concurrent stampedes.
package main

import (
	"encoding/json"
	"fmt"
	"lunar/engine/streams"
	"os"
	"strings"
	"sync"
	"sync/atomic"
	"time"

	"github.com/anishathalye/porcupine"

	"verif/harness/sim"
)

type quotaSpec struct {
	Max       int64  `json:"max"`
	ExpireS   int64  `json:"expire_s"`
	GCS       int64  `json:"gc_s"`
	ParentMax int64  `json:"parent_max,omitempty"` // 0 = no parent
	LimiterOn string `json:"limiter_on"`           // qc | qp
	// a second limiter on an unrelated fixed-window quota sits behind the concurrency limiter
	SecondLimiter bool `json:"second_limiter,omitempty"`
	// mixed hierarchy: the internal limit under the concurrency quota is a (practically unlimited)
	// fixed-window quota and the flow's limiter points at it; only the parent bounds the in-flight number
	ChildFixed bool `json:"child_is_fixed_window,omitempty"`
	// ExpireOmitted: request_expiration_sec is left out of every quota of the file (the default, 60 s, applies;
	// ExpireS is then 60)
	ExpireOmitted bool `json:"request_expiration_omitted,omitempty"`
	// Grand: a third level - root quota qg (max 1000, never the bottleneck) above qp above qc, limiter on qc
	Grand bool `json:"grandparent,omitempty"`
}

type op struct {
	Kind string `json:"kind"` // req | early | resp | err | dup-resp | advance | probe
	ID   string `json:"id,omitempty"`
	DtMs int64  `json:"dt_ms,omitempty"`
	// observations
	Admitted *bool `json:"admitted,omitempty"`
	Free     *int  `json:"free,omitempty"`
}

type replay struct {
	Case  int       `json:"case"`
	Seed  uint64    `json:"seed"`
	Quota quotaSpec `json:"quota"`
	Ops   []op      `json:"ops"`
	Note  string    `json:"note,omitempty"`
}

var t0 = time.Date(2026, 3, 1, 12, 0, 0, 250_000_000, time.UTC)

func quotaYAML(q quotaSpec) string {
	y := quotaYAML0(q)
	if !q.ExpireOmitted {
		return y
	}
	var kept []string
	for _, l := range strings.Split(y, "\n") {
		if !strings.Contains(l, "request_expiration_sec") {
			kept = append(kept, l)
		}
	}
	return strings.Join(kept, "\n")
}

func quotaYAML0(q quotaSpec) string {
	var sb strings.Builder
	if q.ParentMax > 0 && q.Grand {
		fmt.Fprintf(&sb, "quotas:\n  - id: qg\n    filter:\n      url: a.com/*\n    strategy:\n      concurrent:\n        max_request_count: 1000\n        request_expiration_sec: %d\n        gc_interval_sec: %d\n", q.ExpireS, q.GCS)
		fmt.Fprintf(&sb, "internal_limits:\n  - id: qp\n    parent_id: qg\n    filter:\n      method: [\"GET\"]\n    strategy:\n      concurrent:\n        max_request_count: %d\n        request_expiration_sec: %d\n        gc_interval_sec: %d\n", q.ParentMax, q.ExpireS, q.GCS)
		fmt.Fprintf(&sb, "  - id: qc\n    parent_id: qp\n    strategy:\n      concurrent:\n        max_request_count: %d\n        request_expiration_sec: %d\n        gc_interval_sec: %d\n", q.Max, q.ExpireS, q.GCS)
	} else if q.ParentMax > 0 {
		fmt.Fprintf(&sb, "quotas:\n  - id: qp\n    filter:\n      url: a.com/*\n    strategy:\n      concurrent:\n        max_request_count: %d\n        request_expiration_sec: %d\n        gc_interval_sec: %d\n", q.ParentMax, q.ExpireS, q.GCS)
		if q.ChildFixed {
			sb.WriteString("internal_limits:\n  - id: qc\n    parent_id: qp\n    strategy:\n      fixed_window:\n        max: 100000000\n        interval: 1\n        interval_unit: hour\n")
		} else {
			fmt.Fprintf(&sb, "internal_limits:\n  - id: qc\n    parent_id: qp\n    strategy:\n      concurrent:\n        max_request_count: %d\n        request_expiration_sec: %d\n        gc_interval_sec: %d\n", q.Max, q.ExpireS, q.GCS)
		}
	} else {
		fmt.Fprintf(&sb, "quotas:\n  - id: qc\n    filter:\n      url: a.com/*\n    strategy:\n      concurrent:\n        max_request_count: %d\n        request_expiration_sec: %d\n        gc_interval_sec: %d\n", q.Max, q.ExpireS, q.GCS)
	}
	if q.SecondLimiter {
		// same host, same file (one file per host)
		out := sb.String()
		extra := "  - id: qfix2\n    filter:\n      url: a.com/*\n    strategy:\n      fixed_window:\n        max: 100000000\n        interval: 1\n        interval_unit: hour\n"
		if i := strings.Index(out, "internal_limits:"); i >= 0 {
			return out[:i] + extra + out[i:]
		}
		return out + extra
	}
	return sb.String()
}

func flowYAML(q quotaSpec) string {
	if q.SecondLimiter {
		return strings.Replace(strings.Replace(flowYAMLBase(q), "  TooMany:\n", "  Lim2:\n    processor: Limiter\n    parameters:\n      - key: quota_id\n        value: qfix2\n  TooMany:\n", 1),
			"          condition: below_limit\n      to:\n        processor:\n          name: P\n",
			"          condition: below_limit\n      to:\n        processor:\n          name: Lim2\n    - from:\n        processor:\n          name: Lim2\n          condition: below_limit\n      to:\n        processor:\n          name: P\n    - from:\n        processor:\n          name: Lim2\n          condition: above_limit\n      to:\n        processor:\n          name: TooMany\n", 1)
	}
	return flowYAMLBase(q)
}

func flowYAMLBase(q quotaSpec) string {
	return fmt.Sprintf(`name: cflow
filter:
  url: a.com/*
processors:
  Lim:
    processor: Limiter
    parameters:
      - key: quota_id
        value: %s
  TooMany:
    processor: GenerateResponse
    parameters:
      - key: status
        value: 429
  P:
    processor: VerifProbe
flow:
  request:
    - from:
        stream:
          name: globalStream
          at: start
      to:
        processor:
          name: Lim
    - from:
        processor:
          name: Lim
          condition: above_limit
      to:
        processor:
          name: TooMany
    - from:
        processor:
          name: Lim
          condition: below_limit
      to:
        processor:
          name: P
    - from:
        processor:
          name: P
      to:
        stream:
          name: globalStream
          at: end
  response:
    - from:
        processor:
          name: TooMany
      to:
        stream:
          name: globalStream
          at: end
    - from:
        processor:
          name: P
      to:
        stream:
          name: globalStream
          at: end
`, q.LimiterOn)
}

func genQuota(r *sim.Rand) quotaSpec {
	q := quotaSpec{Max: int64(r.Range(1, 4)), ExpireS: int64(r.Range(1, 5)), GCS: int64(r.Range(1, 2)), LimiterOn: "qc"}
	if r.Chance(1, 3) {
		q.ParentMax = int64(r.Range(1, 4))
		if r.Chance(1, 4) {
			q.LimiterOn = "qp"
		}
	}
	q.SecondLimiter = r.Chance(1, 4)
	if q.ParentMax > 0 && q.LimiterOn == "qc" && r.Chance(1, 3) {
		q.ChildFixed = true
	}
	if q.ParentMax > 0 && q.LimiterOn == "qc" && !q.ChildFixed && !q.SecondLimiter && r.Chance(1, 2) {
		q.Grand = true
	}
	if r.Chance(1, 6) {
		q.ExpireOmitted, q.ExpireS = true, 60
	}
	return q
}

// effective capacity seen through the limiter
func (q quotaSpec) cap() int {
	if q.ChildFixed {
		return int(q.ParentMax)
	}
	if q.ParentMax > 0 {
		if q.LimiterOn == "qp" {
			return int(q.ParentMax)
		}
		if q.ParentMax < q.Max {
			return int(q.ParentMax)
		}
	}
	return int(q.Max)
}

func (q quotaSpec) loops() int {
	if q.ChildFixed {
		return 1
	}
	if q.Grand {
		return 3
	}
	if q.ParentMax > 0 {
		return 2
	}
	return 1
}

type member struct {
	expiryAt   time.Time
	ticksAfter int
}

type world struct {
	q     quotaSpec
	env   *sim.StreamEnv
	clk   *sim.VClock
	v     *sim.Verdict
	idx   int
	seed  uint64
	ops   []op
	held  map[string]*member // admitted, not ended
	nProb int
	dead  bool
	// GC loops of engines that were built on the same configuration and thrown away (dry run / failed
	// reload): they tick on the same clock with the same period
	extraLoops int
}

func (w *world) loops() int { return w.q.loops() + w.extraLoops }

func (w *world) rp(note string) replay {
	return replay{Case: w.idx, Seed: w.seed, Quota: w.q, Ops: w.ops, Note: note}
}

func (w *world) certain() int {
	n := 0
	now := w.clk.Now()
	for _, m := range w.held {
		if now.Before(m.expiryAt) {
			n++
		}
	}
	return n
}

func (w *world) possible() int {
	n := 0
	for _, m := range w.held {
		if m.ticksAfter < 3*w.loops() {
			n++
		}
	}
	return n
}

func (w *world) request(id string, early bool) (admitted bool, ok bool) {
	h := map[string]string{}
	if early {
		h["x-vp-p"] = "c=|a=early:418:early"
	}
	res := w.env.OnRequest(sim.Txn{ID: id, Method: "GET", URL: "a.com/x", Headers: h})
	if res.Err != nil {
		w.v.Violate("C02/error-from-engine/request", res.Err.Error(), w.rp(""))
		w.dead = true
		return false, false
	}
	switch {
	case res.Early == nil:
		return true, true
	case res.Early.Status == 429:
		return false, true
	case res.Early.Status == 418:
		return true, true
	}
	w.v.Violate("C02/harness/unexpected-status", fmt.Sprint(res.Early.Status), w.rp(""))
	w.dead = true
	return false, false
}

func (w *world) response(id string) {
	res := w.env.OnResponse(sim.Txn{ID: id, Method: "GET", URL: "a.com/x", Status: 200})
	if res.Err != nil {
		w.v.Violate("C02/error-from-engine/response", res.Err.Error(), w.rp(""))
		w.dead = true
	}
}

// judgeAdmission applies (a) and (b) for a sequential request.
func (w *world) judgeAdmission(id string, admitted bool, kind string) {
	capacity := w.q.cap()
	if admitted && w.certain() >= capacity {
		w.v.Violate(fmt.Sprintf("C02/over-admission/sequential/%s", kind),
			fmt.Sprintf("request %s admitted while %d transactions certainly hold a slot (max %d)", id, w.certain(), capacity), w.rp(""))
		w.dead = true
	}
	if !admitted && w.possible() < capacity {
		cause := "after-normal-ends"
		for _, o := range w.ops {
			switch o.Kind {
			case "early":
				cause = "after-early-response"
			case "err":
				cause = "after-proxy-error"
			}
		}
		for _, o := range w.ops {
			if o.Kind == "advance" {
				cause += "+expiry"
				break
			}
		}
		w.v.Violate(fmt.Sprintf("C02/slot-leak/refused-below-max/%s", cause),
			fmt.Sprintf("request %s refused although at most %d transactions can still hold a slot (max %d)", id, w.possible(), capacity), w.rp(""))
		w.dead = true
	}
}

func (w *world) probe() {
	capacity := w.q.cap()
	var got []string
	for i := 0; i <= capacity+1; i++ {
		id := fmt.Sprintf("c%d-probe%d-%d", w.idx, w.nProb, i)
		adm, ok := w.request(id, false)
		if !ok {
			return
		}
		if !adm {
			break
		}
		got = append(got, id)
	}
	w.nProb++
	free := len(got)
	lo, hi := capacity-w.possible(), capacity-w.certain()
	w.ops[len(w.ops)-1].Free = &free
	w.v.Count("capacity_probes", 1)
	if free > hi {
		w.v.Violate("C02/over-release/probe", fmt.Sprintf("%d fresh requests were admitted, at most %d slots can be free (max %d, %d certainly held)", free, hi, capacity, w.certain()), w.rp(""))
		w.dead = true
	} else if free < lo {
		cause := "normal"
		for _, o := range w.ops {
			if o.Kind == "early" || o.Kind == "err" || o.Kind == "advance" || o.Kind == "dup-resp" {
				cause = o.Kind
			}
		}
		w.v.Violate("C02/slot-leak/probe/last-special-op-"+cause, fmt.Sprintf("only %d fresh requests were admitted, at least %d slots must be free (max %d, at most %d held)", free, lo, capacity, w.possible()), w.rp(""))
		w.dead = true
	}
	for _, id := range got {
		w.response(id)
	}
}

func (w *world) advance(d time.Duration) bool {
	target := w.clk.Now().Add(d)
	gcD := time.Duration(w.q.GCS) * time.Second
	for {
		pend := w.clk.Pending()
		if len(pend) == 0 || pend[0].Deadline.After(target) {
			break
		}
		p := pend[0]
		before := w.clk.Armed(p.D)
		w.clk.Fire(p.ID)
		if p.D == gcD {
			wait := 3 * time.Second
			if w.v.Counters["gc_loop_did_not_rearm_after_its_timer_fired"] >= 5 {
				wait = 50 * time.Millisecond // it keeps happening in this process: do not spend the run waiting
			}
			if !w.clk.WaitArmed(p.D, before+1, wait) {
				// this collector did not arm its next wait: slow or gone. Nothing is concluded from it and
				// its tick is not counted (fewer counted ticks only make the oracle claim less)
				w.v.Count("gc_loop_did_not_rearm_after_its_timer_fired", 1)
				continue
			}
			w.v.Count("gc_ticks", 1)
			now := w.clk.Now()
			for _, m := range w.held {
				if now.After(m.expiryAt) {
					m.ticksAfter++
				}
			}
		}
	}
	w.clk.Set(target)
	return true
}

func main() {
	args := sim.ParseArgs()
	v := sim.NewVerdict("C02", args.Seed, args.Tier, args.Batch, args.Out)
	v.Rule = "case = concurrent quota (max 1-4, expiry 1-5 s, GC 1-2 s, optional concurrent parent, limiter on child or parent) + history over {request, request answered early after admission, response, duplicate response, proxy error, abandon, clock advance, capacity probe} on <= 6 live ids, or a concurrent acquire/hold/release stampede; non-trivial iff a refusal at full capacity and a release by each observed path occurred; distinct by <max, parent?, release kinds used, expiry used?, stampede?>"
	v.Assumptions = []string{
		"an abandoned transaction must be collected once 3 GC iterations (per quota level) have run after expiry+10ms passed on the virtual clock",
		"capacity probes admit fresh requests until one is refused and end them again; bounds: max-|possible| <= free <= max-|certain|",
		"monitors under-approximate: a transaction counts as certainly in flight only before its expiry instant",
	}
	root := sim.ScratchRoot("c02")
	defer os.RemoveAll(root)
	sim.BaseEnv()

	if args.Replay != "" {
		data, err := os.ReadFile(args.Replay)
		var wrap struct {
			Replay replay `json:"replay"`
		}
		if err == nil {
			err = json.Unmarshal(data, &wrap)
		}
		if err != nil {
			v.Inconclude(err.Error())
			os.Exit(v.Write())
		}
		runSeq(wrap.Replay.Case, args, sim.NewRand(wrap.Replay.Seed), wrap.Replay.Quota, wrap.Replay.Ops, v, root)
		os.Exit(v.Write())
	}
	nSeq := args.Pick(8000, 60000)
	nConc := args.Pick(240, 3000)
	lo, hi := args.Share(nSeq + nConc)
	for i := lo; i < hi; i++ {
		r := args.CaseRand(i)
		q := genQuota(r)
		if i < nSeq {
			runSeq(i, args, r, q, nil, v, root)
		} else {
			runStampede(i, args, r, q, v, root)
		}
	}
	flo, fhi := args.Share(args.Pick(96, 1200))
	for i := flo; i < fhi; i++ {
		runFresh(1_000_000+i, args, args.CaseRand(1_000_000+i), v, root)
	}
	for _, k := range []string{"refused_at_capacity", "released:resp", "released:early", "released:err", "released:expiry"} {
		if v.Counters[k] == 0 {
			v.Inconclude("batch never observed " + k)
		}
	}
	os.Exit(v.Write())
}

func newWorld(idx int, args sim.Args, q quotaSpec, v *sim.Verdict, root string) *world {
	clk := sim.NewVClock(t0)
	sim.UseClock(clk)
	env, err := sim.NewStreamEnv(root, sim.Config{Quotas: map[string]string{"q.yaml": quotaYAML(q)}, Flows: map[string]string{"f.yaml": flowYAML(q)}})
	if err != nil {
		v.Violate("C02/harness/config-rejected", err.Error(), replay{Case: idx, Seed: args.Seed, Quota: q})
		return nil
	}
	w := &world{q: q, env: env, clk: clk, v: v, idx: idx, seed: args.Seed, held: map[string]*member{}}
	// the GC loops arm their first wait asynchronously
	gcD := time.Duration(q.GCS) * time.Second
	if !clk.WaitArmed(gcD, uint64(q.loops()), 20*time.Second) {
		v.Inconclude(fmt.Sprintf("case %d: GC loops did not start", idx))
		env.Cleanup()
		return nil
	}
	return w
}

func genOps(r *sim.Rand, q quotaSpec, n int) []op {
	var ops []op
	live := []string{}
	next := 0
	for i := 0; i < n; i++ {
		k := r.Intn(20)
		switch {
		case k < 7 || len(live) == 0:
			id := fmt.Sprintf("t%d", next)
			next++
			if r.Chance(1, 15) {
				id = fmt.Sprintf("t::%d /x", next) // delimiter characters inside the id
			}
			kind := "req"
			if r.Chance(1, 5) {
				kind = "early"
			}
			ops = append(ops, op{Kind: kind, ID: id})
			if kind == "req" {
				live = append(live, id)
			}
		case k < 11:
			j := r.Intn(len(live))
			ops = append(ops, op{Kind: "resp", ID: live[j]})
			if r.Chance(1, 4) {
				ops = append(ops, op{Kind: "dup-resp", ID: live[j]})
			}
			live = append(live[:j], live[j+1:]...)
		case k < 13:
			j := r.Intn(len(live))
			ops = append(ops, op{Kind: "err", ID: live[j]})
			if r.Chance(1, 4) {
				ops = append(ops, op{Kind: "err", ID: live[j]})
			}
			live = append(live[:j], live[j+1:]...)
		case k < 15:
			// abandon: simply forget the id
			j := r.Intn(len(live))
			live = append(live[:j], live[j+1:]...)
		case k < 18:
			dts := []int64{100, 500, 1000, q.ExpireS*1000 - 1, q.ExpireS * 1000, q.ExpireS*1000 + 11, (q.ExpireS + 3*q.GCS + 1) * 1000, (q.ExpireS + 7*q.GCS) * 1000}
			ops = append(ops, op{Kind: "advance", DtMs: sim.Pick(r, dts)})
		case k == 18 && r.Chance(1, 2):
			ops = append(ops, op{Kind: "rebuild"})
		default:
			ops = append(ops, op{Kind: "probe"})
		}
		if len(live) > 6 {
			live = live[1:]
		}
	}
	if r.Chance(1, 3) {
		// a request id comes back (a client retrying a call that timed out) after the transaction it named
		// was abandoned, expired and collected, while other transactions fill the quota
		rid := fmt.Sprintf("t%d-again", next)
		ops = append(ops, op{Kind: "advance", DtMs: (q.ExpireS + 8*q.GCS) * 1000}, op{Kind: "req", ID: rid},
			op{Kind: "advance", DtMs: (q.ExpireS + 8*q.GCS) * 1000})
		for k := 0; k < q.cap()+1; k++ {
			ops = append(ops, op{Kind: "req", ID: fmt.Sprintf("t%d-fill%d", next, k)})
		}
		ops = append(ops, op{Kind: "req", ID: rid}, op{Kind: "probe"})
	}
	ops = append(ops, op{Kind: "advance", DtMs: (q.ExpireS + 8*q.GCS) * 1000}, op{Kind: "probe"})
	return ops
}

func runSeq(idx int, args sim.Args, r *sim.Rand, q quotaSpec, ops []op, v *sim.Verdict, root string) {
	v.Eval(1)
	w := newWorld(idx, args, q, v, root)
	if w == nil {
		return
	}
	defer w.env.Cleanup()
	if ops == nil {
		ops = genOps(r, q, r.Range(8, 40))
	}
	used := map[string]bool{}
	sawRefusal := false
	for _, o := range ops {
		if w.dead {
			return
		}
		o.Admitted, o.Free = nil, nil
		w.ops = append(w.ops, o)
		cur := &w.ops[len(w.ops)-1]
		id := fmt.Sprintf("c%d-%s", idx, o.ID)
		var rpHolder replay
		panicked := sim.Guard(v, "C02/panic/"+o.Kind, &rpHolder, func() {
			switch o.Kind {
			case "req", "early":
				adm, ok := w.request(id, o.Kind == "early")
				if !ok {
					return
				}
				cur.Admitted = &adm
				if _, dup := w.held[id]; dup {
					return // same id re-used while in flight: not judged
				}
				w.judgeAdmission(id, adm, o.Kind)
				if !adm {
					if w.certain() >= w.q.cap() {
						sawRefusal = true
						v.Count("refused_at_capacity", 1)
					}
					return
				}
				v.Count("admitted", 1)
				if o.Kind == "early" {
					v.Count("released:early", 1)
					used["early"] = true
					return
				}
				w.held[id] = &member{expiryAt: w.clk.Now().Add(time.Duration(q.ExpireS)*time.Second + 10*time.Millisecond)}
			case "resp", "dup-resp":
				w.response(id)
				if _, ok := w.held[id]; ok {
					v.Count("released:resp", 1)
					used["resp"] = true
				}
				delete(w.held, id)
			case "err":
				w.env.Stream.OnError(id)
				if _, ok := w.held[id]; ok {
					v.Count("released:err", 1)
					used["err"] = true
				}
				delete(w.held, id)
			case "advance":
				if !w.advance(time.Duration(o.DtMs) * time.Millisecond) {
					w.dead = true
					return
				}
				for hid, m := range w.held {
					if m.ticksAfter >= 3*w.loops() {
						v.Count("released:expiry", 1)
						used["expiry"] = true
						delete(w.held, hid)
					}
				}
			case "probe":
				w.probe()
			case "rebuild":
				// the engine is built once more from the same files and the result thrown away, as a flows
				// validation (dry run) or a reload that fails after the build does; the engine in service
				// keeps serving - its quotas must keep collecting abandoned transactions
				gcD := time.Duration(q.GCS) * time.Second
				before := w.clk.Armed(gcD)
				if st, err := streams.NewStream(); err == nil {
					_ = st.Initialize()
				}
				if !w.clk.WaitArmed(gcD, before+uint64(q.loops()), 20*time.Second) {
					v.Inconclude(fmt.Sprintf("case %d: the collectors of the discarded engine did not start", idx))
					w.dead = true
					return
				}
				w.extraLoops += q.loops()
				v.Count("discarded_engine_rebuilds", 1)
				used["rebuild"] = true
			}
		})
		if panicked {
			rpHolder = w.rp("")
			return
		}
	}
	if !w.dead && sawRefusal && len(used) > 0 {
		v.Distinct(fmt.Sprintf("m%d/p%d/l%s/2nd%v/%v", q.Max, q.ParentMax, q.LimiterOn, q.SecondLimiter, sim.SortedKeys(used)))
	}
	if idx%211 == 0 {
		v.Sample(w.rp("sequential history"))
	}
}

// runFresh: simultaneous FIRST arrivals on quotas nobody has used yet (the member set of a quota is created
// on first use: an interleaving that exists once per quota and engine build). One engine with K concurrent
// quotas on K URLs; for each, N callers arrive at once and keep their slot until all verdicts are in.
func runFresh(idx int, args sim.Args, r *sim.Rand, v *sim.Verdict, root string) {
	v.Eval(1)
	const K = 32
	maxes := make([]int, K)
	var qs, fl strings.Builder
	qs.WriteString("quotas:\n")
	flows := map[string]string{}
	for i := 0; i < K; i++ {
		maxes[i] = r.Range(1, 3)
		fmt.Fprintf(&qs, "  - id: fq%d\n    filter:\n      url: a.com/p%d\n    strategy:\n      concurrent:\n        max_request_count: %d\n        request_expiration_sec: 60\n        gc_interval_sec: 30\n", i, i, maxes[i])
		f := strings.Replace(flowYAMLBase(quotaSpec{LimiterOn: fmt.Sprintf("fq%d", i)}), "name: cflow", fmt.Sprintf("name: fresh%d", i), 1)
		f = strings.Replace(f, "  url: a.com/*", fmt.Sprintf("  url: a.com/p%d", i), 1)
		flows[fmt.Sprintf("f%d.yaml", i)] = f
	}
	_ = fl
	clk := sim.NewVClock(t0)
	sim.UseClock(clk)
	env, err := sim.NewStreamEnv(root, sim.Config{Quotas: map[string]string{"q.yaml": qs.String()}, Flows: flows})
	if err != nil {
		v.Violate("C02/harness/config-rejected", err.Error(), replay{Case: idx, Seed: args.Seed, Note: "fresh-quota world"})
		return
	}
	defer env.Cleanup()
	for i := 0; i < K; i++ {
		n := r.Range(maxes[i]+2, maxes[i]+10)
		res := make([]bool, n)
		var wg sync.WaitGroup
		var ready atomic.Int64
		gate := make(chan struct{})
		for c := 0; c < n; c++ {
			wg.Add(1)
			go func(c int) {
				defer wg.Done()
				if ready.Add(1) == int64(n) {
					close(gate)
				}
				<-gate
				out := env.OnRequest(sim.Txn{ID: fmt.Sprintf("c%d-fresh%d-%d", idx, i, c), Method: "GET", URL: fmt.Sprintf("a.com/p%d", i), Headers: map[string]string{}})
				res[c] = out.Err == nil && out.Early == nil
			}(c)
		}
		wg.Wait()
		held := 0
		for _, a := range res {
			if a {
				held++
			}
		}
		v.Count("first_use_stampedes", 1)
		if held > maxes[i] {
			v.Violate("C02/over-admission/simultaneous-first-arrivals-on-a-fresh-quota", fmt.Sprintf("%d simultaneous first arrivals on quota fq%d, %d admitted and still in flight, maximum %d", n, i, held, maxes[i]),
				replay{Case: idx, Seed: args.Seed, Note: fmt.Sprintf("fresh-quota world, quota %d of %d, max %d, %d arrivals, %d admitted", i, K, maxes[i], n, held)})
			return
		}
		if held < maxes[i] {
			v.Count("first_use_stampedes_admitting_fewer_than_max", 1)
		}
	}
	v.Distinct(fmt.Sprintf("fresh-world-%d", idx%8))
}

type semIn struct {
	Acquire bool
}

func runStampede(idx int, args sim.Args, r *sim.Rand, q quotaSpec, v *sim.Verdict, root string) {
	v.Eval(1)
	w := newWorld(idx, args, q, v, root)
	if w == nil {
		return
	}
	defer w.env.Cleanup()
	capacity := q.cap()
	// hold phase: N callers arrive at once, the admitted ones keep their slot until all verdicts are
	// in: the number admitted is the number in flight at that moment
	for hp := 0; hp < 40 && !w.dead; hp++ {
		n := r.Range(capacity+1, capacity+12)
		res := make([]bool, n)
		var hwg sync.WaitGroup
		gate := make(chan struct{})
		for i := 0; i < n; i++ {
			hwg.Add(1)
			go func(i int) {
				defer hwg.Done()
				<-gate
				adm, ok := w.request(fmt.Sprintf("c%d-hold%d-%d", idx, hp, i), false)
				res[i] = adm && ok
			}(i)
		}
		close(gate)
		hwg.Wait()
		held := 0
		for _, a := range res {
			if a {
				held++
			}
		}
		v.Count("hold_phases", 1)
		v.Count("hold_phase_admitted", held)
		if held > capacity {
			v.Violate("C02/over-admission/simultaneous-arrivals", fmt.Sprintf("%d simultaneous arrivals, %d admitted and still in flight, maximum %d", n, held, capacity),
				replay{Case: idx, Seed: args.Seed, Quota: q, Note: fmt.Sprintf("hold phase %d: %d simultaneous arrivals, %d admitted", hp, n, held)})
			return
		}
		for i, a := range res {
			if a {
				w.response(fmt.Sprintf("c%d-hold%d-%d", idx, hp, i))
			}
		}
	}
	workers := r.Range(8, 24)
	rounds := r.Range(2, 4)
	var inflight, maxSeen atomic.Int64
	var tick atomic.Int64
	var mu sync.Mutex
	var hist []porcupine.Operation
	var wg sync.WaitGroup
	start := make(chan struct{})
	var order []string
	admittedN, refusedN := 0, 0
	for wk := 0; wk < workers; wk++ {
		wg.Add(1)
		go func(wk int) {
			defer wg.Done()
			<-start
			for rd := 0; rd < rounds; rd++ {
				id := fmt.Sprintf("c%d-w%d-%d", idx, wk, rd)
				call := tick.Add(1)
				adm, ok := w.request(id, false)
				ret := tick.Add(1)
				if !ok {
					return
				}
				mu.Lock()
				hist = append(hist, porcupine.Operation{ClientId: wk, Input: semIn{true}, Call: call, Output: adm, Return: ret})
				order = append(order, fmt.Sprintf("%d:%v", wk, adm))
				if adm {
					admittedN++
				} else {
					refusedN++
				}
				mu.Unlock()
				if !adm {
					continue
				}
				// monitor: incremented after the admission is acknowledged
				n := inflight.Add(1)
				for {
					m := maxSeen.Load()
					if n <= m || maxSeen.CompareAndSwap(m, n) {
						break
					}
				}
				// ... and decremented before the release is requested
				inflight.Add(-1)
				call = tick.Add(1)
				if wk%3 == 0 {
					w.env.Stream.OnError(id)
				} else {
					w.response(id)
				}
				ret = tick.Add(1)
				mu.Lock()
				hist = append(hist, porcupine.Operation{ClientId: wk, Input: semIn{false}, Call: call, Output: true, Return: ret})
				mu.Unlock()
			}
		}(wk)
	}
	close(start)
	wg.Wait()
	v.Count("stampedes", 1)
	v.Count("stampede_requests", workers*rounds)
	v.Count("admitted", admittedN)
	if refusedN > 0 {
		v.Count("refused_in_stampede", refusedN)
	}
	rp := replay{Case: idx, Seed: args.Seed, Quota: q, Note: fmt.Sprintf("stampede: %d workers x %d rounds, admitted %d refused %d, max in flight seen by the under-approximating monitor %d", workers, rounds, admittedN, refusedN, maxSeen.Load())}
	if w.dead {
		return
	}
	if maxSeen.Load() > int64(capacity) {
		v.Violate("C02/over-admission/stampede/in-flight-monitor", rp.Note, rp)
		return
	}
	model := porcupine.Model{
		Init: func() interface{} { return 0 },
		Step: func(state, input, output interface{}) (bool, interface{}) {
			n := state.(int)
			if input.(semIn).Acquire {
				if output.(bool) {
					return n < capacity, n + 1
				}
				// The statement bounds admissions and demands that slots come back; it does not
				// say a refusal needs a full quota at that very instant (a request refused by the
				// parent transiently holds a child slot until it is dropped), so a refusal is
				// always explainable here. Leaks are caught by the capacity probe afterwards.
				return true, n
			}
			return n > 0, n - 1
		},
	}
	res := porcupine.CheckOperationsTimeout(model, hist, 60*time.Second)
	v.Count("porcupine_checks", 1)
	switch res {
	case porcupine.Unknown:
		v.Inconclude(fmt.Sprintf("case %d: porcupine timed out", idx))
		return
	case porcupine.Illegal:
		v.Violate("C02/stampede-not-linearizable", "no sequential order of a counting semaphore with the configured maximum explains the verdicts: "+rp.Note, rp)
		return
	}
	// afterwards every slot must be free again
	w.ops = []op{{Kind: "probe"}}
	w.probe()
	v.Distinct(fmt.Sprintf("stampede/m%d/p%d/%v", q.Max, q.ParentMax, refusedN > 0))
	v.Distinct("interleaving/" + strings.Join(order, ","))
	if idx%7 == 0 {
		v.Sample(rp)
	}
}
