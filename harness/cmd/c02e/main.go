// C02 (L1 slice) - slots are given back when the proxy reports a failed transaction, also while an admin
// request is being handled.
//
// Real engine process (routing.Handler + admin mux). A flow with a Limiter on a concurrency quota of max M.
// M transactions are admitted (the quota is full, one more is refused). An admin request (PUT /configuration
// or /apply_flows) is then parked inside its handler - at the file-system backup step, through the fault hook,
// which finally fails it, so nothing is reloaded and the quota state is the same object before and after.
// While it is parked the proxy reports k of the admitted transactions as failed (PUT /on_haproxy_error).
// Oracle (from the statement): a slot is given back when the proxy reports the transaction failed; so after the
// admin request has returned, exactly... at least k further transactions are admitted and never more than M are
// in flight.
package main

import (
	"errors"
	"fmt"
	"os"
	"strings"
	"time"

	"lunar/toolkit-core/verifhook"

	"verif/harness/sim"
)

type replay struct {
	Case      int    `json:"case"`
	Seed      uint64 `json:"seed"`
	Max       int    `json:"quota_max"`
	Reported  int    `json:"transactions_reported_failed_while_the_admin_request_was_parked"`
	Endpoint  string `json:"admin_endpoint"`
	ReportRCs []int  `json:"status_of_the_error_reports"`
	Admitted  int    `json:"admitted_afterwards"`
	Note      string `json:"note,omitempty"`
}

func flowYAML() string {
	return `name: cflow
filter:
  url: a.com/*
processors:
  Lim:
    processor: Limiter
    parameters:
      - key: quota_id
        value: qc
  TooMany:
    processor: GenerateResponse
    parameters:
      - key: status
        value: 429
flow:
  request:
    - from:
        stream:
          name: globalStream
          at: start
      to:
        processor:
          name: Lim
    - from:
        processor:
          name: Lim
          condition: above_limit
      to:
        processor:
          name: TooMany
    - from:
        processor:
          name: Lim
          condition: below_limit
      to:
        stream:
          name: globalStream
          at: end
  response:
    - from:
        processor:
          name: TooMany
      to:
        stream:
          name: globalStream
          at: end
`
}

func quotaYAML(max int) string {
	return fmt.Sprintf("quotas:\n  - id: qc\n    filter:\n      url: a.com/*\n    strategy:\n      concurrent:\n        max_request_count: %d\n        request_expiration_sec: 3600\n        gc_interval_sec: 3600\n", max)
}

func main() {
	sim.ReexecWithEngineEnv(true)
	args := sim.ParseArgs()
	v := sim.NewVerdict("C02", args.Seed, args.Tier, args.Batch, args.Out)
	v.Rule = "L1 slice: case = concurrency quota of max M (1-4) filled by M admitted transactions on the real engine process; an admin request (PUT /configuration | /apply_flows) is parked inside its handler at the backup step (fault hook; it then fails, nothing is reloaded) while the proxy reports k (1..M) of them failed; afterwards k further transactions must be admitted and the (k+1)-th refused; non-trivial = every case; distinct by <M, k, admin endpoint>"
	v.Assumptions = []string{"the admin request is failed at its first step by the fault hook, so the quota state before and after is the same object (a successful reload legitimately replaces it)"}
	total := args.Pick(24, 200)
	lo, hi := args.Share(total)
	var eng *sim.Engine
	for i := lo; i < hi; i++ {
		r := args.CaseRand(7_000_000 + i)
		rp := replay{Case: i, Seed: args.Seed, Max: r.Range(1, 4), Endpoint: sim.Pick(r, []string{"configuration", "apply_flows"})}
		rp.Reported = r.Range(1, rp.Max)
		cfg := sim.Config{Flows: map[string]string{"f.yaml": flowYAML()}, Quotas: map[string]string{"q.yaml": quotaYAML(rp.Max)}}
		v.Eval(1)
		if eng == nil {
			var err error
			if eng, err = sim.BootEngine(cfg); err != nil {
				v.Inconclude("engine did not boot: " + err.Error())
				break
			}
		} else {
			sim.WriteConfDir(cfg)
			if code, body := eng.Admin("POST", "/load_flows", nil); code != 200 {
				v.Inconclude(fmt.Sprintf("harness: configuration rejected: %d %s", code, body))
				break
			}
		}
		send := func(id string) bool {
			res := eng.SendRequest(sim.Txn{ID: id, Method: "GET", URL: "a.com/x", Headers: map[string]string{}})
			return !res.Early()
		}
		ok := true
		for k := 0; k < rp.Max; k++ {
			ok = ok && send(fmt.Sprintf("e%d-t%d", i, k))
		}
		if !ok || send(fmt.Sprintf("e%d-over", i)) {
			v.Inconclude(fmt.Sprintf("case %d: the quota did not fill as configured (max %d)", i, rp.Max))
			continue
		}
		// park an admin request inside its handler
		parked, release := make(chan struct{}), make(chan struct{})
		first := true
		verifhook.SetFault(func(point string, _ []string) error {
			if point == "fs.backup" && first {
				first = false
				close(parked)
				<-release
				return errors.New("verif: injected fault at fs.backup")
			}
			return nil
		})
		adminDone := make(chan int, 1)
		go func() {
			payload := sim.Payload{Flows: map[string]string{"f.yaml": sim.B64(flowYAML())}}.JSON()
			code, _ := eng.Admin("PUT", "/"+rp.Endpoint, payload)
			adminDone <- code
		}()
		select {
		case <-parked:
		case <-time.After(20 * time.Second):
			verifhook.SetFault(nil)
			v.Inconclude("the admin request did not reach its backup step")
			continue
		}
		for k := 0; k < rp.Reported; k++ {
			body := fmt.Sprintf(`{"failed_transactions": {"e%d-t%d": {}}}`, i, k)
			code, _ := eng.Admin("PUT", "/on_haproxy_error", []byte(body))
			rp.ReportRCs = append(rp.ReportRCs, code)
		}
		close(release)
		select {
		case <-adminDone:
		case <-time.After(20 * time.Second):
			v.Inconclude("the parked admin request did not return")
		}
		verifhook.SetFault(nil)
		v.Count("error_reports_sent_while_an_admin_request_was_parked", rp.Reported)
		for k := 0; k < rp.Reported+1; k++ {
			if send(fmt.Sprintf("e%d-p%d", i, k)) {
				rp.Admitted++
			}
		}
		switch {
		case rp.Admitted < rp.Reported:
			v.Violate("C02/l1/slot-leak/failure-reported-during-an-admin-request",
				fmt.Sprintf("max %d, all slots taken; the proxy reported %d of the transactions failed while PUT /%s was being handled (report statuses %v); afterwards only %d further transactions were admitted", rp.Max, rp.Reported, rp.Endpoint, rp.ReportRCs, rp.Admitted), rp)
		case rp.Admitted > rp.Reported:
			v.Violate("C02/l1/over-admission/after-failure-reports",
				fmt.Sprintf("max %d, %d transactions still in flight, %d admitted on top", rp.Max, rp.Max-rp.Reported, rp.Admitted), rp)
		default:
			v.Distinct(fmt.Sprintf("m%d/k%d/%s", rp.Max, rp.Reported, rp.Endpoint))
		}
		// give the remaining slots back for the next case
		for k := 0; k < rp.Max; k++ {
			eng.Admin("PUT", "/on_haproxy_error", []byte(fmt.Sprintf(`{"failed_transactions": {"e%d-t%d": {}, "e%d-p%d": {}}}`, i, k, i, k)))
		}
		if i%7 == 0 {
			v.Sample(rp)
		}
	}
	if !strings.Contains(fmt.Sprint(v.Counters), "error_reports_sent") {
		v.Inconclude("no error report was sent while an admin request was parked")
	}
	os.Exit(v.Write())
}
