// C03 - a flow runs for a transaction exactly when its own filter accepts it.
//
// Real streams.Stream built from generated flow (+quota) files, re-initialised R times per
// configuration (Go randomises the load order). Observation: processor-executed hook events name
// the flows applied to each request / response. Oracle: the independent matcher of sim/matcher.go
// plus the constraint semantics of the statement.
package main

import (
	"encoding/json"
	"fmt"
	"os"
	"sort"
	"strings"
	"sync"

	"verif/harness/sim"
)

type kv struct {
	K string   `json:"k"`
	V []string `json:"v"`
}

type flowSpec struct {
	Name    string   `json:"name"`
	URL     string   `json:"url"`
	Methods []string `json:"methods,omitempty"`
	Headers []kv     `json:"headers,omitempty"`
	Query   []kv     `json:"query,omitempty"`
	Status  []int    `json:"status,omitempty"`
	System  bool     `json:"system,omitempty"` // quota system flow (QuotaProcessorInc)
}

type txn struct {
	Method  string            `json:"method"`
	URL     string            `json:"url"`
	Headers map[string]string `json:"headers,omitempty"`
	Query   string            `json:"query,omitempty"`
	Status  int               `json:"status"`
}

type replay struct {
	Case  int        `json:"case"`
	Seed  uint64     `json:"seed"`
	Flows []flowSpec `json:"flows"`
	Txn   *txn       `json:"txn,omitempty"`
	Dir   string     `json:"direction,omitempty"`
	Order []string   `json:"load_order,omitempty"`
	Got   []string   `json:"applied,omitempty"`
	Note  string     `json:"note,omitempty"`
}

var (
	hosts    = []string{"a.com", "b.a.com", "api.x.io"}
	segs     = []string{"x", "y", "z", "{p}", "{q}"}
	methods5 = map[string]bool{"GET": true, "POST": true, "PUT": true, "DELETE": true, "PATCH": true}
)

func genPattern(r *sim.Rand) string {
	if r.Chance(1, 40) {
		return "*"
	}
	h := sim.Pick(r, hosts)
	depth := r.Intn(4)
	parts := []string{h}
	for i := 0; i < depth; i++ {
		s := sim.Pick(r, segs)
		// one parameter name per tree level keeps the configuration loadable
		if strings.HasPrefix(s, "{") {
			s = []string{"{p}", "{q}", "{s}"}[i%3]
		}
		parts = append(parts, s)
	}
	if r.Chance(2, 5) {
		parts = append(parts, "*")
	}
	return strings.Join(parts, "/")
}

// genStack: several flows on one wildcard pattern plus deeper patterns below it (flows of several
// tree nodes are combined for one transaction).
func genStack(r *sim.Rand) []flowSpec {
	h := sim.Pick(r, hosts)
	k := sim.Pick(r, []int{2, 3, 4, 5, 6, 7})
	var out []flowSpec
	for i := 0; i < k; i++ {
		out = append(out, flowSpec{Name: fmt.Sprintf("f%d", i), URL: h + "/*"})
	}
	for j, seg := range []string{"x", "y", "z"}[:r.Range(2, 3)] {
		out = append(out, flowSpec{Name: fmt.Sprintf("d%d", j), URL: h + "/" + seg + "/*"})
	}
	return out
}

func genFlows(r *sim.Rand, small bool) []flowSpec {
	if !small && r.Chance(1, 6) {
		return genStack(r)
	}
	n := r.Range(1, 5)
	if small {
		n = r.Range(1, 2)
	}
	var out []flowSpec
	for i := 0; i < n; i++ {
		f := flowSpec{Name: fmt.Sprintf("f%d", i)}
		if i > 0 && r.Chance(2, 5) {
			f.URL = out[r.Intn(len(out))].URL
			// the same pattern under another accepted spelling (the tree trims a trailing '/')
			if r.Chance(1, 3) && !strings.HasSuffix(f.URL, "*") {
				if strings.HasSuffix(f.URL, "/") {
					f.URL = strings.TrimSuffix(f.URL, "/")
				} else {
					f.URL += "/"
				}
			}
		} else {
			f.URL = genPattern(r)
		}
		if r.Chance(2, 5) {
			f.Methods = [][]string{{"GET"}, {"POST"}, {"GET", "PUT"}, {"HEAD"}, {"POST", "OPTIONS"}}[r.Intn(5)]
		}
		if r.Chance(1, 3) {
			f.Headers = append(f.Headers, kv{K: "x-env", V: [][]string{{"prod"}, {"dev"}, {"prod", "stage"}}[r.Intn(3)]})
			if r.Chance(1, 3) {
				f.Headers = append(f.Headers, kv{K: "x-team", V: []string{"core"}})
			}
		}
		if r.Chance(1, 4) {
			// "" = the parameter must be present with an empty value (?mode or ?mode=)
			f.Query = append(f.Query, kv{K: "mode", V: []string{sim.Pick(r, []string{"fast", "slow", "fast", "slow", ""})}})
		}
		if r.Chance(1, 4) {
			f.Status = [][]int{{200}, {500}, {200, 404}}[r.Intn(3)]
		}
		out = append(out, f)
	}
	// quota system flows: one quota file per host, distinct filters
	if !small && r.Chance(1, 3) {
		used := map[string]bool{}
		nq := r.Range(1, 2)
		for i := 0; i < nq; i++ {
			var url string
			if r.Bool() && len(out) > 0 {
				url = out[r.Intn(len(out))].URL
			} else {
				url = genPattern(r)
			}
			if url == "*" {
				continue
			}
			host := strings.SplitN(url, "/", 2)[0]
			if used[host] {
				continue
			}
			used[host] = true
			q := flowSpec{Name: fmt.Sprintf("q%d", i), URL: url, System: true}
			if r.Chance(1, 3) {
				q.Methods = []string{"GET"}
			}
			out = append(out, q)
			if r.Chance(1, 2) {
				// a second quota on the very same pattern, told apart by its method list only: both system flows
				// live on one node of the filter tree
				out[len(out)-1].Methods = []string{"GET"}
				out = append(out, flowSpec{Name: q.Name + "t", URL: url, System: true, Methods: []string{sim.Pick(r, []string{"POST", "PUT", "DELETE"})}})
			}
		}
	}
	return out
}

func flowYAML(f flowSpec) string {
	var sb strings.Builder
	fmt.Fprintf(&sb, "name: %s\nfilter:\n  url: \"%s\"\n", f.Name, f.URL)
	writeFilterRest(&sb, f, "  ")
	fmt.Fprintf(&sb, `processors:
  p_%[1]s:
    processor: VerifProbe
  r_%[1]s:
    processor: VerifProbe
flow:
  request:
    - from:
        stream:
          name: globalStream
          at: start
      to:
        processor:
          name: p_%[1]s
    - from:
        processor:
          name: p_%[1]s
      to:
        stream:
          name: globalStream
          at: end
  response:
    - from:
        stream:
          name: globalStream
          at: start
      to:
        processor:
          name: r_%[1]s
    - from:
        processor:
          name: r_%[1]s
      to:
        stream:
          name: globalStream
          at: end
`, f.Name)
	return sb.String()
}

func writeFilterRest(sb *strings.Builder, f flowSpec, ind string) {
	if len(f.Methods) > 0 {
		fmt.Fprintf(sb, "%smethod: [%s]\n", ind, strings.Join(f.Methods, ", "))
	}
	if len(f.Headers) > 0 {
		fmt.Fprintf(sb, "%sheaders:\n", ind)
		for _, h := range f.Headers {
			for _, v := range h.V {
				fmt.Fprintf(sb, "%s  - key: %s\n%s    value: %s\n", ind, h.K, ind, v)
			}
		}
	}
	if len(f.Query) > 0 {
		fmt.Fprintf(sb, "%squery_params:\n", ind)
		for _, q := range f.Query {
			fmt.Fprintf(sb, "%s  - key: %s\n%s    value: %q\n", ind, q.K, ind, q.V[0])
		}
	}
	if len(f.Status) > 0 {
		var ss []string
		for _, s := range f.Status {
			ss = append(ss, fmt.Sprint(s))
		}
		fmt.Fprintf(sb, "%sstatus_code: [%s]\n", ind, strings.Join(ss, ", "))
	}
}

func quotaYAML(f flowSpec) string {
	var sb strings.Builder
	fmt.Fprintf(&sb, "  - id: %s\n    filter:\n      url: \"%s\"\n", f.Name, f.URL)
	writeFilterRest(&sb, f, "      ")
	sb.WriteString("    strategy:\n      fixed_window:\n        max: 100000000\n        interval: 1\n        interval_unit: hour\n")
	return sb.String()
}

func buildConfig(flows []flowSpec) sim.Config {
	cfg := sim.Config{Flows: map[string]string{}, Quotas: map[string]string{}}
	for _, f := range flows {
		if f.System {
			// a twin quota ("<name>t", same pattern, other methods) goes into its sibling's file
			file := strings.TrimSuffix(f.Name, "t") + ".yaml"
			if cfg.Quotas[file] == "" {
				cfg.Quotas[file] = "quotas:\n"
			}
			cfg.Quotas[file] += quotaYAML(f)
		} else {
			cfg.Flows[f.Name+".yaml"] = flowYAML(f)
		}
	}
	return cfg
}

// ---- transactions ----------------------------------------------------------------------------

func subst(pattern string, val string) (string, bool) {
	parts := strings.Split(pattern, "/")
	wild := false
	var out []string
	for _, p := range parts {
		if p == "*" {
			wild = true
			continue
		}
		if strings.HasPrefix(p, "{") {
			out = append(out, val)
		} else {
			out = append(out, p)
		}
	}
	return strings.Join(out, "/"), wild
}

func genURLs(r *sim.Rand, flows []flowSpec) []string {
	set := map[string]bool{}
	add := func(u string) {
		if u != "" && !strings.HasSuffix(u, "/") && !strings.Contains(u, "//") {
			set[u] = true
		}
	}
	for _, f := range flows {
		if f.URL == "*" {
			add("a.com/x")
			add("c.org")
			continue
		}
		for _, val := range []string{"v1", "x"} {
			base, wild := subst(f.URL, val)
			add(base)
			add(base + "/y")
			add(base + "/w")
			add(base + "/y/z")
			if wild {
				add(base + "/a/b/c")
			}
			if i := strings.LastIndex(base, "/"); i > 0 {
				add(base[:i])           // last segment missing
				add(base[:i] + "/w")    // sibling literal
				add(base[:i] + "/v1/z") // deeper sibling
			}
			host := strings.SplitN(base, "/", 2)
			add(host[0])
			if len(host) > 1 {
				add("c.org/" + host[1])
				add(host[0] + ".evil/" + host[1])
				add("b." + host[0] + "/" + host[1])
				// the first path segment presented as one more host label, and the last host label as a path segment
				if seg := strings.SplitN(host[1], "/", 2); len(seg) == 2 {
					add(host[0] + "." + seg[0] + "/" + seg[1])
				} else {
					add(host[0] + "." + seg[0])
				}
				if j := strings.LastIndex(host[0], "."); j > 0 {
					add(host[0][:j] + "/" + host[0][j+1:] + "/" + host[1])
				}
			} else {
				add(host[0] + ".evil")
				add(host[0] + ".evil/x")
			}
		}
	}
	urls := sim.SortedKeys(set)
	r.Shuffle(len(urls), func(i, j int) { urls[i], urls[j] = urls[j], urls[i] })
	return urls
}

func genTxns(r *sim.Rand, flows []flowSpec, perURL int, maxURLs int) []txn {
	urls := genURLs(r, flows)
	if len(urls) > maxURLs {
		urls = urls[:maxURLs]
	}
	var out []txn
	for _, u := range urls {
		for k := 0; k < perURL; k++ {
			t := txn{URL: u, Headers: map[string]string{}}
			t.Method = sim.Pick(r, []string{"GET", "GET", "POST", "PUT", "HEAD", "OPTIONS", "DELETE"})
			if v := sim.Pick(r, []string{"", "prod", "dev", "stage", "qa"}); v != "" {
				t.Headers["x-env"] = v
			}
			if v := sim.Pick(r, []string{"", "", "core", "ops"}); v != "" {
				t.Headers["x-team"] = v
			}
			switch v := sim.Pick(r, []string{"", "", "fast", "slow", "other", "<bare>", "<empty>", "<empty-then-fast>"}); v {
			case "":
			case "<bare>":
				t.Query = "mode"
			case "<empty>":
				t.Query = "mode="
			case "<empty-then-fast>":
				t.Query = "mode=&mode=fast"
			default:
				t.Query = "mode=" + v
			}
			if t.Query != "" && r.Chance(1, 6) {
				// another pair of the query string cannot be decoded; the required parameter is there all the same
				switch r.Intn(3) {
				case 0:
					t.Query += "&note=%zz"
				case 1:
					t.Query = "note=50%&" + t.Query
				default:
					t.Query += "&a;b=1"
				}
			}
			t.Status = sim.Pick(r, []int{200, 200, 404, 500})
			out = append(out, t)
		}
	}
	return out
}

// ---- oracle ----------------------------------------------------------------------------------

func has(xs []string, x string) bool {
	for _, y := range xs {
		if y == x {
			return true
		}
	}
	return false
}

// constraint that fails for this transaction in this direction ("" = all satisfied)
func failedConstraint(f flowSpec, t txn, dir string) string {
	if len(f.Methods) > 0 && !has(f.Methods, t.Method) {
		return "method"
	}
	if dir == "request" {
		for _, h := range f.Headers {
			v, ok := t.Headers[h.K]
			if !ok || !has(h.V, v) {
				return "header"
			}
		}
		for _, q := range f.Query {
			// the parameter is present and its first value equals the required one ("k" alone = empty value)
			found, first := false, ""
			for _, part := range strings.Split(t.Query, "&") {
				k, val, _ := strings.Cut(part, "=")
				if part != "" && k == q.K {
					found, first = true, val
					break
				}
			}
			if !found || first != q.V[0] {
				return "query"
			}
		}
	} else {
		if len(f.Status) > 0 {
			ok := false
			for _, s := range f.Status {
				if s == t.Status {
					ok = true
				}
			}
			if !ok {
				return "status"
			}
		}
	}
	return ""
}

// exempt: another configured pattern g is "a more specific literal pattern configured alongside":
// at some position where f has a parameter or wildcard, g has a literal equal to the request's
// segment, and g is compatible with the request on all earlier positions.
func exempt(f flowSpec, flows []flowSpec, url string) bool {
	fp := sim.ParsePattern(f.URL)
	up := sim.SplitURL(url)
	for _, g := range flows {
		if g.URL == f.URL {
			continue
		}
		gp := sim.ParsePattern(g.URL)
		for i := 0; i < len(up); i++ {
			fIsLit := i < len(fp.Parts) && !fp.Parts[i].IsParam()
			if fIsLit {
				continue
			}
			if i >= len(fp.Parts) && !fp.Wildcard {
				break
			}
			if i < len(gp.Parts) && !gp.Parts[i].IsParam() && gp.Parts[i].Val == up[i].Val && gp.Parts[i].Host == up[i].Host {
				ok := true
				for j := 0; j < i; j++ {
					if j >= len(gp.Parts) {
						ok = false
						break
					}
					if !gp.Parts[j].IsParam() && gp.Parts[j].Val != up[j].Val {
						ok = false
						break
					}
				}
				if ok {
					return true
				}
			}
		}
	}
	return false
}

func classifyURLMismatch(f flowSpec, url string) string {
	fp := sim.ParsePattern(f.URL)
	up := sim.SplitURL(url)
	if !fp.Wildcard && len(up) == len(fp.Parts)+1 {
		pre := true
		for i, pp := range fp.Parts {
			if pp.Host != up[i].Host || (!pp.IsParam() && pp.Val != up[i].Val) {
				pre = false
			}
		}
		if pre {
			return "extra-trailing-segment"
		}
	}
	if fp.Wildcard && !fp.WildHost && len(up) > len(fp.Parts) && up[len(fp.Parts)].Host {
		return "path-wildcard-swallows-host-label"
	}
	return "other"
}

func classifyNotApplied(f flowSpec, flows []flowSpec, t txn) string {
	fp := sim.ParsePattern(f.URL)
	if !fp.Wildcard {
		for _, g := range flows {
			if g.URL == f.URL+"/*" {
				return "exact-node-has-wildcard-child"
			}
		}
	}
	shared := 0
	for _, g := range flows {
		if g.URL == f.URL {
			shared++
		}
	}
	kind := "user"
	if f.System {
		kind = "system"
	}
	if shared > 1 {
		return kind + "-flow-sharing-its-url"
	}
	return kind + "-flow-alone-on-its-url"
}

func main() {
	args := sim.ParseArgs()
	v := sim.NewVerdict("C03", args.Seed, args.Tier, args.Batch, args.Out)
	v.Rule = "case = generated set of 1-5 flows (+0-2 quota system flows) over overlapping literal/parameter/wildcard patterns with method/header/query/status constraints, initialised R times (random load orders), probed with transactions derived from every pattern (exact, params substituted, extra/missing trailing segment, sibling literal, host only, foreign host, extra host label) x methods/headers/query/status; non-trivial iff at least one flow was applied and one matching-URL flow was withheld by a constraint or pattern; distinct by <#flows, #patterns shared, kinds of patterns, constraint kinds used, #load orders seen>"
	v.Assumptions = []string{
		"a trailing wildcard matching zero remaining segments is don't-care (the statement leaves it open)",
		"on responses only URL, method and status are judged (request headers/query are not part of a response message)",
		"header names/values generated lower-case; at most one occurrence per query key",
		"flows shadowed by a more specific literal pattern configured alongside are don't-care when not applied",
	}
	root := sim.ScratchRoot("c03")
	defer os.RemoveAll(root)
	sim.BaseEnv()

	if args.Replay != "" {
		data, err := os.ReadFile(args.Replay)
		if err != nil {
			v.Inconclude(err.Error())
			os.Exit(v.Write())
		}
		var wrap struct {
			Replay replay `json:"replay"`
		}
		if err := json.Unmarshal(data, &wrap); err != nil {
			v.Inconclude(err.Error())
			os.Exit(v.Write())
		}
		rp := wrap.Replay
		var txns []txn
		if rp.Txn != nil {
			txns = []txn{*rp.Txn}
		}
		runCase(rp.Case, args, sim.NewRand(rp.Seed), rp.Flows, txns, 12, v, root)
		os.Exit(v.Write())
	}

	total := args.Pick(1600, 16000)
	nSmall := total / 4 // small spaces: <=2 flows
	lo, hi := args.Share(total)
	R := args.Pick(6, 12)
	for i := lo; i < hi; i++ {
		r := args.CaseRand(i)
		flows := genFlows(r, i < nSmall)
		runCase(i, args, r, flows, nil, R, v, root)
	}
	if v.Counters["applied"] == 0 || v.Counters["withheld"] == 0 {
		v.Inconclude("no flow applied or none withheld in this batch")
	}
	os.Exit(v.Write())
}

func appliedSet(dir string, sysOK bool) []string {
	set := map[string]bool{}
	for _, e := range sim.GlobalSink.Drain() {
		if e.Kind != "proc" || len(e.Args) < 3 {
			continue
		}
		if e.Args[2] != "StreamType"+strings.ToUpper(dir[:1])+dir[1:] {
			// a request-direction run never executes response nodes here (no early response)
			set["!wrong-direction:"+e.Args[0]] = true
			continue
		}
		name := e.Args[0]
		if strings.HasPrefix(name, "SystemFlow_") {
			// processor key is "<quotaID>_QuotaProcessorInc"
			name = strings.TrimSuffix(e.Args[1], "_QuotaProcessorInc")
		}
		set[name] = true
	}
	return sim.SortedKeys(set)
}

func runCase(idx int, args sim.Args, r *sim.Rand, flows []flowSpec, txns []txn, R int, v *sim.Verdict, root string) {
	cfg := buildConfig(flows)
	v.Eval(1)
	sim.GlobalSink.Drain()
	env, err := sim.NewStreamEnv(root, cfg)
	if err != nil {
		v.Count("configs_rejected", 1)
		return
	}
	defer env.Cleanup()
	if txns == nil {
		txns = genTxns(r, flows, args.Pick(3, 4), args.Pick(14, 24))
	}
	byName := map[string]flowSpec{}
	for _, f := range flows {
		byName[f.Name] = f
	}
	type obs struct{ req, resp string }
	firstObs := make([]obs, len(txns))
	orders := map[string]bool{}
	appliedAny, withheldAny := false, false
	flagged := map[string]bool{}
	for round := 0; round < R; round++ {
		if round > 0 {
			sim.GlobalSink.Drain()
			if err := env.Reinit(); err != nil {
				v.Count("reinit_rejected", 1)
				continue
			}
		}
		var order []string
		for _, e := range sim.GlobalSink.Drain() {
			if e.Kind == "flow-added" {
				order = append(order, e.Args[0])
			}
		}
		orders[strings.Join(order, ",")] = true
		for ti, t := range txns {
			for _, dir := range []string{"request", "response"} {
				tt := t
				var got []string
				rp := replay{Case: idx, Seed: args.Seed, Flows: flows, Txn: &tt, Dir: dir, Order: order}
				panicked := sim.Guard(v, "C03/panic/"+dir, rp, func() {
					st := sim.Txn{ID: fmt.Sprintf("c%d-%d-%d", idx, round, ti), Method: t.Method, URL: t.URL, Query: t.Query, Headers: t.Headers, Status: t.Status}
					if dir == "request" {
						res := env.OnRequest(st)
						if res.Err != nil {
							v.Violate("C03/error/request", res.Err.Error(), rp)
						}
						if len(res.Actions) > 0 {
							for _, a := range res.Actions {
								if fmt.Sprintf("%T", a) != "*actions.NoOpAction" {
									v.Violate("C03/unexpected-action", fmt.Sprintf("%T", a), rp)
								}
							}
						}
					} else {
						res := env.OnResponse(st)
						if res.Err != nil {
							v.Violate("C03/error/response", res.Err.Error(), rp)
						}
					}
					got = appliedSet(dir, true)
				})
				if panicked {
					continue
				}
				rp.Got = got
				v.Count("probes", 1)
				gotSet := map[string]bool{}
				for _, g := range got {
					gotSet[g] = true
				}
				for _, g := range got {
					if strings.HasPrefix(g, "!wrong-direction:") {
						v.Violate("C03/wrong-direction-executed", g, rp)
					}
				}
				for _, f := range flows {
					if f.System && dir == "response" {
						continue // fixed-window quotas have no response-side processor
					}
					um := sim.ParsePattern(f.URL).Match(t.URL)
					fc := failedConstraint(f, t, dir)
					applied := gotSet[f.Name]
					if len(f.Methods) == 0 && !methods5[t.Method] {
						// the engine documents five "supported" methods for filters without a method
						// list; whether such a filter accepts HEAD/OPTIONS is left open by the statement
						v.Count("dontcare_methodless_nonstandard_method", 1)
						continue
					}
					kind := "user"
					if f.System {
						kind = "system"
					}
					switch {
					case applied && um == sim.No:
						sig := fmt.Sprintf("C03/applied-url-mismatch/%s", classifyURLMismatch(f, t.URL))
						if !flagged[sig+f.Name+t.URL] {
							flagged[sig+f.Name+t.URL] = true
							v.Violate(sig, fmt.Sprintf("flow %s (%s) with filter url %q ran on the %s of %s %s", f.Name, kind, f.URL, dir, t.Method, t.URL), rp)
						}
					case applied && fc != "":
						sig := fmt.Sprintf("C03/applied-constraint-ignored/%s/%s/%s", fc, dir, kind)
						if !flagged[sig+f.Name] {
							flagged[sig+f.Name] = true
							v.Violate(sig, fmt.Sprintf("flow %s (filter %+v) ran on the %s of %+v although its %s constraint is not satisfied", f.Name, f, dir, t, fc), rp)
						}
					case !applied && um == sim.Yes && fc == "":
						if exempt(f, flows, t.URL) {
							v.Count("exempt_shadowed", 1)
							break
						}
						sig := fmt.Sprintf("C03/not-applied/%s", classifyNotApplied(f, flows, t))
						if !flagged[sig+f.Name+t.URL+t.Method] {
							flagged[sig+f.Name+t.URL+t.Method] = true
							v.Violate(sig, fmt.Sprintf("flow %s (%s, filter %+v) did not run on the %s of %+v although its filter is satisfied", f.Name, kind, f, dir, t), rp)
						}
					}
					if applied {
						appliedAny = true
						v.Count("applied", 1)
					} else if um != sim.No || fc != "" {
						if um != sim.No {
							withheldAny = true
						}
						v.Count("withheld", 1)
					}
					if um == sim.DontCare {
						v.Count("dontcare_wildcard_zero_segments", 1)
					}
				}
				// order independence
				key := strings.Join(got, ",")
				if round == 0 {
					if dir == "request" {
						firstObs[ti].req = key
					} else {
						firstObs[ti].resp = key
					}
				} else {
					want := firstObs[ti].req
					if dir == "response" {
						want = firstObs[ti].resp
					}
					if want != key {
						shared := "distinct-urls"
						cnt := map[string]int{}
						for _, f := range flows {
							cnt[f.URL]++
						}
						for _, n := range cnt {
							if n > 1 {
								shared = "flows-sharing-a-url"
							}
						}
						sig := "C03/order-dependent/" + shared + "/" + dir
						if !flagged[sig] {
							flagged[sig] = true
							rp.Note = fmt.Sprintf("first initialisation applied [%s], this load order applied [%s]", want, key)
							v.Violate(sig, fmt.Sprintf("same configuration, same %s %+v: applied flows [%s] in one load order and [%s] in another", dir, t, want, key), rp)
						}
					}
				}
			}
		}
	}
	concurrentPhase(idx, args, flows, txns, env, v)
	v.Count("load_orders_seen", len(orders))
	if len(flows) > 1 && len(orders) < 2 {
		v.Count("multi_flow_cases_with_single_order", 1)
	}
	if appliedAny && withheldAny {
		kinds := map[string]bool{}
		cons := map[string]bool{}
		urls := map[string]bool{}
		for _, f := range flows {
			p := sim.ParsePattern(f.URL)
			k := "lit"
			for _, pp := range p.Parts {
				if pp.IsParam() {
					k = "param"
				}
			}
			if p.Wildcard {
				k += "+wild"
			}
			kinds[k] = true
			urls[f.URL] = true
			if len(f.Methods) > 0 {
				cons["m"] = true
			}
			if len(f.Headers) > 0 {
				cons["h"] = true
			}
			if len(f.Query) > 0 {
				cons["q"] = true
			}
			if len(f.Status) > 0 {
				cons["s"] = true
			}
			if f.System {
				cons["sys"] = true
			}
		}
		nOrders := len(orders)
		if nOrders > 3 {
			nOrders = 3
		}
		v.Distinct(fmt.Sprintf("n%d/u%d/%v/%v/o%d", len(flows), len(urls), sim.SortedKeys(kinds), sim.SortedKeys(cons), nOrders))
	}
	if idx%151 == 0 {
		s := replay{Case: idx, Seed: args.Seed, Flows: flows}
		if len(txns) > 0 {
			s.Txn = &txns[0]
		}
		var os_ []string
		for o := range orders {
			os_ = append(os_, o)
		}
		sort.Strings(os_)
		s.Note = fmt.Sprintf("%d transactions x 2 directions x %d initialisations; load orders seen: %v", len(txns), R, os_)
		v.Sample(s)
	}
}

// concurrentPhase: the same transactions are pushed through the engine from several goroutines at
// once; hook events carry the transaction id, so every transaction's applied set is still known. It
// must equal what the same engine instance applies to that transaction when it runs alone.
func concurrentPhase(idx int, args sim.Args, flows []flowSpec, txns []txn, env *sim.StreamEnv, v *sim.Verdict) {
	if len(txns) < 2 {
		return
	}
	type key struct {
		ti  int
		dir string
	}
	run := func(prefix string, parallel bool) map[key]string {
		sim.GlobalSink.Drain()
		var wg sync.WaitGroup
		work := func(ti int, dir string) {
			t := txns[ti]
			st := sim.Txn{ID: fmt.Sprintf("%s-%d-%s", prefix, ti, dir), Method: t.Method, URL: t.URL, Query: t.Query, Headers: t.Headers, Status: t.Status}
			if dir == "request" {
				env.OnRequest(st)
			} else {
				env.OnResponse(st)
			}
		}
		if parallel {
			const g = 8
			for w := 0; w < g; w++ {
				wg.Add(1)
				go func(w int) {
					defer wg.Done()
					for rep := 0; rep < 3; rep++ {
						for ti := w; ti < len(txns); ti += g {
							work(ti, "request")
							work(ti, "response")
						}
					}
				}(w)
			}
			wg.Wait()
		} else {
			for ti := range txns {
				work(ti, "request")
				work(ti, "response")
			}
		}
		sets := map[key]map[string]bool{}
		for _, e := range sim.GlobalSink.Drain() {
			if e.Kind != "proc" || len(e.Args) < 5 || !strings.HasPrefix(e.Args[4], prefix+"-") {
				continue
			}
			parts := strings.Split(strings.TrimPrefix(e.Args[4], prefix+"-"), "-")
			if len(parts) != 2 {
				continue
			}
			var ti int
			fmt.Sscanf(parts[0], "%d", &ti)
			k := key{ti, parts[1]}
			if sets[k] == nil {
				sets[k] = map[string]bool{}
			}
			name := e.Args[0]
			if strings.HasPrefix(name, "SystemFlow_") {
				name = strings.TrimSuffix(e.Args[1], "_QuotaProcessorInc")
			}
			sets[k][name] = true
		}
		out := map[key]string{}
		for k, set := range sets {
			out[k] = strings.Join(sim.SortedKeys(set), ",")
		}
		return out
	}
	var alone, together map[key]string
	if sim.Guard(v, "C03/panic/concurrent-phase", replay{Case: idx, Seed: args.Seed, Flows: flows}, func() {
		alone = run(fmt.Sprintf("c%d-alone", idx), false)
		together = run(fmt.Sprintf("c%d-conc", idx), true)
	}) {
		return
	}
	v.Count("concurrent_phases", 1)
	v.Count("concurrent_probes", len(txns)*2*3)
	for ti := range txns {
		for _, dir := range []string{"request", "response"} {
			k := key{ti, dir}
			if alone[k] != together[k] {
				t := txns[ti]
				v.Violate("C03/concurrent/applied-set-differs-from-running-alone/"+dir,
					fmt.Sprintf("%s %+v: applied [%s] when run alone, [%s] when run concurrently with other transactions on the same engine", dir, t, alone[k], together[k]),
					replay{Case: idx, Seed: args.Seed, Flows: flows, Txn: &t, Dir: dir, Note: "concurrent phase"})
				return
			}
		}
	}
}
