// C04 - flow execution follows the configured processor graph.
//
// Generated well-formed DAG flows over the steerable VerifProbe processor (output condition,
// early response and request action chosen per transaction by headers) are loaded into the real
// streams.Stream; the sequence of processor-executed hook events is compared with trace
// predicates / a reference walk written from the statement.
package main

import (
	"encoding/json"
	"fmt"
	"os"
	"strings"

	"lunar/engine/actions"
	"lunar/toolkit-core/verifhook"

	"verif/harness/sim"
)

type graphCase struct {
	Flows     []sim.GFlow       `json:"flows"`
	QuotaYAML map[string]string `json:"quota_yaml,omitempty"`
	Early     map[string]bool   `json:"early_capable"` // node key -> may answer the request
}

type steer struct {
	Out   map[string]string `json:"out"`   // node key -> output condition
	Early string            `json:"early"` // node key that answers the request ("" = none)
	// RespType: nodes that report the stream type "response" in their ProcessorIO when they run on the
	// response direction (as GenerateResponse and ReadCache do); the walk must not depend on it
	RespType map[string]bool `json:"reports_response_type_on_response,omitempty"`
	// Unwired: the answering node (Early) has NO connection on the response direction but does have a request
	// connection for the condition it reports (the shape of a cache-read node wired on the request side only).
	// Only "the rest of the request path is skipped" is judged for such a transaction.
	Unwired bool `json:"answering_node_without_response_connection,omitempty"`
}

type ev struct {
	Flow string `json:"flow"`
	Key  string `json:"key"`
	Dir  string `json:"dir"` // req | resp
	Cond string `json:"cond"`
}

type replay struct {
	Case  int       `json:"case"`
	Seed  uint64    `json:"seed"`
	Graph graphCase `json:"graph"`
	Steer *steer    `json:"steer,omitempty"`
	Phase string    `json:"phase,omitempty"`
	Trace []ev      `json:"trace,omitempty"`
	// request-phase trace kept while the response phase is judged
	ReqTrace []ev     `json:"request_trace,omitempty"`
	Expect   []string `json:"expected,omitempty"`
}

const reqDir, respDir = "StreamTypeRequest", "StreamTypeResponse"

func genDirection(r *sim.Rand, keys []string, handover []string) []sim.GEdge {
	var edges []sim.GEdge
	if len(keys) == 0 && len(handover) == 0 {
		return nil
	}
	mode := map[string]bool{} // true = conditional outputs
	for _, k := range keys {
		// a "<flow>.<key>" node: the engine validates its conditions against the LOCAL namesake's definition
		// (GetProcessorDefinitionByKey looks in the current flow first; the namesake is a MockProcessor), so its
		// connections carry output_1 / output_2
		mode[k] = r.Chance(1, 2) || strings.Contains(k, ".")
	}
	condFor := func(k string) string {
		if strings.Contains(k, ".") {
			return sim.Pick(r, []string{"output_1", "output_2"})
		}
		if mode[k] {
			return sim.Pick(r, []string{"a", "b"})
		}
		return ""
	}
	if len(keys) > 0 {
		edges = append(edges, sim.GEdge{From: "", To: keys[0]})
	}
	hasIn := map[string]bool{}
	for i, k := range keys {
		n := 1
		if r.Chance(1, 3) {
			n = 2
		}
		if r.Chance(1, 8) {
			n = 3
		}
		seen := map[string]bool{}
		for j := 0; j < n; j++ {
			to := ""
			if i+1 < len(keys) && r.Chance(3, 4) {
				to = keys[r.Range(i+1, len(keys)-1)]
			}
			c := condFor(k)
			if seen[c+">"+to] {
				continue
			}
			seen[c+">"+to] = true
			edges = append(edges, sim.GEdge{From: k, Cond: c, To: to})
			if to != "" {
				hasIn[to] = true
			}
		}
	}
	for i := 1; i < len(keys); i++ {
		if !hasIn[keys[i]] {
			from := keys[r.Intn(i)]
			edges = append(edges, sim.GEdge{From: from, Cond: condFor(from), To: keys[i]})
		}
	}
	// hand-over nodes (same key as an early-capable request node): exactly one unconditional edge
	for _, h := range handover {
		to := ""
		if len(keys) > 0 && r.Chance(2, 3) {
			to = sim.Pick(r, keys)
		}
		edges = append(edges, sim.GEdge{From: h, To: to})
	}
	return edges
}

func genGraph(r *sim.Rand) graphCase {
	gc := graphCase{Early: map[string]bool{}}
	nf := r.Range(1, 3)
	for f := 0; f < nf; f++ {
		fl := sim.GFlow{Name: fmt.Sprintf("g%d", f), URL: sim.Pick(r, []string{"a.com/*", "a.com/x", "a.com/{p}"})}
		nreq := r.Range(1, 5)
		var reqKeys, respKeys, hand []string
		// another flow's processor used by its "<flow>.<key>" name while this flow defines a processor of its
		// own under the same short key (off every path): the node must hold the OTHER flow's instance
		crossAt, crossKey := -1, ""
		if f > 0 && r.Chance(1, 3) {
			var cands []string
			for _, n := range gc.Flows[0].Nodes {
				if n.Kind == "VerifProbe" && !gc.Early[n.Key] && !strings.Contains(n.Key, "m") {
					cands = append(cands, n.Key)
				}
			}
			if len(cands) > 0 {
				crossAt, crossKey = r.Intn(nreq+1), sim.Pick(r, cands)
			}
		}
		addCross := func() {
			reqKeys = append(reqKeys, gc.Flows[0].Name+"."+crossKey)
			fl.Nodes = append(fl.Nodes, sim.GNode{Key: gc.Flows[0].Name + "." + crossKey, Kind: "ref"},
				sim.GNode{Key: crossKey, Kind: "MockProcessor"})
		}
		for i := 0; i < nreq; i++ {
			if i == crossAt {
				addCross()
			}
			k := fmt.Sprintf("f%dn%d", f, i)
			reqKeys = append(reqKeys, k)
			fl.Nodes = append(fl.Nodes, sim.GNode{Key: k, Kind: "VerifProbe"})
			if r.Chance(1, 4) {
				gc.Early[k] = true
				hand = append(hand, k)
			}
		}
		if crossAt == nreq {
			addCross()
		}
		nresp := r.Range(0, 4)
		// the same on the response direction: one of g0's response processors
		crossRespAt, crossRespKey := -1, ""
		if f > 0 && r.Chance(1, 4) {
			var cands []string
			for _, n := range gc.Flows[0].Nodes {
				if n.Kind == "VerifProbe" && strings.Contains(n.Key, "m") {
					cands = append(cands, n.Key)
				}
			}
			if len(cands) > 0 {
				crossRespAt, crossRespKey = r.Intn(nresp+1), sim.Pick(r, cands)
			}
		}
		addCrossResp := func() {
			respKeys = append(respKeys, gc.Flows[0].Name+"."+crossRespKey)
			fl.Nodes = append(fl.Nodes, sim.GNode{Key: gc.Flows[0].Name + "." + crossRespKey, Kind: "ref"},
				sim.GNode{Key: crossRespKey, Kind: "MockProcessor"})
		}
		for i := 0; i < nresp; i++ {
			if i == crossRespAt {
				addCrossResp()
			}
			k := fmt.Sprintf("f%dm%d", f, i)
			respKeys = append(respKeys, k)
			fl.Nodes = append(fl.Nodes, sim.GNode{Key: k, Kind: "VerifProbe"})
		}
		if crossRespAt == nresp {
			addCrossResp()
		}
		fl.Req = genDirection(r, reqKeys, nil)
		fl.Resp = genDirection(r, respKeys, hand)
		gc.Flows = append(gc.Flows, fl)
	}
	if r.Chance(1, 3) {
		gc.QuotaYAML = map[string]string{"q.yaml": "quotas:\n  - id: qc\n    filter:\n      url: a.com/*\n    strategy:\n      concurrent:\n        max_request_count: 1000000\n"}
		switch r.Intn(3) {
		case 0:
			gc.QuotaYAML["q.yaml"] = "quotas:\n  - id: qf\n    filter:\n      url: a.com/*\n    strategy:\n      fixed_window:\n        max: 100000000\n        interval: 1\n        interval_unit: hour\n"
		case 1:
			// two concurrent quotas on different patterns that both match a.com/x: two system flows at the
			// start (increment, request) and two at the end (decrement, response) of one transaction
			gc.QuotaYAML["q.yaml"] += "  - id: qd\n    filter:\n      url: a.com/x\n    strategy:\n      concurrent:\n        max_request_count: 1000000\n"
		}
	}
	return gc
}

func genSteer(r *sim.Rand, gc graphCase) steer {
	s := steer{Out: map[string]string{}}
	for _, fl := range gc.Flows {
		for _, n := range fl.Nodes {
			if n.Kind != "VerifProbe" {
				continue
			}
			// does the node use conditions?
			conds := map[string]bool{}
			for _, e := range append(append([]sim.GEdge{}, fl.Req...), fl.Resp...) {
				if e.From == n.Key {
					conds[e.Cond] = true
				}
			}
			for _, other := range gc.Flows {
				for _, e := range append(append([]sim.GEdge{}, other.Req...), other.Resp...) {
					if strings.Contains(e.From, ".") && shortKey(e.From) == n.Key {
						conds[e.Cond] = true
					}
				}
			}
			var opts []string
			for c := range conds {
				opts = append(opts, c)
			}
			if len(opts) == 0 || r.Chance(1, 10) {
				opts = append(opts, sim.Pick(r, []string{"", "a", "b", "c"}))
			}
			// deterministic pick order
			keys := map[string]bool{}
			for _, o := range opts {
				keys[o] = true
			}
			sorted := sim.SortedKeys(keys)
			s.Out[n.Key] = sorted[r.Intn(len(sorted))]
			if r.Chance(1, 4) {
				if s.RespType == nil {
					s.RespType = map[string]bool{}
				}
				s.RespType[n.Key] = true
			}
		}
	}
	// a node holding another flow's processor is steered by that processor's header
	for _, fl := range gc.Flows {
		for _, n := range fl.Nodes {
			if n.Kind == "ref" {
				s.Out[n.Key] = s.Out[shortKey(n.Key)]
			}
		}
	}
	if len(gc.Early) > 0 && r.Chance(1, 2) {
		s.Early = sim.Pick(r, sim.SortedKeys(gc.Early))
	} else if r.Chance(1, 4) {
		// a node nobody wired for answering answers, and reports a condition that one of its request connections carries
		type cand struct{ k, cond string }
		var cs []cand
		for _, fl := range gc.Flows {
			for _, e := range fl.Req {
				if e.To != "" && !gc.Early[e.From] && !strings.Contains(e.From, ".") {
					cs = append(cs, cand{e.From, e.Cond})
				}
			}
		}
		if len(cs) > 0 {
			c := cs[r.Intn(len(cs))]
			s.Early, s.Unwired = c.k, true
			s.Out[c.k] = c.cond
		}
	}
	return s
}

// judgeUnwired: the answering node has no response connection. Whatever the engine makes of that (the flow
// fails, the answer is delivered or not), no request-direction processor of that flow runs after the node.
func judgeUnwired(s steer, trace []ev, rp replay, v *sim.Verdict) {
	flow, at := "", -1
	for i, e := range trace {
		if e.Dir == "req" && e.Key == s.Early {
			flow, at = e.Flow, i
			break
		}
	}
	if at < 0 {
		v.Count("unwired_answering_node_not_reached", 1)
		return
	}
	v.Count("transactions_answered_by_a_node_without_response_connection", 1)
	var after []string
	for _, e := range trace[at+1:] {
		if e.Dir == "req" && e.Flow == flow {
			after = append(after, e.Key)
		}
	}
	if len(after) > 0 {
		v.Violate("C04/ran-after-early-response/no-response-connection", fmt.Sprintf("flow %s kept executing %v on the request path after %s answered the request", flow, after, s.Early), rp)
	}
}

// shortKey: "<flow>.<key>" -> "<key>"
func shortKey(k string) string { return k[strings.LastIndex(k, ".")+1:] }

func headersFor(s steer) map[string]string {
	h := map[string]string{}
	for k, c := range s.Out {
		if strings.Contains(k, ".") {
			continue
		}
		v := "c=" + c
		if k == s.Early {
			v += "|a=early:418:by-" + k
		} else {
			v += "|a=modhdr:src-" + k + "=1"
		}
		if s.RespType[k] {
			v += "|yr=response"
		}
		h["x-vp-"+strings.ToLower(k)] = v
	}
	return h
}

// refWalk: reference walk from the statement. Returns the event keys in pre-order; stops the whole
// walk when the early node is executed. fanOut reports whether some executed node followed more than
// one connection (then sibling order is not pinned by the statement).
func refWalk(edges []sim.GEdge, start string, s steer, allowEarly bool) (seq []string, hitEarly bool, fanOut bool) {
	var walk func(k string) bool
	walk = func(k string) bool {
		seq = append(seq, k)
		if allowEarly && k == s.Early {
			hitEarly = true
			return true
		}
		out := s.Out[k]
		followed := 0
		for _, e := range edges {
			if e.From == k && e.Cond == out && e.To != "" {
				followed++
			}
		}
		if followed > 1 {
			fanOut = true
		}
		for _, e := range edges {
			if e.From == k && e.Cond == out && e.To != "" {
				if walk(e.To) {
					return true
				}
			}
		}
		return false
	}
	if start != "" {
		walk(start)
	}
	return
}

func rootOf(edges []sim.GEdge) string {
	for _, e := range edges {
		if e.From == "" && e.FromFlow == "" && e.To != "" {
			return e.To
		}
	}
	return ""
}

func drain() []ev {
	var out []ev
	for _, e := range sim.GlobalSink.Drain() {
		if e.Kind != "proc" || len(e.Args) < 4 {
			continue
		}
		d := "req"
		if e.Args[2] == respDir {
			d = "resp"
		}
		out = append(out, ev{Flow: e.Args[0], Key: e.Args[1], Dir: d, Cond: e.Args[3]})
	}
	return out
}

var _ = verifhook.Enabled

func main() {
	args := sim.ParseArgs()
	v := sim.NewVerdict("C04", args.Seed, args.Tier, args.Batch, args.Out)
	v.Rule = "case = 1-3 generated well-formed DAG flows (1-5 request nodes, 0-4 response nodes, conditional/unconditional outputs, fan-out, joins, early-response-capable nodes with a response hand-over connection, optional quota system flows) x steering vectors (output condition per node, which node answers); non-trivial iff >=2 processors executed and at least one connection was NOT followed because of its condition, or an early response happened; distinct by <#flows, node counts, fan-out?, early?, join?, system flows?>"
	v.Assumptions = []string{
		"order among fan-out siblings is not pinned by the statement: runs with fan-out are judged as multisets plus the parent-before-child predicate",
		"a processor reached over two followed connections runs once per connection",
		"flows after the answering flow on the request side are not judged; relative position of system flows on responses is not judged",
	}
	root := sim.ScratchRoot("c04")
	defer os.RemoveAll(root)
	sim.BaseEnv()

	if args.Replay != "" {
		data, err := os.ReadFile(args.Replay)
		var wrap struct {
			Replay replay `json:"replay"`
		}
		if err == nil {
			err = json.Unmarshal(data, &wrap)
		}
		if err != nil {
			v.Inconclude(err.Error())
			os.Exit(v.Write())
		}
		var st []steer
		if wrap.Replay.Steer != nil {
			st = []steer{*wrap.Replay.Steer}
		}
		runCase(wrap.Replay.Case, args, sim.NewRand(wrap.Replay.Seed), wrap.Replay.Graph, st, v, root)
		os.Exit(v.Write())
	}
	total := args.Pick(2400, 24000)
	lo, hi := args.Share(total)
	for i := lo; i < hi; i++ {
		r := args.CaseRand(i)
		runCase(i, args, r, genGraph(r), nil, v, root)
	}
	if v.Counters["events"] == 0 || v.Counters["early_responses"] == 0 || v.Counters["edges_not_followed"] == 0 {
		v.Inconclude("batch observed no events, no early response or no withheld connection")
	}
	os.Exit(v.Write())
}

func keysOf(es []ev) []string {
	var out []string
	for _, e := range es {
		out = append(out, e.Key)
	}
	return out
}

func multisetEq(a, b []string) bool {
	if len(a) != len(b) {
		return false
	}
	m := map[string]int{}
	for _, x := range a {
		m[x]++
	}
	for _, x := range b {
		m[x]--
	}
	for _, n := range m {
		if n != 0 {
			return false
		}
	}
	return true
}

func seqEq(a, b []string) bool {
	if len(a) != len(b) {
		return false
	}
	for i := range a {
		if a[i] != b[i] {
			return false
		}
	}
	return true
}

func runCase(idx int, args sim.Args, r *sim.Rand, gc graphCase, steers []steer, v *sim.Verdict, root string) {
	cfg := sim.Config{Flows: map[string]string{}, Quotas: gc.QuotaYAML}
	for _, f := range gc.Flows {
		cfg.Flows[f.Name+".yaml"] = f.YAML()
	}
	v.Eval(1)
	sim.GlobalSink.Drain()
	env, err := sim.NewStreamEnv(root, cfg)
	if err != nil {
		v.Violate("C04/harness/well-formed-graph-rejected", fmt.Sprintf("generated well-formed DAG configuration rejected: %v", err), replay{Case: idx, Seed: args.Seed, Graph: gc})
		return
	}
	defer env.Cleanup()
	sim.GlobalSink.Drain()
	if steers == nil {
		n := args.Pick(8, 12)
		for i := 0; i < n; i++ {
			steers = append(steers, genSteer(r, gc))
		}
	}
	flowByName := map[string]sim.GFlow{}
	for _, f := range gc.Flows {
		flowByName[f.Name] = f
	}
	for si, s := range steers {
		st := s
		rp := replay{Case: idx, Seed: args.Seed, Graph: gc, Steer: &st}
		txn := sim.Txn{ID: fmt.Sprintf("c%d-%d", idx, si), Method: "GET", URL: "a.com/x", Headers: headersFor(s), Status: 200}
		var res sim.ReqResult
		if sim.Guard(v, "C04/panic/request", rp, func() { res = env.OnRequest(txn) }) {
			continue
		}
		trace := drain()
		rp.Trace = trace
		rp.Phase = "request"
		if s.Unwired {
			judgeUnwired(s, trace, rp, v)
			continue
		}
		if res.Err != nil {
			v.Violate("C04/error/request", res.Err.Error(), rp)
			continue
		}
		v.Count("events", len(trace))
		early := judgeRequest(gc, flowByName, s, trace, res, rp, v)
		if early {
			v.Count("early_responses", 1)
		}
		// the provider's response (only when the request was not answered by the gateway)
		if !early {
			var rres sim.RespResult
			if sim.Guard(v, "C04/panic/response", rp, func() { rres = env.OnResponse(txn) }) {
				continue
			}
			rtrace := drain()
			rp.Trace = rtrace
			rp.ReqTrace = trace
			rp.Phase = "response"
			if rres.Err != nil {
				v.Violate("C04/error/response", rres.Err.Error(), rp)
				continue
			}
			v.Count("events", len(rtrace))
			judgeResponse(gc, flowByName, s, rtrace, "", "", userOrder(trace, "req"), rp, v)
		}
	}
	shape := fmt.Sprintf("f%d", len(gc.Flows))
	for _, f := range gc.Flows {
		nreq, nresp := 0, 0
		for _, n := range f.Nodes {
			if strings.Contains(n.Key, "m") {
				nresp++
			} else {
				nreq++
			}
		}
		shape += fmt.Sprintf("/%d-%d", nreq, nresp)
	}
	v.Distinct(fmt.Sprintf("%s/e%d/q%v", shape, len(gc.Early), gc.QuotaYAML != nil))
	if idx%173 == 0 {
		s := steers[0]
		v.Sample(replay{Case: idx, Seed: args.Seed, Graph: gc, Steer: &s})
	}
}

func isSystem(flow string) bool { return strings.HasPrefix(flow, "SystemFlow_") }

func userOrder(trace []ev, dir string) []string {
	var order []string
	seen := map[string]bool{}
	for _, e := range trace {
		if e.Dir == dir && !isSystem(e.Flow) && !seen[e.Flow] {
			seen[e.Flow] = true
			order = append(order, e.Flow)
		}
	}
	return order
}

// judgeRequest returns whether the request was answered by the gateway.
func judgeRequest(gc graphCase, flows map[string]sim.GFlow, s steer, trace []ev, res sim.ReqResult, rp replay, v *sim.Verdict) bool {
	// split: request-direction events, then (after an early response) response-direction events
	var reqEv, respEv []ev
	for _, e := range trace {
		if e.Dir == "req" {
			if len(respEv) > 0 {
				v.Violate("C04/request-event-after-response-phase", fmt.Sprintf("request-direction processor %s ran after the response phase had started", e.Key), rp)
				return res.Early != nil
			}
			reqEv = append(reqEv, e)
			if strings.Contains(e.Key, ".") {
				v.Count("executions_of_another_flows_processor_beside_a_local_namesake", 1)
			}
		} else {
			respEv = append(respEv, e)
		}
	}
	// (f) system start < user < system end on requests
	phase := 0
	for _, e := range reqEv {
		p := 1
		if isSystem(e.Flow) {
			if strings.HasSuffix(e.Flow, "SYSTEM_FLOW_START") || strings.Contains(e.Flow, "START") {
				p = 0
			} else {
				p = 2
			}
		}
		if p < phase {
			v.Violate("C04/flow-order/request", fmt.Sprintf("flow %s ran after a later-phase flow on the request", e.Flow), rp)
			break
		}
		phase = p
	}
	// per user flow, contiguous
	order := userOrder(trace, "req")
	byFlow := map[string][]ev{}
	last := ""
	closed := map[string]bool{}
	for _, e := range reqEv {
		if isSystem(e.Flow) {
			continue
		}
		if e.Flow != last {
			if closed[e.Flow] {
				v.Violate("C04/flow-interleaved", fmt.Sprintf("events of flow %s are not contiguous", e.Flow), rp)
			}
			if last != "" {
				closed[last] = true
			}
			last = e.Flow
		}
		byFlow[e.Flow] = append(byFlow[e.Flow], e)
	}
	answeredBy, answerFlow := "", ""
	for _, name := range order {
		fl := flows[name]
		got := keysOf(byFlow[name])
		// reported conditions must be the steered ones
		for _, e := range byFlow[name] {
			if e.Cond != s.Out[e.Key] {
				v.Violate("C04/harness/condition-mismatch", fmt.Sprintf("probe %s reported %q, steered %q", e.Key, e.Cond, s.Out[e.Key]), rp)
			}
		}
		want, hitEarly, fanOut := refWalk(fl.Req, rootOf(fl.Req), s, true)
		rp.Expect = want
		if len(got) > 0 && got[0] != rootOf(fl.Req) {
			v.Violate("C04/entry-point/request", fmt.Sprintf("flow %s started at %s, entry point is %s", name, got[0], rootOf(fl.Req)), rp)
			continue
		}
		switch {
		case !fanOut:
			if !seqEq(got, want) {
				kind := "no-early"
				if hitEarly {
					kind = "early"
				}
				v.Violate("C04/path-mismatch/request/"+kind, fmt.Sprintf("flow %s executed %v, the configured graph and outputs give %v", name, got, want), rp)
			}
		case !hitEarly:
			if !multisetEq(got, want) {
				v.Violate("C04/path-mismatch/request/fan-out", fmt.Sprintf("flow %s executed %v, the configured graph and outputs give (any sibling order) %v", name, got, want), rp)
			}
		default:
			// fan-out + early: nothing of this flow may run after the answering processor
			for i, k := range got {
				if k == s.Early && i != len(got)-1 {
					v.Violate("C04/ran-after-early-response/fan-out-sibling", fmt.Sprintf("flow %s kept executing %v after %s answered the request", name, got[i+1:], k), rp)
					break
				}
			}
			justified(fl.Req, s, got, name, "request", rp, v)
		}
		// count withheld connections
		for _, k := range got {
			for _, e := range fl.Req {
				if e.From == k && e.Cond != s.Out[k] {
					v.Count("edges_not_followed", 1)
				} else if e.From == k {
					v.Count("edges_followed", 1)
				}
			}
		}
		if hitEarly {
			answeredBy, answerFlow = s.Early, name
			break
		}
	}
	if answeredBy == "" {
		if res.Early != nil {
			v.Violate("C04/unexpected-early-response", fmt.Sprintf("an early response (%d %s) was returned although no executed processor answered", res.Early.Status, res.Early.Body), rp)
		}
		if len(respEv) > 0 {
			v.Violate("C04/response-path-without-early-response", fmt.Sprintf("response-direction processors %v ran on a request nobody answered", keysOf(respEv)), rp)
		}
		judgeActions(reqEv, res, rp, v)
		return false
	}
	// the request was answered by answeredBy
	if res.Early == nil || res.Early.Body != "by-"+answeredBy {
		v.Violate("C04/early-response-missing", fmt.Sprintf("processor %s answered the request but the action list has no such early response", answeredBy), rp)
	}
	judgeActions(reqEv, res, rp, v)
	rp.Phase = "request/hand-over"
	judgeResponse(gc, flows, s, respEv, answerFlow, answeredBy, order, rp, v)
	return true
}

// justified: every executed processor except the first is the target of a matching connection of an
// earlier executed processor.
func justified(edges []sim.GEdge, s steer, got []string, flow, dir string, rp replay, v *sim.Verdict) {
	for i := 1; i < len(got); i++ {
		ok := false
		for j := 0; j < i && !ok; j++ {
			for _, e := range edges {
				if e.From == got[j] && e.To == got[i] && e.Cond == s.Out[got[j]] {
					ok = true
					break
				}
			}
		}
		if !ok {
			v.Violate("C04/off-path-processor/"+dir, fmt.Sprintf("flow %s executed %s which no followed connection leads to (trace %v)", flow, got[i], got), rp)
			return
		}
	}
}

func judgeActions(reqEv []ev, res sim.ReqResult, rp replay, v *sim.Verdict) {
	var want []string
	for _, e := range reqEv {
		if !isSystem(e.Flow) {
			want = append(want, shortKey(e.Key))
		}
	}
	var got []string
	for _, a := range res.Actions {
		switch x := a.(type) {
		case *actions.ModifyHeadersAction:
			for k := range x.HeadersToSet {
				got = append(got, strings.TrimPrefix(k, "src-"))
			}
		case *actions.EarlyResponseAction:
			got = append(got, strings.TrimPrefix(x.Body, "by-"))
		}
	}
	if !seqEq(got, want) {
		v.Violate("C04/action-list-mismatch", fmt.Sprintf("actions come from %v, executed request processors are %v", got, want), rp)
	}
}

// systemOrder: quota ids in the order their system-flow processors ran in one direction.
func systemOrder(evs []ev) []string {
	var out []string
	for _, e := range evs {
		if isSystem(e.Flow) {
			if i := strings.Index(e.Key, "_"); i > 0 {
				out = append(out, e.Key[:i])
			}
		}
	}
	return out
}

// judgeSystemOrder: quotas whose system flows ran on the request (increment) and on the response
// (decrement) of one transaction are unwound in reverse order. Only judged for quotas on different URL
// patterns (their relative order is then fixed by the path through the filter tree for both lists).
func judgeSystemOrder(reqEv, respEv []ev, rp replay, v *sim.Verdict) {
	req, resp := systemOrder(reqEv), systemOrder(respEv)
	if len(req) < 2 || len(resp) < 2 {
		return
	}
	v.Count("transactions_with_two_system_flows_in_both_directions", 1)
	if len(req) != len(resp) {
		return
	}
	for i := range req {
		if req[i] != resp[len(resp)-1-i] {
			v.Violate("C04/flow-order/system-flows-not-reversed-on-response", fmt.Sprintf("quota system flows ran %v on the request and %v on the response (want the reverse)", req, resp), rp)
			return
		}
	}
}

func judgeResponse(gc graphCase, flows map[string]sim.GFlow, s steer, respEv []ev, answerFlow, answeredBy string, reqOrder []string, rp replay, v *sim.Verdict) {
	if answeredBy == "" {
		judgeSystemOrder(rp.ReqTrace, respEv, rp, v)
	}
	byFlow := map[string][]ev{}
	for _, e := range respEv {
		if !isSystem(e.Flow) {
			byFlow[e.Flow] = append(byFlow[e.Flow], e)
		}
	}
	order := userOrder(respEv, "resp")
	// reverse order of flows (only flows that executed something in both phases are comparable)
	pos := map[string]int{}
	for i, n := range reqOrder {
		pos[n] = i
	}
	lastPos := 1 << 30
	for _, n := range order {
		p, ok := pos[n]
		if !ok {
			continue
		}
		if p > lastPos {
			v.Violate("C04/flow-order/response-not-reversed", fmt.Sprintf("request order %v, response order %v", reqOrder, order), rp)
			break
		}
		lastPos = p
	}
	for name, evs := range byFlow {
		fl := flows[name]
		got := keysOf(evs)
		for _, e := range evs {
			if strings.Contains(e.Key, ".") {
				v.Count("executions_of_another_flows_processor_beside_a_local_namesake", 1)
				// the other flow's probe reports the steered condition; a local namesake would not
				if answeredBy == "" && e.Cond != s.Out[e.Key] {
					v.Violate("C04/wrong-processor-instance/response", fmt.Sprintf("node %s of flow %s reported %q, the processor it names was steered to %q", e.Key, name, e.Cond, s.Out[e.Key]), rp)
				}
			}
		}
		start := rootOf(fl.Resp)
		if name == answerFlow {
			// hand-over: the target of the answering processor's response connection
			start = ""
			for _, e := range fl.Resp {
				if e.From == answeredBy {
					start = e.To
					break
				}
			}
		}
		want, _, fanOut := refWalk(fl.Resp, start, s, false)
		rp.Expect = want
		tag := "provider-response"
		if answeredBy != "" {
			tag = "after-early-response"
			if name == answerFlow {
				tag = "hand-over"
			}
		}
		if !fanOut {
			if !seqEq(got, want) {
				v.Violate("C04/path-mismatch/response/"+tag, fmt.Sprintf("flow %s response path executed %v, expected %v (start %q)", name, got, want, start), rp)
			}
		} else if !multisetEq(got, want) {
			v.Violate("C04/path-mismatch/response/"+tag+"/fan-out", fmt.Sprintf("flow %s response path executed %v, expected (any sibling order) %v", name, got, want), rp)
		}
		for _, k := range got {
			for _, e := range fl.Resp {
				if e.From == k && e.Cond != s.Out[k] {
					v.Count("edges_not_followed", 1)
				}
			}
		}
	}
	// flows whose response direction should have run but did not
	for name, fl := range flows {
		if _, ran := byFlow[name]; ran {
			continue
		}
		matched := false
		for _, n := range reqOrder {
			if n == name {
				matched = true
			}
		}
		if !matched && answeredBy != "" {
			continue // flows after the answering flow: not judged
		}
		start := rootOf(fl.Resp)
		if name == answerFlow {
			start = ""
			for _, e := range fl.Resp {
				if e.From == answeredBy {
					start = e.To
					break
				}
			}
		}
		if start != "" && matched {
			v.Violate("C04/response-path-not-run", fmt.Sprintf("flow %s matched the transaction but its response path (start %s) did not run", name, start), rp)
		}
	}
}
