// C05 - every configuration the loader accepts runs safely on all traffic.
//
// Acceptance = the validator used by validate_flows / load_flows / flows-validator
// (validation.NewValidator().WithValidationDir(dir).Validate()) and the live loader
// (streams.NewStream().Initialize()). Every accepted configuration is executed on steering and
// hostile transactions; the monitor counts processor executions through the hook and aborts a
// transaction that exceeds the step bound (long before the stack is exhausted). Configurations that
// may crash the loader itself (flow references) are loaded in a child process.
package main

import (
	"encoding/json"
	"fmt"
	"os"
	"os/exec"
	"runtime/debug"
	"strings"
	"sync/atomic"

	"lunar/engine/streams/validation"
	"lunar/toolkit-core/verifhook"

	"verif/harness/sim"
)

type c05Case struct {
	Kind   string            `json:"kind"` // exhaustive | generated | quota | refs
	Flows  []sim.GFlow       `json:"flows,omitempty"`
	RawFlw map[string]string `json:"raw_flows,omitempty"`
	Quotas map[string]string `json:"quotas,omitempty"`
	Mask   [2]int            `json:"mask,omitempty"`
}

type replay struct {
	Case   int      `json:"case"`
	Seed   uint64   `json:"seed"`
	Config c05Case  `json:"config"`
	Txn    *sim.Txn `json:"txn,omitempty"`
	Phase  string   `json:"phase,omitempty"`
	Steps  int64    `json:"steps,omitempty"`
}

const stepBound = 400

var steps atomic.Int64

func init() {
	sim.GlobalSink.OnEach(func(e verifhook.Event) {
		if e.Kind == "proc" {
			if steps.Add(1) > stepBound {
				panic("verif: step bound exceeded")
			}
		}
	})
}

// ---- exhaustive core: every subset of the possible connections over 2 nodes per direction ----

var reqCand = []sim.GEdge{
	{From: "", To: "A"}, {From: "", To: "B"},
	{From: "A", To: "A"}, {From: "A", To: "B"}, {From: "B", To: "A"}, {From: "B", To: "B"},
	{From: "A", To: ""}, {From: "B", To: ""},
}

var respCand = []sim.GEdge{
	{From: "", To: "A"}, {From: "", To: "C"},
	{From: "A", To: "A"}, {From: "A", To: "C"}, {From: "C", To: "A"}, {From: "C", To: "C"},
	{From: "A", To: ""}, {From: "C", To: ""},
}

func exhaustiveCase(reqMask, respMask int) c05Case {
	fl := sim.GFlow{Name: "ex", URL: "a.com/*"}
	used := map[string]bool{}
	for i, e := range reqCand {
		if reqMask&(1<<i) != 0 {
			fl.Req = append(fl.Req, e)
			used[e.From], used[e.To] = true, true
		}
	}
	for i, e := range respCand {
		if respMask&(1<<i) != 0 {
			fl.Resp = append(fl.Resp, e)
			used[e.From], used[e.To] = true, true
		}
	}
	for _, k := range []string{"A", "B", "C"} {
		if used[k] {
			fl.Nodes = append(fl.Nodes, sim.GNode{Key: k, Kind: "VerifProbe"})
		}
	}
	return c05Case{Kind: "exhaustive", Flows: []sim.GFlow{fl}, Mask: [2]int{reqMask, respMask}}
}

// ---- generated configurations -----------------------------------------------------------------

func genGenerated(r *sim.Rand) c05Case {
	c := c05Case{Kind: "generated"}
	nf := r.Range(1, 2)
	for f := 0; f < nf; f++ {
		fl := sim.GFlow{Name: fmt.Sprintf("g%d", f), URL: sim.Pick(r, []string{"a.com/*", "a.com/x", "*", "a.com/{p}/y"})}
		kinds := []string{"VerifProbe", "VerifProbe", "Filter", "GenerateResponse", "MockProcessor"}
		n := r.Range(1, 4)
		var keys []string
		for i := 0; i < n; i++ {
			k := fmt.Sprintf("p%d", i)
			if r.Chance(1, 12) && i > 0 {
				k = keys[0] + "." // illegal key with a dot
			}
			keys = append(keys, k)
			fl.Nodes = append(fl.Nodes, sim.GNode{Key: k, Kind: sim.Pick(r, kinds)})
		}
		condFor := func(k string) string {
			nd, _ := fl.Node(k)
			switch nd.Kind {
			case "Filter":
				return sim.Pick(r, []string{"hit", "miss", "hit", "bogus"})
			case "VerifProbe":
				return sim.Pick(r, []string{"", "", "a", "b", "zzz"})
			}
			return sim.Pick(r, []string{"", "", "", "nope"})
		}
		edges := func() []sim.GEdge {
			var es []sim.GEdge
			m := r.Range(0, 7)
			for i := 0; i < m; i++ {
				e := sim.GEdge{}
				switch r.Intn(10) {
				case 0, 1:
					e.To = sim.Pick(r, keys)
				case 2, 3:
					e.From = sim.Pick(r, keys)
					e.Cond = condFor(e.From)
				case 4:
					// stream -> stream
				case 5:
					e.From = sim.Pick(r, keys)
					e.Cond = condFor(e.From)
					e.To = "ghost" // undeclared processor
				default:
					e.From = sim.Pick(r, keys)
					e.Cond = condFor(e.From)
					e.To = sim.Pick(r, keys)
				}
				es = append(es, e)
			}
			return es
		}
		fl.Req = edges()
		fl.Resp = edges()
		// the other filter clauses: they are evaluated on every transaction, also on hostile ones and on the
		// response walk that follows an early response (when there is no provider response yet)
		if r.Chance(1, 2) {
			switch r.Intn(5) {
			case 0:
				fl.FilterExtra = "  status_code: [200, 418]\n"
			case 1:
				fl.FilterExtra = "  query_params:\n    - key: mode\n      value: fast\n"
			case 2:
				fl.FilterExtra = "  headers:\n    - key: x-env\n      value: prod\n  method: [GET, POST]\n"
			case 3:
				fl.FilterExtra = "  status_code: [500]\n  query_params:\n    - key: a\n      value: \"\"\n"
			default:
				fl.FilterExtra = "  method: []\n  status_code: []\n"
			}
		}
		c.Flows = append(c.Flows, fl)
	}
	if nf == 2 && r.Chance(1, 6) {
		c.Flows[1].Name = c.Flows[0].Name // duplicate flow name
	}
	return c
}

// parallelCase: a cycle whose entry node is reached from an outer processor through parallel connections
// that differ only in their condition (e.g. hit -> A and miss -> A). 192 graphs: direction x entry
// conditions x cycle shape x cycle condition x exit.
const nParallel = 192

func parallelCase(i int) c05Case {
	dir := i % 2
	i /= 2
	entry := [][]string{{""}, {"a"}, {"", "a"}, {"", "a", "b"}}[i%4]
	i /= 4
	shape := i % 4
	i /= 4
	cc := []string{"", "a"}[i%2]
	i /= 2
	exit := i % 3
	var es []sim.GEdge
	es = append(es, sim.GEdge{From: "", To: "X"})
	for _, c := range entry {
		es = append(es, sim.GEdge{From: "X", Cond: c, To: "A"})
	}
	switch shape {
	case 0:
		es = append(es, sim.GEdge{From: "A", Cond: cc, To: "B"}, sim.GEdge{From: "B", Cond: cc, To: "A"})
	case 1:
		es = append(es, sim.GEdge{From: "A", Cond: cc, To: "A"})
	case 2:
		es = append(es, sim.GEdge{From: "A", Cond: cc, To: "B"}, sim.GEdge{From: "B", Cond: cc, To: "B"})
	default:
		es = append(es, sim.GEdge{From: "A", Cond: cc, To: "B"}, sim.GEdge{From: "B", Cond: cc, To: "A"}, sim.GEdge{From: "A", Cond: cc, To: "A"})
	}
	switch exit {
	case 1:
		es = append(es, sim.GEdge{From: "A", Cond: "zzz", To: ""})
	case 2:
		es = append(es, sim.GEdge{From: "B", Cond: "zzz", To: ""})
	}
	fl := sim.GFlow{Name: "par", URL: "a.com/*", Nodes: []sim.GNode{{Key: "X", Kind: "VerifProbe"}, {Key: "A", Kind: "VerifProbe"}}}
	if shape != 1 {
		fl.Nodes = append(fl.Nodes, sim.GNode{Key: "B", Kind: "VerifProbe"})
	}
	if dir == 0 {
		fl.Req = es
	} else {
		fl.Req = []sim.GEdge{{From: "", To: "X"}, {From: "X", To: ""}}
		fl.Resp = es
	}
	return c05Case{Kind: "parallel-entry-cycle", Flows: []sim.GFlow{fl}}
}

func genRefs(r *sim.Rand) c05Case {
	c := c05Case{Kind: "refs"}
	names := []string{"ra", "rb", "rc"}
	nf := r.Range(2, 3)
	for f := 0; f < nf; f++ {
		fl := sim.GFlow{Name: names[f], URL: "a.com/*"}
		k1, k2 := fmt.Sprintf("%sp1", names[f]), fmt.Sprintf("%sp2", names[f])
		fl.Nodes = []sim.GNode{{Key: k1, Kind: "VerifProbe"}, {Key: k2, Kind: "VerifProbe"}}
		other := func() string {
			o := names[r.Intn(nf)]
			if r.Chance(1, 8) {
				return "nosuchflow"
			}
			return o
		}
		dir := func() []sim.GEdge {
			es := []sim.GEdge{{From: "", To: k1}}
			switch r.Intn(5) {
			case 0:
				es = append(es, sim.GEdge{From: k1, ToFlow: other()})
			case 1:
				es = append(es, sim.GEdge{From: k1, To: k2}, sim.GEdge{From: k2, ToFlow: other()})
			case 2:
				es = []sim.GEdge{{FromFlow: other(), To: k1}, {From: k1, To: ""}}
			case 3:
				es = append(es, sim.GEdge{From: k1, To: ""})
			case 4:
				es = append(es, sim.GEdge{From: k1, ToFlow: other()}, sim.GEdge{FromFlow: other(), To: k2}, sim.GEdge{From: k2, To: ""})
			}
			return es
		}
		fl.Req = dir()
		if r.Bool() {
			fl.Resp = dir()
		}
		c.Flows = append(c.Flows, fl)
	}
	return c
}

func limiterFlow(quotaID, proc string, extra string) string {
	return fmt.Sprintf(`name: lf
filter:
  url: a.com/*
processors:
  L:
    processor: %s
    parameters:
      - key: quota_id
        value: %s
%s  G:
    processor: GenerateResponse
flow:
  request:
    - from:
        stream:
          name: globalStream
          at: start
      to:
        processor:
          name: L
  response:
    - from:
        processor:
          name: G
      to:
        stream:
          name: globalStream
          at: end
`, proc, quotaID, extra)
}

// quotaOrderCase: a valid quota with a chain of internal limits (c0 under q0, c1 under c0, c2 under c1) listed
// in every order, concurrent or fixed-window, with a limiter on one of them (24 files).
const nQuotaOrder = 24

func quotaOrderCase(i int) c05Case {
	perms := [][]int{{0, 1, 2}, {0, 2, 1}, {1, 0, 2}, {1, 2, 0}, {2, 0, 1}, {2, 1, 0}}
	perm := perms[i%6]
	i /= 6
	conc := i%2 == 1
	i /= 2
	target := []string{"c2", "c0"}[i%2]
	strat := "      fixed_window:\n        max: 5\n        interval: 1\n        interval_unit: minute\n"
	if conc {
		strat = "      concurrent:\n        max_request_count: 3\n        request_expiration_sec: 5\n"
	}
	var sb strings.Builder
	sb.WriteString("quotas:\n  - id: q0\n    filter:\n      url: a.com/*\n    strategy:\n" + strat + "internal_limits:\n")
	parents := []string{"q0", "c0", "c1"}
	for _, k := range perm {
		fmt.Fprintf(&sb, "  - id: c%d\n    parent_id: %s\n    strategy:\n%s", k, parents[k], strat)
	}
	c := c05Case{Kind: "quota", Quotas: map[string]string{"q.yaml": sb.String()}, RawFlw: map[string]string{}}
	c.RawFlw["lf.yaml"] = limiterFlow(target, "Limiter", "")
	return c
}

func genQuota(r *sim.Rand) c05Case {
	c := c05Case{Kind: "quota", Quotas: map[string]string{}, RawFlw: map[string]string{}}
	strategies := []string{
		"      fixed_window:\n        max: %d\n        interval: %d\n        interval_unit: %s\n",
		"      fixed_window:\n        max: %d\n        interval: %d\n        interval_unit: %s\n        group_by_header: x-g\n",
		"      fixed_window:\n        max: %d\n        interval: %d\n        interval_unit: %s\n        spillover:\n          max: 2\n",
		"      fixed_window:\n        max: %d\n        interval: %d\n        interval_unit: %s\n        spillover:\n          max: 2\n        monthly_renewal:\n          day: 1\n          hour: 0\n          minute: 0\n          timezone: UTC\n",
		"      fixed_window_custom_counter:\n        max: %d\n        interval: %d\n        interval_unit: %s\n        counter_value_path: $.request.body.n\n",
		"      concurrent:\n        max_request_count: %d\n        request_expiration_sec: %d\n        # %s\n",
		"      header_based:\n        quota_header: x-remaining\n        reset_header: x-reset\n        # %d %d %s\n",
		"      allocation_percentage: %d\n      # %d %s\n",
	}
	vals := []int{-1, 0, 1, 3, 100}
	units := []string{"second", "minute", "hour", "day", "month", "fortnight", ""}
	var sb strings.Builder
	sb.WriteString("quotas:\n")
	nq := r.Range(1, 2)
	for i := 0; i < nq; i++ {
		fmt.Fprintf(&sb, "  - id: q%d\n", i)
		if !r.Chance(1, 8) {
			host := "a.com"
			if i == 1 && r.Chance(1, 3) {
				host = "b.com" // two hosts in one file
			}
			fmt.Fprintf(&sb, "    filter:\n      url: %s/*\n", host)
		}
		if !r.Chance(1, 12) {
			sb.WriteString("    strategy:\n")
			fmt.Fprintf(&sb, sim.Pick(r, strategies), sim.Pick(r, vals), sim.Pick(r, vals), sim.Pick(r, units))
		}
	}
	if r.Chance(1, 2) {
		sb.WriteString("internal_limits:\n")
		ni := r.Range(1, 2)
		for i := 0; i < ni; i++ {
			parent := sim.Pick(r, []string{"q0", "q1", "c0", "ghost"})
			fmt.Fprintf(&sb, "  - id: c%d\n    parent_id: %s\n", i, parent)
			if r.Chance(1, 3) {
				fmt.Fprintf(&sb, "    filter:\n      url: %s\n", sim.Pick(r, []string{"a.com/x", "a.com/x/*", "b.com/*"}))
			}
			sb.WriteString("    strategy:\n")
			fmt.Fprintf(&sb, sim.Pick(r, strategies), sim.Pick(r, vals), sim.Pick(r, vals), sim.Pick(r, units))
		}
	}
	c.Quotas["q.yaml"] = sb.String()
	if r.Chance(2, 3) {
		proc := sim.Pick(r, []string{"Limiter", "Limiter", "Queue", "Retry", "Limiter"})
		extra := ""
		if proc == "Queue" && r.Chance(2, 3) {
			extra = "      - key: queue_size\n        value: 2\n      - key: ttl_seconds\n        value: 1\n"
		}
		c.RawFlw["lf.yaml"] = limiterFlow(sim.Pick(r, []string{"q0", "q1", "c0", "ghost"}), proc, extra)
	}
	return c
}

// ---- transactions -----------------------------------------------------------------------------

func steerHeaders(c c05Case, early string) map[string]string {
	h := map[string]string{}
	for _, fl := range c.Flows {
		for _, n := range fl.Nodes {
			key := "x-vp-" + strings.ToLower(n.Key)
			if n.Key == early {
				h[key] = "c=|a=early:418:e"
			}
			if n.Kind == "Filter" {
				h["x-f-"+strings.ToLower(n.Key)] = "yes"
			}
		}
	}
	return h
}

func txnsFor(r *sim.Rand, c c05Case, hostile bool) []sim.Txn {
	var out []sim.Txn
	earlyOpts := []string{""}
	for _, fl := range c.Flows {
		for _, n := range fl.Nodes {
			if n.Kind == "VerifProbe" {
				earlyOpts = append(earlyOpts, n.Key)
			}
		}
	}
	for _, e := range earlyOpts {
		out = append(out, sim.Txn{Method: "GET", URL: "a.com/x", Headers: steerHeaders(c, e), Status: 200})
	}
	// a variant steering probes to condition "a" and filters to miss
	h := map[string]string{}
	for _, fl := range c.Flows {
		for _, n := range fl.Nodes {
			h["x-vp-"+strings.ToLower(n.Key)] = "c=a"
		}
	}
	out = append(out, sim.Txn{Method: "POST", URL: "a.com/x/y", Headers: h, Status: 500, Body: `{"n":"3"}`})
	if hostile {
		out = append(out,
			sim.Txn{Method: "", URL: "", Headers: map[string]string{}, Status: 0},
			sim.Txn{Method: "BREW", URL: "a.com/" + strings.Repeat("x/", 300) + "x", Headers: map[string]string{"x-g": strings.Repeat("g", 5000)}, Status: 999, Body: "{not json"},
			sim.Txn{Method: "GET", URL: "a.com/\xff\xfe/%zz", Query: "a=%zz&&=&b", Headers: map[string]string{"content-encoding": "gzip", "x-remaining": "abc", "x-reset": "-1"}, Status: -5, Body: "\x1f\x8b\x00garbage"},
			sim.Txn{Method: "GET", URL: "a.com//x//", Headers: map[string]string{"": "", "x-g": ""}, Status: 200, Body: `{"n":"99999999999999999999"}`},
			sim.Txn{Method: "GET", URL: "...", Headers: nil, Status: 200},
		)
	}
	return out
}

// ---- running ----------------------------------------------------------------------------------

func configOf(c c05Case) sim.Config {
	cfg := sim.Config{Flows: map[string]string{}, Quotas: map[string]string{}}
	for i, f := range c.Flows {
		cfg.Flows[fmt.Sprintf("f%d.yaml", i)] = f.YAML()
	}
	for k, v := range c.RawFlw {
		cfg.Flows[k] = v
	}
	for k, v := range c.Quotas {
		cfg.Quotas[k] = v
	}
	return cfg
}

func main() {
	if len(os.Args) > 1 && os.Args[1] == "-single" {
		runSingle(os.Args[2], os.Args[3])
		return
	}
	args := sim.ParseArgs()
	v := sim.NewVerdict("C05", args.Seed, args.Tier, args.Batch, args.Out)
	v.Rule = "case = flow/quota file set: (a) exhaustive core: every subset of the 8 possible connections over 2 processors in the request direction x every subset of 8 over 2 processors (one shared key) in the response direction (65 536 flows; quick tier samples them); (b) generated graphs with illegal conditions, undeclared processors, duplicate names/keys, rootless directions; (c) flow references incl. dangling and mutual, loaded in a child process; (d) quota files of every strategy with missing/invalid fields + Limiter/Queue/Retry on missing quotas. Accepted configurations get steering (incl. each probe answering early) and hostile transactions in both directions. non-trivial iff accepted and at least one processor executed; distinct by <kind, #connections, has-cycle?, rootless?, early-capable?, accepted-by>"
	v.Assumptions = []string{
		fmt.Sprintf("bounded number of processor executions = %d per transaction for graphs of <= 6 processors per direction", stepBound),
		"an error returned by ExecuteFlow is an acceptable outcome; a panic, a fatal error or exceeding the step bound is not",
		"rejections at validation time are never violations",
	}
	debug.SetMaxStack(64 << 20)
	root := sim.ScratchRoot("c05")
	defer os.RemoveAll(root)
	sim.BaseEnv()

	if args.Replay != "" {
		data, err := os.ReadFile(args.Replay)
		var wrap struct {
			Replay replay `json:"replay"`
		}
		if err == nil {
			err = json.Unmarshal(data, &wrap)
		}
		if err != nil {
			v.Inconclude(err.Error())
			os.Exit(v.Write())
		}
		runCase(wrap.Replay.Case, args, sim.NewRand(wrap.Replay.Seed), wrap.Replay.Config, v, root)
		os.Exit(v.Write())
	}

	nEx := 65536
	exTotal := args.Pick(7000, nEx)
	nGen := args.Pick(500, 6000)
	nRefs := args.Pick(36, 600)
	nQuota := args.Pick(300, 4000)
	total := exTotal + nGen + nRefs + nQuota + nParallel
	lo, hi := args.Share(total)
	v.Exhaustive = false
	v.Extra["exhaustive_core_complete"] = args.Thorough()
	for i := lo; i < hi; i++ {
		r := args.CaseRand(i)
		var c c05Case
		switch {
		case i < exTotal:
			m := i
			if !args.Thorough() {
				m = int(sim.NewRand(args.Seed*31+uint64(i)).U64() % uint64(nEx))
			}
			c = exhaustiveCase(m&255, m>>8)
			switch i % 4 { // the connection subsets are also run with the other filter clauses present
			case 1:
				c.Flows[0].FilterExtra = "  status_code: [200, 418]\n"
			case 2:
				c.Flows[0].FilterExtra = "  query_params:\n    - key: mode\n      value: fast\n"
			}
		case i < exTotal+nGen:
			c = genGenerated(r)
		case i < exTotal+nGen+nRefs:
			c = genRefs(r)
		case i < exTotal+nGen+nRefs+nQuota:
			if k := i - (exTotal + nGen + nRefs); k < nQuotaOrder {
				c = quotaOrderCase(k)
			} else {
				c = genQuota(r)
			}
		default:
			c = parallelCase(i - (exTotal + nGen + nRefs + nQuota))
		}
		runCase(i, args, r, c, v, root)
	}
	// (accepted / rejected / steps are required over the whole run by the driver: the exhaustive
	// index ranges of single batches can be all-rejected)
	os.Exit(v.Write())
}

type singleResult struct {
	Validated string `json:"validated"` // "ok" | error text
	Live      string `json:"live"`
}

// runSingle: child mode - load one configuration (validator + live loader), print the result.
func runSingle(caseFile, root string) {
	debug.SetMaxStack(64 << 20)
	sim.BaseEnv()
	data, _ := os.ReadFile(caseFile)
	var c c05Case
	_ = json.Unmarshal(data, &c)
	fmt.Println("loading", caseFile)
	var res singleResult
	flowsDir, _ := sim.WriteConfig(root, configOf(c))
	base := flowsDir[:strings.LastIndex(flowsDir, "/")]
	if err := validation.NewValidator().WithValidationDir(base).Validate(); err != nil {
		res.Validated = err.Error()
	} else {
		res.Validated = "ok"
	}
	out, _ := json.Marshal(res)
	fmt.Println("RESULT " + string(out))
}

func hasCycle(edges []sim.GEdge) bool {
	adj := map[string][]string{}
	for _, e := range edges {
		if e.From != "" && e.To != "" {
			adj[e.From] = append(adj[e.From], e.To)
		}
	}
	state := map[string]int{}
	var dfs func(string) bool
	dfs = func(n string) bool {
		state[n] = 1
		for _, m := range adj[n] {
			if state[m] == 1 || (state[m] == 0 && dfs(m)) {
				return true
			}
		}
		state[n] = 2
		return false
	}
	for n := range adj {
		if state[n] == 0 && dfs(n) {
			return true
		}
	}
	return false
}

func runCase(idx int, args sim.Args, r *sim.Rand, c c05Case, v *sim.Verdict, root string) {
	v.Eval(1)
	rp := replay{Case: idx, Seed: args.Seed, Config: c}
	if c.Kind == "refs" {
		// the loader itself may recurse without end: load in a child first
		cf := fmt.Sprintf("%s/case%d.json", root, idx)
		data, _ := json.Marshal(c)
		_ = os.WriteFile(cf, data, 0o644)
		cmd := exec.Command(os.Args[0], "-single", cf, root)
		out, err := cmd.CombinedOutput()
		_ = os.Remove(cf)
		if !strings.Contains(string(out), "RESULT ") {
			txt := string(out)
			if len(txt) > 1500 {
				txt = txt[:700] + "\n...\n" + txt[len(txt)-700:]
			}
			cause := "other"
			if strings.Contains(string(out), "stack exceeds") || strings.Contains(string(out), "stack overflow") {
				cause = "stack-overflow"
			}
			v.Violate("C05/loader-crashed/flow-references/"+cause, fmt.Sprintf("loading the configuration killed the process (%v): %s", err, txt), rp)
			v.Count("loader_crashes", 1)
			return
		}
		v.Count("loaded_in_child", 1)
	}
	cfg := configOf(c)
	flowsDir, _ := sim.WriteConfig(root, cfg)
	base := flowsDir[:strings.LastIndex(flowsDir, "/")]
	defer os.RemoveAll(base)

	var valErr error
	rp.Phase = "validate"
	if sim.Guard(v, "C05/panic/validator/"+c.Kind, rp, func() {
		valErr = validation.NewValidator().WithValidationDir(base).Validate()
	}) {
		return
	}
	var env2 *sim.StreamEnv
	var liveErr error
	rp.Phase = "load"
	if sim.Guard(v, "C05/panic/loader/"+c.Kind, rp, func() { env2, liveErr = sim.NewStreamEnvFromDirs(root, flowsDir) }) {
		return
	}
	sim.GlobalSink.Drain()
	switch {
	case valErr != nil && liveErr != nil:
		v.Count("rejected", 1)
		v.Count("rejected:"+c.Kind, 1)
		return
	case valErr == nil && liveErr != nil:
		v.Violate("C05/accepted-but-load-fails/"+c.Kind, fmt.Sprintf("validator accepted, live loader failed: %v", liveErr), rp)
		return
	case valErr != nil:
		v.Count("rejected_by_validator_only", 1)
	}
	v.Count("accepted", 1)
	v.Count("accepted:"+c.Kind, 1)
	cyc, rootless := false, false
	for _, f := range c.Flows {
		if hasCycle(f.Req) || hasCycle(f.Resp) {
			cyc = true
		}
		hasRoot := false
		for _, e := range f.Resp {
			if e.From == "" && e.FromFlow == "" && e.To != "" {
				hasRoot = true
			}
		}
		if len(f.Resp) > 0 && !hasRoot {
			rootless = true
		}
	}
	if cyc {
		v.Count("accepted_with_cycle_somewhere", 1)
	}
	executed := int64(0)
	for ti, t := range txnsFor(r, c, idx%7 == 0 || c.Kind == "quota") {
		for _, dir := range []string{"request", "response"} {
			tt := t
			tt.ID = fmt.Sprintf("c%d-%d", idx, ti)
			rp.Txn = &tt
			rp.Phase = dir
			steps.Store(0)
			fmt.Printf("case %d %s txn %d %s\n", idx, c.Kind, ti, dir)
			var gotErr error
			panicked := false
			func() {
				defer func() {
					if rec := recover(); rec != nil {
						panicked = true
						n := steps.Load()
						rp.Steps = n
						if s, ok := rec.(string); ok && s == "verif: step bound exceeded" {
							where := "request-path"
							if dir == "response" {
								where = "response-path"
							} else if strings.Contains(fmt.Sprint(tt.Headers), "a=early") {
								where = "response-path-after-early-response"
							}
							v.Violate("C05/unbounded-execution/"+where, fmt.Sprintf("more than %d processor executions for one %s (the walk does not terminate)", stepBound, dir), rp)
						} else {
							st := string(debug.Stack())
							v.Violate("C05/panic/execute/"+dir+"/"+c.Kind, fmt.Sprintf("panic: %v\n%s", rec, st), rp)
						}
					}
				}()
				if dir == "request" {
					gotErr = env2.OnRequest(tt).Err
				} else {
					gotErr = env2.OnResponse(tt).Err
				}
			}()
			sim.GlobalSink.Drain()
			executed += steps.Load()
			if panicked {
				return
			}
			if gotErr != nil {
				v.Count("execute_returned_error", 1)
			}
			v.Count("transactions", 1)
		}
	}
	v.Count("steps", int(executed))
	if executed > 0 {
		nEdges := 0
		early := false
		for _, f := range c.Flows {
			nEdges += len(f.Req) + len(f.Resp)
			for _, n := range f.Nodes {
				if n.Kind == "VerifProbe" {
					early = true
				}
			}
		}
		v.Distinct(fmt.Sprintf("%s/e%d/c%v/r%v/y%v/v%v", c.Kind, nEdges, cyc, rootless, early, valErr == nil))
	}
	if idx%997 == 0 {
		v.Sample(rp)
	} else if executed > 0 {
		v.SampleFirst(rp)
	}
}
