// C05 (L1 slice) - hostile transactions through the real SPOE message handler.
//
// The L2 part of C05 calls Stream.ExecuteFlow with header maps built by the harness; the engine itself gets
// its transactions as SPOE messages whose arguments it parses first (header block -> map, status, body).
// Here the real routing.Handler is fed messages with header blocks that do not parse, missing and ill-typed
// arguments, odd methods/URLs and binary bodies, over accepted flows whose processors write headers, change
// the request, answer early or sanitise bodies. Oracle: the handler returns (actions or nothing) - a panic in
// the handler, a dead process or a handler that does not return is a violation.
package main

import (
	"fmt"
	"os"
	"strings"
	"time"

	"verif/harness/sim"
)

const transformFlow = `name: tflow
filter:
  url: "t.com/*"
processors:
  addKey:
    processor: TransformAPICall
    parameters:
      - key: set
        value:
          "$.request.headers['x-api-key']": "123456"
flow:
  request:
    - from:
        stream:
          name: globalStream
          at: start
      to:
        processor:
          name: addKey
    - from:
        processor:
          name: addKey
      to:
        stream:
          name: globalStream
          at: end
  response:
    - from:
        stream:
          name: globalStream
          at: start
      to:
        stream:
          name: globalStream
          at: end
`

func probeFlow(name, host string) string {
	return fmt.Sprintf(`name: %[1]s
filter:
  url: "%[2]s/*"
processors:
  P1:
    processor: VerifProbe
  G:
    processor: GenerateResponse
    parameters:
      - key: status
        value: 418
  M1:
    processor: VerifProbe
flow:
  request:
    - from:
        stream:
          name: globalStream
          at: start
      to:
        processor:
          name: P1
    - from:
        processor:
          name: P1
          condition: a
      to:
        processor:
          name: G
    - from:
        processor:
          name: P1
      to:
        stream:
          name: globalStream
          at: end
  response:
    - from:
        processor:
          name: G
      to:
        processor:
          name: M1
    - from:
        stream:
          name: globalStream
          at: start
      to:
        processor:
          name: M1
    - from:
        processor:
          name: M1
      to:
        stream:
          name: globalStream
          at: end
`, name, host)
}

type replay struct {
	Case    int      `json:"case"`
	Seed    uint64   `json:"seed"`
	Message string   `json:"message"`
	Args    []string `json:"arguments"`
}

func main() {
	sim.ReexecWithEngineEnv(true)
	args := sim.ParseArgs()
	v := sim.NewVerdict("C05", args.Seed, args.Tier, args.Batch, args.Out)
	v.Rule = "L1 slice: case = one SPOE message (lunar-on-request / lunar-on-response) with generated arguments - header blocks that do not parse (no colon, NUL and control bytes, non-UTF-8 values, folded lines, LF-only line ends, very long lines, thousands of lines, empty names), odd methods and URLs, binary and oversized bodies - over accepted flows (TransformAPICall writing a header, probe chains changing headers/request/response or answering early through GenerateResponse); non-trivial iff the header block is malformed; argument names and types are always those haproxy.cfg sends (a missing or ill-typed argument is a deployment error, not traffic); distinct by <message, defect kinds>"
	v.Assumptions = []string{"the handler is called in-process, as the SPOE agent library calls it per message; a panic there is a violation (the worker has no recover)"}
	eng, err := sim.BootEngine(sim.Config{Flows: map[string]string{"t.yaml": transformFlow, "p.yaml": probeFlow("pflow", "p.com")}, Quotas: map[string]string{}})
	if err != nil {
		v.Inconclude("engine did not boot: " + err.Error())
		os.Exit(v.Write())
	}
	total := args.Pick(4000, 120000)
	lo, hi := args.Share(total)
	for i := lo; i < hi; i++ {
		r := args.CaseRand(700_000 + i)
		v.Eval(1)
		name := "lunar-on-request"
		if r.Chance(1, 3) {
			name = "lunar-on-response"
		}
		kinds := map[string]bool{}
		host := sim.Pick(r, []string{"t.com", "p.com", "p.com", "none.org"})
		url := host + sim.Pick(r, []string{"/x", "/x/y", "", "/", "//x//", "/\xff\xfe/%zz", "/" + strings.Repeat("s/", 200)})
		// header block
		var hdr any
		steer := sim.Pick(r, []string{"", "x-vp-p1: c=a\r\n", "x-vp-p1: c=|a=modreq:a=1\r\n", "x-vp-p1: c=|a=modhdr:b=2\r\n", "x-vp-m1: c=|a=modresp:z=9\r\n"})
		switch r.Intn(12) {
		case 0:
			hdr = steer + "host: " + host + "\r\naccept: */*\r\n"
		case 1:
			hdr = steer + "this line has no colon\r\n"
			kinds["header-line-without-colon"] = true
		case 2:
			hdr = "\x00\xff: x\r\n" + steer
			kinds["control-bytes-in-name"] = true
		case 3:
			hdr = steer + "a: b\r\n continued\r\n\tmore\r\n: empty-name\r\n"
			kinds["folded-and-empty-name"] = true
		case 4:
			hdr = steer + "x-long: " + strings.Repeat("v", r.Range(5000, 70000)) + "\r\n"
			kinds["very-long-line"] = true
		case 5:
			hdr = ""
			kinds["empty-block"] = true
		case 6:
			hdr = steer + "x-bin: \xff\xfe\x80\r\nx-nul: a\x00b\r\n"
			kinds["non-utf8-value"] = true
		case 7:
			hdr = steer + "no-crlf: 1\nlf-only: 2\n"
			kinds["lf-only-line-ends"] = true
		case 8:
			hdr = steer + "a b c: d\r\nkey with space: v\r\n"
			kinds["space-in-name"] = true
		case 9:
			hdr = steer + "dup: 1\r\ndup: 2\r\nDup: 3\r\n"
		case 10:
			hdr = steer + strings.Repeat("h: v\r\n", r.Range(500, 3000))
			kinds["thousands-of-lines"] = true
		default:
			hdr = steer + "content-length: nope\r\ncontent-encoding: gzip\r\n\r\nbody-after-blank: x\r\n"
			kinds["blank-line-inside"] = true
		}
		id := fmt.Sprintf("h%d", i)
		kvs := [][2]any{}
		add := func(k string, val any) { kvs = append(kvs, [2]any{k, val}) }
		add("id", id)
		add("sequence_id", id)
		method := sim.Pick(r, []string{"GET", "POST", "", "BREW", "get", strings.Repeat("M", 300)})
		add("method", method)
		if name == "lunar-on-request" {
			add("scheme", sim.Pick(r, []string{"https", "http"}))
			add("url", url)
			add("path", "/x")
			add("query", sim.Pick(r, []string{"", "a=%zz&&=&b", strings.Repeat("q=1&", 500)}))
		} else {
			add("url", url)
			add("status", int64(sim.Pick(r, []int{200, 500, 999, 0, -5})))
		}
		if hdr != nil {
			add("headers", hdr)
		}
		switch r.Intn(5) {
		case 0:
			add("body", []byte{})
		case 2:
			add("body", []byte("\x1f\x8b\x00garbage"))
		case 3:
			add("body", []byte(strings.Repeat("B", r.Range(10000, 200000))))
		default:
			add("body", []byte(`{"n":"3"}`))
		}
		done := make(chan any, 1)
		go func() {
			_, p := eng.SendKV(name, kvs)
			done <- p
		}()
		var rp replay
		descr := func() replay {
			rp = replay{Case: i, Seed: args.Seed, Message: name}
			for _, p := range kvs {
				s := fmt.Sprintf("%s=%T:%.120q", p[0], p[1], fmt.Sprint(p[1]))
				rp.Args = append(rp.Args, s)
			}
			return rp
		}
		select {
		case p := <-done:
			if p != nil {
				v.Violate("C05/l1/panic-in-message-handler/"+strings.Join(sim.SortedKeys(kinds), "+"), fmt.Sprintf("routing.Handler panicked on a %s message: %v", name, p), descr())
				os.Exit(v.Write())
			}
		case <-time.After(60 * time.Second):
			v.Inconclude(fmt.Sprintf("case %d: the handler did not return within the watchdog", i))
			os.Exit(v.Write())
		}
		v.Count("messages", 1)
		for k := range kinds {
			v.Count("hostile:"+k, 1)
		}
		if len(kinds) > 0 {
			v.Distinct(name + "/" + strings.Join(sim.SortedKeys(kinds), "+"))
		}
		if i%499 == 0 {
			v.Sample(descr())
		}
	}
	os.Exit(v.Write())
}
