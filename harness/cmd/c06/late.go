package main

// Expiry while the processing loop holds the request (forced interleaving) + the watcher's sleep invariant.
//
// The processing loop pops a waiter, marks it "processing" and consults the quota; the quota reads the
// clock. The virtual clock parks that read (sim.VClock.ArmNowGateFor), so the loop holds the waiter while
// the controller moves the clock past the waiter's expiry. The TTL watcher (real timers) then finds the
// waiter expired but cannot take it. What it does next is observable through the "queue.watcher-wait"
// hook, which reports the sleep the watcher arms.
//
// Oracle (logical, no wall clock): the watcher never goes to sleep for a positive duration while a
// request that was on its list before its previous sleep, and has not been given a verdict, is already
// past its expiry. With that invariant the verdict of a request that expires while it is held follows
// within the watcher's next wake-up after the loop lets go - "no later than its time-to-live (plus
// scheduling slack)" - instead of one more full TTL later.

import (
	"context"
	"fmt"
	"strconv"
	"strings"
	"sync"
	"time"

	contextmanager "lunar/toolkit-core/context-manager"
	"lunar/toolkit-core/verifhook"

	"verif/harness/sim"
)

type stamped struct {
	Kind string   `json:"kind"`
	Args []string `json:"args"`
	AtMs int64    `json:"virtual_ms"`
}

type lateReplay struct {
	Case     int       `json:"case"`
	Seed     uint64    `json:"seed"`
	Kind     string    `json:"kind"`
	TTLS     int64     `json:"ttl_s"`
	WindowS  int64     `json:"window_s"`
	Waiters  []arrival `json:"waiters"`
	JumpToMs int64     `json:"clock_moved_to_ms_while_loop_held_a_waiter"`
	Held     bool      `json:"loop_parked_in_quota_check"`
	Log      []stamped `json:"hook_events,omitempty"`
}

func lateCase(idx int, args sim.Args, r *sim.Rand, v *sim.Verdict, root string) {
	v.Eval(1)
	const tick = 100 * time.Millisecond
	scn := scenario{QuotaMax: 1, WindowS: int64(r.Range(3, 4)), Size: 4, TTLS: 1}
	rp := lateReplay{Case: idx, Seed: args.Seed, Kind: "expiry-while-the-processing-loop-holds-the-request", TTLS: scn.TTLS, WindowS: scn.WindowS}
	clk := sim.NewVClock(t0)
	sim.UseClock(clk)
	ctx, cancel := context.WithCancel(context.Background())
	contextmanager.Get().WithContext(ctx)
	defer cancel()
	nowMs := func() int64 { return clk.Now().Sub(t0).Milliseconds() }
	prefix := fmt.Sprintf("late%d-", idx)
	var mu sync.Mutex
	var log []stamped
	sim.GlobalSink.Drain()
	sim.GlobalSink.OnEach(func(e verifhook.Event) {
		if !strings.HasPrefix(e.Kind, "queue.") {
			return
		}
		// (the clock read below is never the gated one: the gate is armed for the quota check only)
		mu.Lock()
		if n := len(log); e.Kind == "queue.watcher-wait" && n > 0 && log[n-1].Kind == e.Kind && log[n-1].Args[0] == e.Args[0] && len(e.Args) > 1 && len(log[n-1].Args) > 1 && log[n-1].Args[1] == e.Args[1] && log[n-1].AtMs == clk.Now().Sub(t0).Milliseconds() && e.Args[0] == "0" {
			mu.Unlock() // the watcher re-arming the same sleep at the same instant (it spins on an expired entry)
			return
		}
		log = append(log, stamped{Kind: e.Kind, Args: append([]string{}, e.Args...), AtMs: clk.Now().Sub(t0).Milliseconds()})
		mu.Unlock()
	})
	defer sim.GlobalSink.OnEach(nil)
	verifhook.SetYield(nil)
	snapshot := func() []stamped {
		mu.Lock()
		defer mu.Unlock()
		return append([]stamped{}, log...)
	}
	waitEvent := func(pred func(stamped) bool, from int, watchdog time.Duration) (int, bool) {
		deadline := time.Now().Add(watchdog)
		for {
			l := snapshot()
			for i := from; i < len(l); i++ {
				if pred(l[i]) {
					return i, true
				}
			}
			if time.Now().After(deadline) {
				return 0, false
			}
			time.Sleep(300 * time.Microsecond)
		}
	}
	env, err := sim.NewStreamEnv(root, sim.Config{Quotas: map[string]string{"q.yaml": quotaYAML(scn)}, Flows: map[string]string{"f.yaml": flowYAML(scn)}})
	if err != nil {
		v.Inconclude("late case: configuration rejected: " + err.Error())
		return
	}
	defer env.Cleanup()
	watchdog := 8 * time.Second
	if !clk.WaitArmed(tick, 1, watchdog) {
		v.Inconclude("late case: processing loop did not start")
		return
	}
	doTick := func() bool {
		for _, p := range clk.Pending() {
			if p.D == tick {
				before := clk.Armed(tick)
				if p.Deadline.After(clk.Now()) {
					clk.Set(p.Deadline)
				}
				clk.Fire(p.ID)
				return clk.WaitArmed(tick, before+1, watchdog)
			}
		}
		return false
	}
	// a quarter of the cases start after an idle period: the watcher has woken once with nobody on its list and
	// armed its next sleep before the first request arrives (real wait of about one TTL; watchdog = inconclusive)
	if idx%4 == 0 {
		if _, ok := waitEvent(func(s stamped) bool { return s.Kind == "queue.watcher-wait" }, 0, watchdog); ok {
			first := -1
			for i, s := range snapshot() {
				if s.Kind == "queue.watcher-wait" {
					first = i
					break
				}
			}
			if _, ok := waitEvent(func(s stamped) bool { return s.Kind == "queue.watcher-wait" }, first+1, time.Duration(scn.TTLS)*time.Second+watchdog); ok {
				v.Count("late_cases_started_after_an_idle_watcher_wake_up", 1)
				rp.Kind += "/after-an-idle-period"
			}
		}
	}
	// the slot of the window goes to a first request (queued, admitted by the next iteration), then 1-2 waiters queue up
	clk.Set(clk.Now().Add(20 * time.Millisecond))
	firstDone := make(chan bool, 1)
	go func() {
		res := env.OnRequest(sim.Txn{ID: prefix + "first", Method: "GET", URL: "a.com/x", Headers: map[string]string{"x-prio": "hi"}})
		firstDone <- res.Early == nil && res.Err == nil
	}()
	if _, ok := waitEvent(func(s stamped) bool { return s.Kind == "queue.registered" && s.Args[0] == prefix+"first" }, 0, watchdog); !ok {
		select {
		case <-firstDone: // admitted without queueing: fine as well
			firstDone <- true
		default:
			v.Inconclude("late case: the first request neither registered nor returned")
			return
		}
	} else if !doTick() {
		v.Inconclude("late case: processing loop did not finish its first iteration")
		return
	}
	select {
	case okv := <-firstDone:
		if !okv {
			v.Inconclude("late case: the first request of a fresh window was not admitted")
			return
		}
	case <-time.After(watchdog):
		v.Inconclude("late case: the first request got no verdict")
		return
	}
	nW := r.Range(1, 2)
	done := make([]chan bool, nW)
	at := nowMs()
	for j := 0; j < nW; j++ {
		at += int64(r.Range(1, 25))
		a := arrival{ID: fmt.Sprintf("w%d", j), AtMs: at, Prio: sim.Pick(r, []string{"hi", "lo"})}
		clk.Set(t0.Add(time.Duration(at) * time.Millisecond))
		done[j] = make(chan bool, 1)
		id := prefix + a.ID
		from := len(snapshot())
		go func(ch chan bool, prio string) {
			res := env.OnRequest(sim.Txn{ID: id, Method: "GET", URL: "a.com/x", Headers: map[string]string{"x-prio": prio}})
			ch <- res.Early == nil && res.Err == nil
		}(done[j], a.Prio)
		if _, ok := waitEvent(func(s stamped) bool { return s.Kind == "queue.registered" && s.Args[0] == id }, from, watchdog); !ok {
			v.Inconclude("late case: waiter did not register")
			return
		}
		a.Registered, a.RegMs = true, at
		rp.Waiters = append(rp.Waiters, a)
	}
	// a few ordinary iterations (every waiter stays blocked: the window is used up)
	for i := 0; i < r.Range(1, 4); i++ {
		if !doTick() {
			v.Inconclude("late case: processing loop did not finish an iteration")
			return
		}
	}
	// wait until the watcher has armed a sleep that ends at the first expiry (it then polls only once
	// that sleep is over, which leaves the controller real time to stage the interleaving)
	firstExp := rp.Waiters[0].AtMs + scn.TTLS*1000
	idxArm, ok := waitEvent(func(s stamped) bool {
		if s.Kind != "queue.watcher-wait" {
			return false
		}
		d, _ := strconv.ParseInt(s.Args[0], 10, 64)
		return d > int64(150*time.Millisecond) && d < int64(scn.TTLS)*int64(time.Second)
	}, 0, watchdog)
	if !ok {
		// (a watcher that sleeps far beyond the newcomers' TTL is the one way to get here that is a finding)
		lastTargetMs := int64(-1)
		l := snapshot()
		for i, s := range l {
			switch s.Kind {
			case "queue.watcher-wait":
				if len(s.Args) > 1 {
					if target, _ := strconv.ParseInt(s.Args[1], 10, 64); target != 0 {
						lastTargetMs = (target - t0.UnixNano()) / int64(time.Millisecond)
					}
				}
			case "queue.registered":
				if lastTargetMs >= 0 && lastTargetMs > s.AtMs+scn.TTLS*1000+1 {
					rp.Log = tail(l[:i+1], 30)
					v.Violate("C06/verdict-late/watcher-asleep-beyond-the-ttl-of-a-new-waiter",
						fmt.Sprintf("%s joined the watch list at %d ms (TTL %d s) while the TTL watcher sleeps until %d ms: its time-out verdict cannot come before that", strings.TrimPrefix(s.Args[0], prefix), s.AtMs, scn.TTLS, lastTargetMs), rp)
					return
				}
			}
		}
		v.Inconclude("late case: the TTL watcher never armed a sleep towards the first expiry")
		return
	}
	// the loop takes a waiter and parks inside the quota check; the clock passes the expiry meanwhile
	rp.JumpToMs = firstExp + int64(r.Range(1, 50))
	if nW == 2 && r.Bool() {
		rp.JumpToMs = rp.Waiters[1].AtMs + scn.TTLS*1000 + int64(r.Range(1, 30)) // both expire
	}
	clk.ArmNowGateFor("processQueueItem")
	var tickTimer uint64
	for _, p := range clk.Pending() {
		if p.D == tick {
			tickTimer = p.ID
		}
	}
	clk.Set(t0.Add(time.Duration(rp.JumpToMs) * time.Millisecond))
	clk.Fire(tickTimer)
	rp.Held = clk.WaitNowGateParked(2 * time.Second)
	if rp.Held {
		v.Count("late_loop_parked_holding_a_waiter_across_its_expiry", 1)
		// the watcher wakes, finds the expiry passed, cannot take the held waiter, and arms its next sleep
		_, _ = waitEvent(func(s stamped) bool { return s.Kind == "queue.watcher-wait" && s.AtMs >= rp.JumpToMs }, idxArm+1, 3*time.Second)
	}
	clk.OpenNowGate()
	// every waiter gets its verdict (real-time watchdog only bounds the wait)
	order := []int{}
	for j := range rp.Waiters { // first those whose expiry has passed, then - after moving the clock - the others
		if rp.Waiters[j].AtMs+scn.TTLS*1000 < rp.JumpToMs {
			order = append(order, j)
		}
	}
	for j := range rp.Waiters {
		if rp.Waiters[j].AtMs+scn.TTLS*1000 >= rp.JumpToMs {
			order = append(order, j)
		}
	}
	for _, j := range order {
		if exp := rp.Waiters[j].AtMs + scn.TTLS*1000; exp >= nowMs() {
			clk.Set(t0.Add(time.Duration(exp+20) * time.Millisecond))
		}
		select {
		case okv := <-done[j]:
			rp.Waiters[j].Verdict = map[bool]string{true: "allowed", false: "blocked"}[okv]
			rp.Waiters[j].VerdictMs = nowMs()
		case <-time.After(time.Duration(scn.TTLS)*3*time.Second + 6*time.Second):
			rp.Log = tail(snapshot(), 40)
			v.Violate("C06/no-verdict", fmt.Sprintf("late case: waiter %s got no verdict although its expiry (%d ms) has passed (now %d ms)", rp.Waiters[j].ID, rp.Waiters[j].AtMs+scn.TTLS*1000, nowMs()), rp)
			return
		}
	}
	v.Count("late_cases", 1)
	// ---- the sleep invariant over the recorded hook events
	l := snapshot()
	type reqInfo struct {
		reg, sig int
		exp      int64
	}
	reqs := map[string]*reqInfo{}
	for _, w := range rp.Waiters {
		reqs[prefix+w.ID] = &reqInfo{reg: -1, sig: 1 << 30, exp: w.AtMs + scn.TTLS*1000}
	}
	prevArm := -1
	arms := 0
	lastTargetMs := int64(-1)
	for i, s := range l {
		switch s.Kind {
		case "queue.registered":
			if q := reqs[s.Args[0]]; q != nil && q.reg < 0 {
				q.reg = i
			}
			// the sleep the watcher is in when a request joins its list must end no later than one TTL after that
			// instant (it armed it at an instant a <= now as min(a + TTL, earliest expiry)), or the newcomer's
			// verdict waits for a wake-up that has nothing to do with it. Logical: the watcher's own target against
			// the virtual instant of the registration.
			if lastTargetMs >= 0 && lastTargetMs > s.AtMs+scn.TTLS*1000+1 {
				rp.Log = tail(l[:i+1], 30)
				v.Violate("C06/verdict-late/watcher-asleep-beyond-the-ttl-of-a-new-waiter",
					fmt.Sprintf("%s joined the watch list at %d ms (TTL %d s) while the TTL watcher sleeps until %d ms: its time-out verdict cannot come before that", strings.TrimPrefix(s.Args[0], prefix), s.AtMs, scn.TTLS, lastTargetMs), rp)
				return
			}
		case "queue.signalled":
			if q := reqs[s.Args[0]]; q != nil && q.sig == 1<<30 {
				q.sig = i
			}
		case "queue.watcher-wait":
			arms++
			var target int64
			if len(s.Args) > 1 {
				target, _ = strconv.ParseInt(s.Args[1], 10, 64)
			}
			targetMs := (target - t0.UnixNano()) / int64(time.Millisecond)
			if target != 0 {
				lastTargetMs = targetMs
			}
			if prevArm >= 0 && target != 0 {
				for id, q := range reqs {
					// (q.exp is the expiry the watcher holds: creation instant + TTL, in ms since t0; the
					// comparison uses the watcher's own target, no time stamp of this harness)
					if q.reg >= 0 && q.reg < prevArm && q.sig > i && targetMs > q.exp {
						rp.Log = tail(l[:i+1], 30)
						v.Violate("C06/verdict-late/watcher-sleeps-past-an-expired-request",
							fmt.Sprintf("the TTL watcher went to sleep until %d ms although %s, on its list since before its previous sleep and still without a verdict, expires at %d ms: its verdict comes late by up to one TTL", targetMs, strings.TrimPrefix(id, prefix), q.exp), rp)
						return
					}
				}
			}
			prevArm = i
		}
	}
	v.Count("late_watcher_sleeps_checked", arms)
	for _, w := range rp.Waiters {
		if w.Verdict == "allowed" {
			rp.Log = tail(l, 30)
			v.Violate("C06/admitted-over-quota", fmt.Sprintf("late case: waiter %s was admitted although the window's only slot was taken", w.ID), rp)
			return
		}
	}
	v.Distinct(fmt.Sprintf("late/w%d/held=%v/both=%v", nW, rp.Held, rp.JumpToMs > firstExp+60))
	if idx%23 == 0 {
		rp.Log = tail(l, 12)
		v.Sample(rp)
	}
}

func tail(l []stamped, n int) []stamped {
	if len(l) > n {
		return l[len(l)-n:]
	}
	return l
}
