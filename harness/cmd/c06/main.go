// C06 - queued requests: one verdict within TTL, priority order, bounded queue, safe shutdown.
//
// Real streams.Stream with a Queue processor on a fixed-window quota. The processing loop runs on
// a virtual clock (one 100 ms iteration at a time); callers block in their own goroutines; hook
// events tell the controller who registered and who was signalled, yield hooks park a caller between
// the slot check and its registration, and park the asynchronous clean-up goroutine. Scenarios that
// cancel the engine context (shutdown) run in a child process because the expected failure mode is a
// process-fatal panic.
package main

import (
	"context"
	"encoding/json"
	"fmt"
	"os"
	"os/exec"
	"sort"
	"strings"
	"sync"
	"time"

	contextmanager "lunar/toolkit-core/context-manager"
	"lunar/toolkit-core/verifhook"

	"verif/harness/sim"
)

type arrival struct {
	ID   string `json:"id"`
	AtMs int64  `json:"at_ms"`
	Prio string `json:"prio"` // hi (0) | mid (2) | lo (3) | p4 | p5
	// Wire: the request id sent to the engine when it is not ID: the id of an earlier request of this scenario that
	// has had its verdict long before (ids repeat in real traffic once a transaction is over)
	Wire      string `json:"wire_id,omitempty"`
	HoldCheck bool   `json:"hold_between_slot_check_and_registration,omitempty"`
	HoldRm    bool   `json:"hold_cleanup_goroutine,omitempty"`
	// observations
	Registered bool   `json:"registered,omitempty"`
	RegSeq     int    `json:"reg_seq,omitempty"`
	RegMs      int64  `json:"reg_ms,omitempty"`
	Verdict    string `json:"verdict,omitempty"` // allowed | blocked
	VerdictMs  int64  `json:"verdict_ms,omitempty"`
	Signal     string `json:"signal,omitempty"` // success | timeout | "" (never queued)
}

type scenario struct {
	QuotaMax   int64     `json:"quota_max"`
	WindowS    int64     `json:"window_s"`
	Size       int64     `json:"queue_size"`
	TTLS       int64     `json:"ttl_s"`
	Arrivals   []arrival `json:"arrivals"`
	CancelAtMs int64     `json:"cancel_at_ms,omitempty"` // 0 = no shutdown
	EndMs      int64     `json:"end_ms"`
	Inconcl    string    `json:"inconclusive,omitempty"`
	TicksNoAdm []int64   `json:"ticks_without_admission,omitempty"`
	Serialized int       `json:"parked_caller_blocked_the_next_one,omitempty"`
}

type replay struct {
	Case int      `json:"case"`
	Seed uint64   `json:"seed"`
	Scn  scenario `json:"scenario"`
}

var t0 = time.Date(2026, 3, 1, 12, 0, 0, 0, time.UTC)

func prioNum(p string) int {
	switch p {
	case "hi":
		return 0 // configured explicitly as priority 0, the highest
	case "mid":
		return 2
	case "lo":
		return 3
	case "p4":
		return 4
	case "p5":
		return 5
	}
	return 3
}

func wireOf(a *arrival) string {
	if a.Wire != "" {
		return a.Wire
	}
	return a.ID
}

// genReuse: the first request is admitted at once; its id comes back later, behind waiters of the same priority
// that arrived in between, while the window is used up. The next window admits exactly one of them.
func genReuse(r *sim.Rand) scenario {
	s := scenario{QuotaMax: 1, WindowS: 2, Size: int64(r.Range(3, 5)), TTLS: 2}
	prio := sim.Pick(r, []string{"hi", "lo", "p4"})
	at := int64(r.Range(20, 60))
	s.Arrivals = append(s.Arrivals, arrival{ID: "q0", AtMs: at, Prio: prio})
	n := r.Range(1, 3)
	for i := 1; i <= n; i++ {
		at += int64(r.Range(40, 300))
		if at%100 == 0 {
			at += 7
		}
		s.Arrivals = append(s.Arrivals, arrival{ID: fmt.Sprintf("q%d", i), AtMs: at, Prio: prio})
	}
	at += int64(r.Range(40, 300))
	if at%100 == 0 {
		at += 7
	}
	s.Arrivals = append(s.Arrivals, arrival{ID: fmt.Sprintf("q%d", n+1), Wire: "q0", AtMs: at, Prio: prio})
	s.EndMs = at + (s.TTLS+s.WindowS)*1000 + 500
	return s
}

// genHeadTimesOut: the best waiter arrived first and times out while worse ones, that came later and in an order
// that is not their priority order, are still waiting; the window opens right after. The waiting structure loses
// its head from the middle of a history and must still hand out the best of the rest.
func genHeadTimesOut(r *sim.Rand) scenario {
	s := scenario{QuotaMax: 1, WindowS: 2, Size: 8, TTLS: 1}
	s.Arrivals = append(s.Arrivals, arrival{ID: "q0", AtMs: int64(r.Range(20, 60)), Prio: sim.Pick(r, []string{"hi", "lo"})})
	s.Arrivals = append(s.Arrivals, arrival{ID: "q1", AtMs: int64(r.Range(860, 940)), Prio: "hi"})
	at := int64(r.Range(1040, 1100))
	n := r.Range(3, 5)
	for i := 0; i < n; i++ {
		prio := "p5"
		if i > 0 {
			prio = sim.Pick(r, []string{"mid", "lo", "p4", "mid"})
		}
		if at%100 == 0 {
			at += 7
		}
		s.Arrivals = append(s.Arrivals, arrival{ID: fmt.Sprintf("q%d", i+2), AtMs: at, Prio: prio})
		at += int64(r.Range(60, 160))
	}
	s.EndMs = at + (s.TTLS+s.WindowS)*1000 + 500
	return s
}

func genScenario(r *sim.Rand, shutdown bool) scenario {
	if !shutdown && r.Chance(1, 8) {
		return genReuse(r)
	}
	if !shutdown && r.Chance(1, 8) {
		return genHeadTimesOut(r)
	}
	s := scenario{QuotaMax: int64(r.Range(1, 2)), WindowS: int64(r.Range(1, 2)), Size: int64(r.Range(1, 4)), TTLS: int64(r.Range(1, 2))}
	if !shutdown && r.Chance(1, 3) {
		return genLongQueue(r)
	}
	n := r.Range(2, 7)
	at := int64(r.Range(20, 80))
	holdUsed := false
	for i := 0; i < n; i++ {
		a := arrival{ID: fmt.Sprintf("q%d", i), AtMs: at, Prio: sim.Pick(r, []string{"hi", "lo", "lo"})}
		if !shutdown && !holdUsed && r.Chance(1, 4) {
			a.HoldCheck = true
			holdUsed = true
		}
		if shutdown && r.Chance(1, 2) {
			a.HoldRm = true
		}
		s.Arrivals = append(s.Arrivals, a)
		switch r.Intn(4) {
		case 0:
			at += int64(r.Range(1, 9))
		case 1:
			at += int64(r.Range(10, 95))
		case 2:
			at += int64(r.Range(100, 600))
		default:
			at += int64(r.Range(1, 3))
		}
		if at%100 == 0 {
			at += 7
		}
	}
	s.EndMs = at + (s.TTLS+s.WindowS)*1000 + 500
	if shutdown {
		// the shutdown happens after the last arrival: requests that reach the queue after the
		// engine began to shut down are outside "releases all waiters"
		lastAt := s.Arrivals[len(s.Arrivals)-1].AtMs
		s.CancelAtMs = (lastAt/100+int64(r.Range(1, 14)))*100 + 50
		if s.CancelAtMs > s.EndMs-300 {
			s.EndMs = s.CancelAtMs + 400
		}
	}
	return s
}

// genLongQueue: window 2 s, TTL 1 s, up to 8 waiters of three priorities arriving all over the first window.
// Early arrivals time out - and are removed from the middle of the heap - while later ones keep waiting;
// the window then opens with 5+ waiters of mixed priority left, admitted 1-3 per window (order is judged
// on every admission).
func genLongQueue(r *sim.Rand) scenario {
	s := scenario{QuotaMax: int64(r.Range(1, 3)), WindowS: 2, Size: 8, TTLS: 1}
	var ats []int64
	n := r.Range(10, 13)
	for i := 0; i < n; i++ {
		at := int64(r.Range(30, 1960))
		if i < int(s.QuotaMax) {
			at = int64(r.Range(20, 60)) // these use up the first window
		}
		if at%100 == 0 {
			at += 7
		}
		ats = append(ats, at)
	}
	sort.Slice(ats, func(i, j int) bool { return ats[i] < ats[j] })
	for i, at := range ats {
		if i > 0 && at <= ats[i-1] {
			at = ats[i-1] + 1
			ats[i] = at
		}
		s.Arrivals = append(s.Arrivals, arrival{ID: fmt.Sprintf("q%d", i), AtMs: at, Prio: sim.Pick(r, []string{"hi", "mid", "lo", "p4", "p5"})})
	}
	s.EndMs = ats[len(ats)-1] + (s.TTLS+s.WindowS)*1000 + 500
	return s
}

func quotaYAML(s scenario) string {
	return fmt.Sprintf("quotas:\n  - id: qq\n    filter:\n      url: a.com/*\n    strategy:\n      fixed_window:\n        max: %d\n        interval: %d\n        interval_unit: second\n", s.QuotaMax, s.WindowS)
}

func flowYAML(s scenario) string {
	return fmt.Sprintf(`name: qflow
filter:
  url: a.com/*
processors:
  Q:
    processor: Queue
    parameters:
      - key: quota_id
        value: qq
      - key: ttl_seconds
        value: %d
      - key: queue_size
        value: %d
      - key: priority_group_by_header
        value: x-prio
      - key: priority_groups
        value:
          hi: 0
          mid: 2
          lo: 3
          p4: 4
          p5: 5
  TooMany:
    processor: GenerateResponse
    parameters:
      - key: status
        value: 429
flow:
  request:
    - from:
        stream:
          name: globalStream
          at: start
      to:
        processor:
          name: Q
    - from:
        processor:
          name: Q
          condition: blocked
      to:
        processor:
          name: TooMany
    - from:
        processor:
          name: Q
          condition: allowed
      to:
        stream:
          name: globalStream
          at: end
  response:
    - from:
        processor:
          name: TooMany
      to:
        stream:
          name: globalStream
          at: end
`, s.TTLS, s.Size)
}

// ---- event plumbing ---------------------------------------------------------------------------

type bus struct {
	mu     sync.Mutex
	events []verifhook.Event
}

func (b *bus) add(e verifhook.Event) {
	b.mu.Lock()
	b.events = append(b.events, e)
	b.mu.Unlock()
}

// take removes and returns the first event matching pred, waiting up to the real-time watchdog.
func (b *bus) take(pred func(verifhook.Event) bool, watchdog time.Duration) (verifhook.Event, bool) {
	deadline := time.Now().Add(watchdog)
	for {
		b.mu.Lock()
		for i, e := range b.events {
			if pred(e) {
				b.events = append(b.events[:i], b.events[i+1:]...)
				b.mu.Unlock()
				return e, true
			}
		}
		b.mu.Unlock()
		if time.Now().After(deadline) {
			return verifhook.Event{}, false
		}
		time.Sleep(150 * time.Microsecond)
	}
}

func (b *bus) drain(pred func(verifhook.Event) bool) []verifhook.Event {
	b.mu.Lock()
	defer b.mu.Unlock()
	var out, keep []verifhook.Event
	for _, e := range b.events {
		if pred(e) {
			out = append(out, e)
		} else {
			keep = append(keep, e)
		}
	}
	b.events = keep
	return out
}

type call struct {
	a      *arrival
	done   chan bool // true = allowed
	holdCh chan struct{}
	rmCh   chan struct{}
}

// ---- one scenario -----------------------------------------------------------------------------

func runScenario(idx int, scn *scenario, root string) {
	const tick = 100 * time.Millisecond
	clk := sim.NewVClock(t0)
	sim.UseClock(clk)
	ctx, cancel := context.WithCancel(context.Background())
	contextmanager.Get().WithContext(ctx)
	defer cancel()
	b := &bus{}
	sim.GlobalSink.Drain()
	sim.GlobalSink.OnEach(func(e verifhook.Event) {
		if strings.HasPrefix(e.Kind, "queue.") && e.Kind != "queue.watcher-wait" {
			b.add(e)
		}
	})
	defer sim.GlobalSink.OnEach(nil)
	calls := map[string]*call{}
	byWire := map[string]*call{} // wire id -> the latest call that used it
	var cmu sync.Mutex
	prefix := fmt.Sprintf("c%d-", idx)
	verifhook.SetYield(func(point string, a []string) {
		if len(a) == 0 || !strings.HasPrefix(a[0], prefix) {
			return
		}
		cmu.Lock()
		c := byWire[strings.TrimPrefix(a[0], prefix)]
		cmu.Unlock()
		if c == nil {
			return
		}
		switch point {
		case "queue.slot-checked":
			if c.a.HoldCheck {
				b.add(verifhook.Event{Kind: "queue.parked-after-slot-check", Args: []string{a[0]}})
				<-c.holdCh
			}
		case "queue.before-remove":
			if c.a.HoldRm {
				<-c.rmCh
			}
		}
	})
	defer verifhook.SetYield(nil)

	env, err := sim.NewStreamEnv(root, sim.Config{Quotas: map[string]string{"q.yaml": quotaYAML(*scn)}, Flows: map[string]string{"f.yaml": flowYAML(*scn)}})
	if err != nil {
		scn.Inconcl = "harness: configuration rejected: " + err.Error()
		return
	}
	defer env.Cleanup()
	watchdog := time.Duration(scn.TTLS)*3*time.Second + 6*time.Second
	if !clk.WaitArmed(tick, 1, watchdog) {
		scn.Inconcl = "processing loop did not start"
		return
	}
	nowMs := func() int64 { return clk.Now().Sub(t0).Milliseconds() }
	regSeq := 0
	cancelled := false
	var waiting []*call
	releaseAll := func() {
		cmu.Lock()
		for _, c := range calls {
			select {
			case <-c.holdCh:
			default:
				close(c.holdCh)
			}
			select {
			case <-c.rmCh:
			default:
				close(c.rmCh)
			}
		}
		cmu.Unlock()
	}
	defer releaseAll()

	collect := func(id string, wantAllowed bool) bool {
		cmu.Lock()
		c := calls[id]
		cmu.Unlock()
		if c == nil || c.a.Verdict != "" {
			return true
		}
		select {
		case ok := <-c.done:
			c.a.Verdict = map[bool]string{true: "allowed", false: "blocked"}[ok]
			c.a.VerdictMs = nowMs()
			return true
		case <-time.After(watchdog):
			scn.Inconcl = fmt.Sprintf("signalled request %s did not return", id)
			return false
		}
	}
	handleSignals := func() bool {
		for _, e := range b.drain(func(e verifhook.Event) bool { return e.Kind == "queue.signalled" }) {
			id := strings.TrimPrefix(e.Args[0], prefix)
			cmu.Lock()
			c := byWire[id]
			cmu.Unlock()
			if c == nil {
				continue
			}
			if c.a.Signal != "" {
				c.a.Signal += "+" + e.Args[1] // signalled twice
				continue
			}
			c.a.Signal = e.Args[1]
			if !collect(c.a.ID, e.Args[1] == "success") {
				return false
			}
		}
		return true
	}
	// wait (real time: the TTL watcher polls on real timers) until every waiter whose expiry has
	// passed on the virtual clock has been signalled
	settleExpiries := func() bool {
		for _, c := range waiting {
			if c.a.Verdict != "" || !c.a.Registered {
				continue
			}
			exp := c.a.AtMs + scn.TTLS*1000 // the TTL runs from the call instant
			if nowMs() > exp {
				id := prefix + wireOf(c.a)
				e, ok := b.take(func(e verifhook.Event) bool { return e.Kind == "queue.signalled" && e.Args[0] == id }, watchdog)
				if !ok {
					scn.Inconcl = fmt.Sprintf("request %s: expiry passed at %d ms (now %d ms) but no verdict within the watchdog", c.a.ID, exp, nowMs())
					return false
				}
				c.a.Signal = e.Args[1]
				if !collect(c.a.ID, false) {
					return false
				}
			}
		}
		return true
	}
	doTick := func() bool {
		pend := clk.Pending()
		var tw *sim.Waiter
		for i := range pend {
			if pend[i].D == tick {
				tw = &pend[i]
				break
			}
		}
		if tw == nil {
			return true // loop has exited (drained)
		}
		before := clk.Armed(tick)
		admittedBefore := 0
		for _, c := range waiting {
			if c.a.Signal == "success" {
				admittedBefore++
			}
		}
		clk.Fire(tw.ID)
		if cancelled {
			// the loop drains and exits: wait until every registered waiter was signalled
			for _, c := range waiting {
				if c.a.Registered && c.a.Verdict == "" {
					id := prefix + wireOf(c.a)
					e, ok := b.take(func(e verifhook.Event) bool { return e.Kind == "queue.signalled" && e.Args[0] == id }, watchdog)
					if !ok {
						scn.Inconcl = fmt.Sprintf("shutdown: waiter %s was not released", c.a.ID)
						return false
					}
					c.a.Signal = e.Args[1]
					if !collect(c.a.ID, false) {
						return false
					}
				}
			}
			return handleSignals()
		}
		if !clk.WaitArmed(tick, before+1, watchdog) {
			scn.Inconcl = "processing loop did not finish its iteration"
			return false
		}
		if !handleSignals() {
			return false
		}
		admitted := 0
		anyWaiting := false
		for _, c := range waiting {
			if c.a.Signal == "success" {
				admitted++
			}
			if c.a.Registered && c.a.Verdict == "" {
				anyWaiting = true
			}
		}
		if admitted == admittedBefore && anyWaiting {
			scn.TicksNoAdm = append(scn.TicksNoAdm, nowMs())
		}
		return settleExpiries()
	}
	advanceTo := func(ms int64) bool {
		target := t0.Add(time.Duration(ms) * time.Millisecond)
		for {
			if scn.CancelAtMs > 0 && !cancelled && nowMs() < scn.CancelAtMs && scn.CancelAtMs <= ms {
				// cancel between two iterations
				next := int64(0)
				for _, p := range clk.Pending() {
					if p.D == tick {
						next = p.Deadline.Sub(t0).Milliseconds()
					}
				}
				if next == 0 || next > scn.CancelAtMs {
					clk.Set(t0.Add(time.Duration(scn.CancelAtMs) * time.Millisecond))
					cancel()
					cancelled = true
				}
			}
			var due *sim.Waiter
			for _, p := range clk.Pending() {
				if p.D == tick && !p.Deadline.After(target) {
					pp := p
					due = &pp
					break
				}
			}
			if due == nil {
				break
			}
			if !doTick() {
				return false
			}
		}
		clk.Set(target)
		return settleExpiries()
	}

	arr := make([]*arrival, len(scn.Arrivals))
	for i := range scn.Arrivals {
		arr[i] = &scn.Arrivals[i]
	}
	sort.SliceStable(arr, func(i, j int) bool { return arr[i].AtMs < arr[j].AtMs })
	var heldCheck *call
	for _, a := range arr {
		if !advanceTo(a.AtMs) {
			return
		}
		c := &call{a: a, done: make(chan bool, 1), holdCh: make(chan struct{}), rmCh: make(chan struct{})}
		cmu.Lock()
		calls[a.ID] = c
		byWire[wireOf(a)] = c
		cmu.Unlock()
		waiting = append(waiting, c)
		id := prefix + wireOf(a)
		fmt.Printf("case %d call %s at %d ms\n", idx, a.ID, a.AtMs)
		go func() {
			res := env.OnRequest(sim.Txn{ID: id, Method: "GET", URL: "a.com/x", Headers: map[string]string{"x-prio": a.Prio}})
			c.done <- res.Early == nil && res.Err == nil
		}()
		// the call either returns at once (no slot / drained), parks after the slot check, or registers
		e, ok := b.take(func(e verifhook.Event) bool {
			return (e.Kind == "queue.registered" || e.Kind == "queue.parked-after-slot-check") && e.Args[0] == id
		}, 40*time.Millisecond)
		if !ok {
			select {
			case okv := <-c.done:
				a.Verdict = map[bool]string{true: "allowed", false: "blocked"}[okv]
				a.VerdictMs = nowMs()
				continue
			default:
			}
			if heldCheck != nil {
				// The parked caller keeps this one from proceeding: slot check and registration are
				// one critical section in this build, so the forced interleaving does not exist.
				h := heldCheck
				heldCheck = nil
				close(h.holdCh)
				hid := prefix + wireOf(h.a)
				if _, okh := b.take(func(e verifhook.Event) bool { return e.Kind == "queue.registered" && e.Args[0] == hid }, watchdog); !okh {
					scn.Inconcl = "held caller " + h.a.ID + " did not register after release"
					return
				}
				regSeq++
				h.a.Registered, h.a.RegSeq, h.a.RegMs = true, regSeq, nowMs()
				scn.Serialized++
			}
			e, ok = b.take(func(e verifhook.Event) bool {
				return (e.Kind == "queue.registered" || e.Kind == "queue.parked-after-slot-check") && e.Args[0] == id
			}, watchdog)
			if !ok {
				select {
				case okv := <-c.done:
					a.Verdict = map[bool]string{true: "allowed", false: "blocked"}[okv]
					a.VerdictMs = nowMs()
					continue
				default:
					scn.Inconcl = "call " + a.ID + " neither returned nor registered"
					return
				}
			}
		}
		if e.Kind == "queue.parked-after-slot-check" {
			heldCheck = c
			continue
		}
		regSeq++
		a.Registered, a.RegSeq, a.RegMs = true, regSeq, nowMs()
		// a caller parked after its slot check is let go once the next caller has registered
		if heldCheck != nil {
			h := heldCheck
			heldCheck = nil
			close(h.holdCh)
			hid := prefix + wireOf(h.a)
			if _, ok := b.take(func(e verifhook.Event) bool { return e.Kind == "queue.registered" && e.Args[0] == hid }, watchdog); !ok {
				scn.Inconcl = "held caller " + h.a.ID + " did not register after release"
				return
			}
			regSeq++
			h.a.Registered, h.a.RegSeq, h.a.RegMs = true, regSeq, nowMs()
		}
	}
	if heldCheck != nil {
		h := heldCheck
		close(h.holdCh)
		hid := prefix + wireOf(h.a)
		if _, ok := b.take(func(e verifhook.Event) bool { return e.Kind == "queue.registered" && e.Args[0] == hid }, watchdog); ok {
			regSeq++
			h.a.Registered, h.a.RegSeq, h.a.RegMs = true, regSeq, nowMs()
		}
	}
	if !advanceTo(scn.EndMs) {
		return
	}
	for _, c := range waiting {
		if c.a.Verdict == "" {
			select {
			case okv := <-c.done:
				c.a.Verdict = map[bool]string{true: "allowed", false: "blocked"}[okv]
				c.a.VerdictMs = nowMs()
			case <-time.After(watchdog):
			}
		}
	}
	// let the parked clean-up goroutines run while everything is still alive (this is where a
	// double release would crash the process)
	releaseAll()
	time.Sleep(20 * time.Millisecond)
}

// ---- oracle -----------------------------------------------------------------------------------

func judge(idx int, args sim.Args, scn scenario, v *sim.Verdict) {
	rp := replay{Case: idx, Seed: args.Seed, Scn: scn}
	if scn.Inconcl != "" {
		v.Inconclude(fmt.Sprintf("case %d: %s", idx, scn.Inconcl))
		return
	}
	allowedT := []int64{}
	queued := 0
	for _, a := range scn.Arrivals {
		switch {
		case a.Verdict == "":
			v.Violate("C06/no-verdict", fmt.Sprintf("request %s never got a verdict", a.ID), rp)
			return
		case strings.Contains(a.Signal, "+"):
			v.Violate("C06/signalled-twice/"+a.Signal, fmt.Sprintf("request %s was signalled twice (%s)", a.ID, a.Signal), rp)
			return
		}
		if a.Registered {
			queued++
			v.Count("queued", 1)
		} else {
			v.Count("rejected_no_slot", 1)
		}
		if a.Verdict == "allowed" {
			allowedT = append(allowedT, a.VerdictMs)
			v.Count("allowed", 1)
			if a.VerdictMs > a.AtMs+scn.TTLS*1000+200 {
				v.Violate("C06/late-verdict/allowed-after-ttl", fmt.Sprintf("request %s allowed at %d ms, its TTL ended at %d ms", a.ID, a.VerdictMs, a.AtMs+scn.TTLS*1000), rp)
				return
			}
		} else if a.Registered {
			if a.Signal == "timeout" && scn.CancelAtMs == 0 {
				v.Count("expired_in_queue", 1)
				if a.VerdictMs < a.AtMs+scn.TTLS*1000 {
					v.Violate("C06/rejected-before-ttl", fmt.Sprintf("request %s was timed out at %d ms, its TTL ends at %d ms", a.ID, a.VerdictMs, a.AtMs+scn.TTLS*1000), rp)
					return
				}
			}
			if scn.CancelAtMs > 0 && a.VerdictMs >= scn.CancelAtMs {
				v.Count("released_by_shutdown", 1)
			}
		}
	}
	// (b) allowed verdicts per quota window (anchor exact or truncated to the second)
	sort.Slice(allowedT, func(i, j int) bool { return allowedT[i] < allowedT[j] })
	okAny := false
	for _, trunc := range []bool{true, false} {
		ok := true
		anchor, cnt := int64(-1<<62), int64(0)
		for _, t := range allowedT {
			if t-anchor >= scn.WindowS*1000 {
				anchor, cnt = t, 0
				if trunc {
					anchor = t - t%1000
				}
			}
			cnt++
			if cnt > scn.QuotaMax {
				ok = false
			}
		}
		okAny = okAny || ok
	}
	if !okAny {
		v.Violate("C06/quota-exceeded", fmt.Sprintf("allowed verdicts at %v ms exceed %d per %d s window under every window convention", allowedT, scn.QuotaMax, scn.WindowS), rp)
		return
	}
	// (d) queue size
	for _, a := range scn.Arrivals {
		if !a.Registered {
			continue
		}
		n := 0
		for _, o := range scn.Arrivals {
			if o.Registered && o.RegSeq <= a.RegSeq && (o.VerdictMs > a.RegMs || (o.VerdictMs == a.RegMs && o.RegSeq >= a.RegSeq)) {
				n++
			}
		}
		if int64(n) > scn.Size {
			tag := "other"
			for _, o := range scn.Arrivals {
				if o.HoldCheck {
					tag = "check-then-register-race"
				}
			}
			v.Violate("C06/queue-size-exceeded/"+tag, fmt.Sprintf("%d requests waiting after %s registered, queue_size %d", n, a.ID, scn.Size), rp)
			return
		}
	}
	// (c) order
	for _, a := range scn.Arrivals {
		if a.Verdict != "allowed" || !a.Registered {
			continue
		}
		for _, o := range scn.Arrivals {
			if o.ID == a.ID || !o.Registered || o.RegMs >= a.VerdictMs || o.VerdictMs <= a.VerdictMs {
				continue
			}
			if o.AtMs+scn.TTLS*1000 < a.VerdictMs {
				continue // already expired at that instant
			}
			better := prioNum(o.Prio) < prioNum(a.Prio) || (prioNum(o.Prio) == prioNum(a.Prio) && o.RegSeq < a.RegSeq && o.RegMs < a.RegMs)
			if !better {
				continue
			}
			kind := "priority"
			if o.Prio == a.Prio {
				kind = "fifo-within-priority"
				for _, t := range scn.TicksNoAdm {
					if t > o.RegMs && t < a.VerdictMs {
						kind = "fifo-within-priority/overtaken-after-blocked-iteration"
					}
				}
			}
			v.Violate("C06/order/"+kind, fmt.Sprintf("%s (%s, registered #%d at %d ms) allowed at %d ms while %s (%s, registered #%d at %d ms) kept waiting", a.ID, a.Prio, a.RegSeq, a.RegMs, a.VerdictMs, o.ID, o.Prio, o.RegSeq, o.RegMs), rp)
			return
		}
	}
	if scn.Serialized > 0 {
		v.Count("slot_check_and_registration_serialized", scn.Serialized)
	}
	if queued > 0 {
		out := map[string]int{}
		for _, a := range scn.Arrivals {
			out[a.Verdict+"/"+a.Signal]++
		}
		v.Distinct(fmt.Sprintf("q%d/w%d/s%d/t%d/n%d/c%v/%v", scn.QuotaMax, scn.WindowS, scn.Size, scn.TTLS, queued, scn.CancelAtMs > 0, out))
	}
	if idx%53 == 0 {
		v.Sample(rp)
	}
}

// ---- main -------------------------------------------------------------------------------------

func main() {
	if len(os.Args) > 1 && os.Args[1] == "-single" {
		sim.BaseEnv()
		data, _ := os.ReadFile(os.Args[2])
		var rp replay
		_ = json.Unmarshal(data, &rp)
		runScenario(rp.Case, &rp.Scn, os.Args[3])
		out, _ := json.Marshal(rp.Scn)
		fmt.Println("RESULT " + string(out))
		return
	}
	args := sim.ParseArgs()
	v := sim.NewVerdict("C06", args.Seed, args.Tier, args.Batch, args.Out)
	v.Rule = "case = schedule for a Queue processor on a fixed-window quota (max 1-2 per 1-2 s, queue_size 1-4, TTL 1-2 s): 2-7 arrivals with priorities at chosen virtual instants, optionally one caller parked between slot check and registration, optionally a shutdown (context cancel) between two processing iterations with clean-up goroutines parked; non-trivial iff at least one request waited in the queue; distinct by <quota, window, size, ttl, #queued, shutdown?, outcome multiset>"
	v.Assumptions = []string{
		"the processing loop runs on the virtual clock one iteration at a time; the TTL watcher polls on real timers, so expiries are awaited in real time under a generous watchdog (firing = inconclusive)",
		"verdict slack after TTL: 200 ms of virtual time (two processing iterations)",
		"order is judged between requests with different priority, or equal priority and strictly earlier registration instant",
		"shutdown scenarios run in a child process; a child that dies is a violation whose witness is the scenario",
	}
	root := sim.ScratchRoot("c06")
	defer os.RemoveAll(root)
	sim.BaseEnv()
	if args.Replay != "" {
		data, err := os.ReadFile(args.Replay)
		var wrap struct {
			Replay replay `json:"replay"`
		}
		if err == nil {
			err = json.Unmarshal(data, &wrap)
		}
		if err != nil {
			v.Inconclude(err.Error())
			os.Exit(v.Write())
		}
		runOne(wrap.Replay.Case, args, wrap.Replay.Scn, v, root)
		os.Exit(v.Write())
	}
	total := args.Pick(160, 3200)
	lo, hi := args.Share(total)
	for i := lo; i < hi; i++ {
		r := args.CaseRand(i)
		runOne(i, args, genScenario(r, i%5 == 4), v, root)
	}
	llo, lhi := args.Share(args.Pick(16, 320))
	for i := llo; i < lhi; i++ {
		lateCase(i, args, args.CaseRand(2_000_000+i), v, root)
	}
	// (expired_in_queue, rejected_no_slot, released_by_shutdown are required over the whole run by
	// the driver: "require_counters" in checks.d/C06.json)
	for _, k := range []string{"queued", "allowed"} {
		if v.Counters[k] == 0 {
			v.Inconclude("batch never observed " + k)
		}
	}
	os.Exit(v.Write())
}

func clean(scn scenario) scenario {
	scn.Inconcl, scn.TicksNoAdm, scn.Serialized = "", nil, 0
	for i := range scn.Arrivals {
		a := &scn.Arrivals[i]
		a.Registered, a.RegSeq, a.RegMs, a.Verdict, a.VerdictMs, a.Signal = false, 0, 0, "", 0, ""
	}
	return scn
}

func runOne(idx int, args sim.Args, scn scenario, v *sim.Verdict, root string) {
	v.Eval(1)
	scn = clean(scn)
	if scn.CancelAtMs == 0 {
		runScenario(idx, &scn, root)
		judge(idx, args, scn, v)
		return
	}
	cf := fmt.Sprintf("%s/case%d.json", root, idx)
	data, _ := json.Marshal(replay{Case: idx, Seed: args.Seed, Scn: scn})
	_ = os.WriteFile(cf, data, 0o644)
	cmd := exec.Command(os.Args[0], "-single", cf, root)
	out, err := cmd.CombinedOutput()
	_ = os.Remove(cf)
	txt := string(out)
	if i := strings.LastIndex(txt, "RESULT "); i >= 0 && err == nil {
		var res scenario
		if json.Unmarshal([]byte(strings.TrimSpace(txt[i+7:])), &res) == nil {
			v.Count("shutdown_scenarios", 1)
			judge(idx, args, res, v)
			return
		}
	}
	cause := "other"
	switch {
	case strings.Contains(txt, "negative WaitGroup counter"):
		cause = "negative-waitgroup-counter"
	case strings.Contains(txt, "all goroutines are asleep"):
		cause = "deadlock"
	}
	if len(txt) > 1800 {
		txt = txt[:600] + "\n...\n" + txt[len(txt)-1100:]
	}
	v.Violate("C06/crash-on-shutdown/"+cause, fmt.Sprintf("the engine process died during a shutdown scenario (%v): %s", err, txt), replay{Case: idx, Seed: args.Seed, Scn: scn})
}
