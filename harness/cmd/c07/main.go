// C07 - combined actions: early response wins, header edits merge last-writer-wins.
//
// The REAL fold of routing.getSPOEReqActions / getSPOERespActions (reached through go:linkname, the
// functions are unexported) and a harness copy of the same loop over the exported ReqPrioritize /
// RespPrioritize / Ensure*IsUpdated / *ToSpoeActions (= the policy-mode fold of runner/plugin_runner.go)
// are run on enumerated and generated action sequences. The oracle is a reference written from the
// statement only; it looks at the SPOE variables (action.Actions) that would be handed to HAProxy.
// L1 slice: chains of VerifProbe processors in a real streams.Stream produce the action lists.
package main

import (
	"encoding/json"
	"fmt"
	"os"
	"reflect"
	"sort"
	"strings"
	_ "unsafe"

	"github.com/negasus/haproxy-spoe-go/action"

	"lunar/engine/actions"
	lunarmsg "lunar/engine/messages"
	_ "lunar/engine/routing"

	"verif/harness/sim"
)

//go:linkname realReqFold lunar/engine/routing.getSPOEReqActions
func realReqFold(args lunarmsg.OnRequest, acts []actions.ReqLunarAction) action.Actions

//go:linkname realRespFold lunar/engine/routing.getSPOERespActions
func realRespFold(args lunarmsg.OnResponse, acts []actions.RespLunarAction) action.Actions

// ---- case description -------------------------------------------------------------------------

// spec describes one action. Kinds, request side: N MH MR GR ER; response side: N M R.
type spec struct {
	Kind   string            `json:"k"`
	H      map[string]string `json:"h,omitempty"`
	Status int               `json:"status,omitempty"`
	Body   string            `json:"body,omitempty"`
	Path   string            `json:"path,omitempty"`
	Host   string            `json:"host,omitempty"`
	Query  string            `json:"query,omitempty"`
	Remove []string          `json:"remove,omitempty"`
}

type replay struct {
	Side string `json:"side"` // req | resp | l1req | l1resp
	Seq  []spec `json:"seq"`
	Case string `json:"case,omitempty"`
	Seed uint64 `json:"seed"`
	Fold string `json:"fold,omitempty"` // which fold showed it
}

func cp(h map[string]string) map[string]string {
	out := make(map[string]string, len(h))
	for k, v := range h {
		out[k] = v
	}
	return out
}

func buildReq(s spec) actions.ReqLunarAction {
	switch s.Kind {
	case "MH":
		return &actions.ModifyHeadersAction{HeadersToSet: cp(s.H)}
	case "MR":
		return &actions.ModifyRequestAction{HeadersToSet: cp(s.H), Host: s.Host, Path: s.Path, QueryParams: s.Query, Body: s.Body}
	case "GR":
		return &actions.GenerateRequestAction{HeadersToSet: cp(s.H), HeadersToRemove: append([]string(nil), s.Remove...), Body: s.Body}
	case "ER":
		return &actions.EarlyResponseAction{Status: s.Status, Body: s.Body, Headers: cp(s.H)}
	}
	return &actions.NoOpAction{}
}

// buildReqShared / buildRespShared: a fresh action object around a header map the producer keeps between
// requests (the API-key authenticator caches its header map per endpoint and wraps it in a new action for
// every request).
func buildReqShared(s spec, h map[string]string) actions.ReqLunarAction {
	switch s.Kind {
	case "MH":
		return &actions.ModifyHeadersAction{HeadersToSet: h}
	case "MR":
		return &actions.ModifyRequestAction{HeadersToSet: h, Host: s.Host, Path: s.Path, QueryParams: s.Query, Body: s.Body}
	case "GR":
		return &actions.GenerateRequestAction{HeadersToSet: h, HeadersToRemove: append([]string(nil), s.Remove...), Body: s.Body}
	case "ER":
		return &actions.EarlyResponseAction{Status: s.Status, Body: s.Body, Headers: h}
	}
	return &actions.NoOpAction{}
}

func buildRespShared(s spec, h map[string]string) actions.RespLunarAction {
	switch s.Kind {
	case "M":
		return &actions.ModifyResponseAction{HeadersToSet: h, Body: s.Body, Status: s.Status}
	case "R":
		return &actions.RetryRequestAction{HeadersToSet: h}
	}
	return &actions.NoOpAction{}
}

func buildResp(s spec) actions.RespLunarAction {
	switch s.Kind {
	case "M":
		return &actions.ModifyResponseAction{HeadersToSet: cp(s.H), Body: s.Body, Status: s.Status}
	case "R":
		return &actions.RetryRequestAction{HeadersToSet: cp(s.H)}
	}
	return &actions.NoOpAction{}
}

// specOfReq reads an action object back into a spec (used for L1 lists and for input-mutation counters).
func specOfReq(a actions.ReqLunarAction) spec {
	switch t := a.(type) {
	case *actions.ModifyHeadersAction:
		return spec{Kind: "MH", H: cp(t.HeadersToSet)}
	case *actions.ModifyRequestAction:
		return spec{Kind: "MR", H: cp(t.HeadersToSet), Host: t.Host, Path: t.Path, Query: t.QueryParams, Body: t.Body}
	case *actions.GenerateRequestAction:
		return spec{Kind: "GR", H: cp(t.HeadersToSet), Remove: append([]string(nil), t.HeadersToRemove...), Body: t.Body}
	case *actions.EarlyResponseAction:
		return spec{Kind: "ER", H: cp(t.Headers), Status: t.Status, Body: t.Body}
	case *actions.NoOpAction:
		return spec{Kind: "N"}
	}
	return spec{Kind: fmt.Sprintf("?%T", a)}
}

func specOfResp(a actions.RespLunarAction) spec {
	switch t := a.(type) {
	case *actions.ModifyResponseAction:
		return spec{Kind: "M", H: cp(t.HeadersToSet), Body: t.Body, Status: t.Status}
	case *actions.RetryRequestAction:
		return spec{Kind: "R", H: cp(t.HeadersToSet)}
	case *actions.NoOpAction:
		return spec{Kind: "N"}
	}
	return spec{Kind: fmt.Sprintf("?%T", a)}
}

func sameSpec(a, b spec) bool {
	if a.Kind != b.Kind || a.Status != b.Status || a.Body != b.Body || a.Path != b.Path || a.Host != b.Host || a.Query != b.Query {
		return false
	}
	if len(a.H) != len(b.H) || len(a.Remove) != len(b.Remove) {
		return false
	}
	for k, v := range a.H {
		if w, ok := b.H[k]; !ok || w != v {
			return false
		}
	}
	for i := range a.Remove {
		if a.Remove[i] != b.Remove[i] {
			return false
		}
	}
	return true
}

// ---- the folds (code under observation) ---------------------------------------------------------

func newReqArgs() lunarmsg.OnRequest {
	return lunarmsg.OnRequest{LunarName: lunarmsg.LunarRequest, ID: "c07", SequenceID: "c07", Method: "GET", Scheme: "https",
		URL: "c07.com/x", Path: "/x", Headers: map[string]string{"host": "c07.com"}}
}

func newRespArgs() lunarmsg.OnResponse {
	return lunarmsg.OnResponse{LunarName: lunarmsg.LunarResponse, ID: "c07", SequenceID: "c07", Method: "GET", URL: "c07.com/x",
		Status: 200, Headers: map[string]string{"server": "x"}}
}

// copyReqFold is the loop of getSPOEReqActions / runner.runOnRequest over the exported methods; it
// also returns the resulting action object so that the encoding clause can be checked against it.
func copyReqFold(acts []actions.ReqLunarAction) (actions.ReqLunarAction, action.Actions) {
	args := newReqArgs()
	var acc actions.ReqLunarAction = &actions.NoOpAction{}
	for _, a := range acts {
		a.EnsureRequestIsUpdated(&args)
		acc = acc.ReqPrioritize(a)
	}
	acc.EnsureRequestIsUpdated(&args)
	return acc, acc.ReqToSpoeActions()
}

func copyRespFold(acts []actions.RespLunarAction) (actions.RespLunarAction, action.Actions) {
	args := newRespArgs()
	var acc actions.RespLunarAction = &actions.NoOpAction{}
	for _, a := range acts {
		a.EnsureResponseIsUpdated(&args)
		acc = acc.RespPrioritize(a)
	}
	acc.EnsureResponseIsUpdated(&args)
	return acc, acc.RespToSpoeActions()
}

// ---- observation: SPOE variables -----------------------------------------------------------------

type obs struct {
	Vars   map[string]any
	Scope  map[string]action.Scope
	Faults []string // duplicate variable, unset-var entry ...
}

func decode(as action.Actions) obs {
	o := obs{Vars: map[string]any{}, Scope: map[string]action.Scope{}}
	for _, a := range as {
		if a.Type != action.TypeSetVar {
			o.Faults = append(o.Faults, fmt.Sprintf("non-set-var entry %q", a.Name))
			continue
		}
		if _, dup := o.Vars[a.Name]; dup {
			o.Faults = append(o.Faults, fmt.Sprintf("variable %q set twice", a.Name))
		}
		o.Vars[a.Name] = a.Value
		o.Scope[a.Name] = a.Scope
	}
	return o
}

func (o obs) flag(name string) bool {
	b, ok := o.Vars[name].(bool)
	return ok && b
}

func (o obs) has(name string) bool { _, ok := o.Vars[name]; return ok }

func (o obs) names() string {
	n := make([]string, 0, len(o.Vars))
	for k := range o.Vars {
		n = append(n, k)
	}
	sort.Strings(n)
	return strings.Join(n, ",")
}

func asBytes(v any) (string, bool) {
	switch t := v.(type) {
	case string:
		return t, true
	case []byte:
		return string(t), true
	}
	return "", false
}

func asInt(v any) (int, bool) {
	switch t := v.(type) {
	case int:
		return t, true
	case int32:
		return int(t), true
	case int64:
		return int(t), true
	case uint32:
		return int(t), true
	case uint64:
		return int(t), true
	}
	return 0, false
}

// parseDump is the inverse of the "name:value\n" line format (first ':' separates, empty lines skipped).
func parseDump(v any) (map[string]string, string) {
	s, ok := asBytes(v)
	if !ok {
		return nil, fmt.Sprintf("headers variable has type %T", v)
	}
	out := map[string]string{}
	for _, line := range strings.Split(s, "\n") {
		if line == "" {
			continue
		}
		i := strings.IndexByte(line, ':')
		if i < 0 {
			return nil, fmt.Sprintf("header line %q has no ':'", line)
		}
		if _, dup := out[line[:i]]; dup {
			return nil, fmt.Sprintf("header %q dumped twice", line[:i])
		}
		out[line[:i]] = line[i+1:]
	}
	return out, ""
}

func reqKind(o obs) string {
	switch {
	case len(o.Vars) == 0:
		return "N"
	case o.flag(actions.ReturnEarlyResponseActionName):
		return "ER"
	case o.flag(actions.GenerateRequestActionName):
		return "GR"
	case o.flag(actions.ModifyRequestActionName):
		return "MR"
	case o.has(actions.RequestHeadersActionName):
		return "MH"
	}
	return "?"
}

func respKind(o obs) string {
	switch {
	case len(o.Vars) == 0:
		return "N"
	case o.flag(actions.ModifyResponseActionName) && o.flag(actions.RetryRequestActionName):
		return "?"
	case o.flag(actions.ModifyResponseActionName):
		return "M"
	case o.flag(actions.RetryRequestActionName):
		return "R"
	}
	return "?"
}

// ---- reference algebra (from the statement) -------------------------------------------------------

func lww(seq []spec, kinds string) map[string]string {
	out := map[string]string{}
	for _, s := range seq {
		if s.Kind == "N" || !strings.Contains(kinds, "|"+s.Kind+"|") {
			continue
		}
		for k, v := range s.H {
			out[k] = v
		}
	}
	return out
}

// headerDiff classifies how got differs from want given the edits of seq (only those of the kinds listed).
func headerDiff(seq []spec, kinds string, got, want map[string]string) string {
	if reflect.DeepEqual(got, want) || (len(got) == 0 && len(want) == 0) {
		return ""
	}
	for k, w := range want {
		g, ok := got[k]
		if !ok {
			return "edit-dropped"
		}
		if g != w {
			for _, s := range seq {
				if strings.Contains(kinds, "|"+s.Kind+"|") {
					if v, ok := s.H[k]; ok && v == g {
						return "earlier-wins"
					}
				}
			}
			return "wrong-value"
		}
	}
	return "extra-header"
}

type finding struct{ sig, detail string }

func seqString(seq []spec) string {
	b, _ := json.Marshal(seq)
	return string(b)
}

func judgeReq(seq []spec, o obs) *finding {
	got := reqKind(o)
	if len(o.Faults) > 0 {
		return &finding{"C07/req/encoding/malformed", strings.Join(o.Faults, "; ")}
	}
	if got == "?" {
		return &finding{"C07/req/encoding/unclassifiable", "variables: " + o.names()}
	}
	first := -1
	anyMod := false
	for i, s := range seq {
		if s.Kind == "ER" && first < 0 {
			first = i
		}
		if s.Kind == "MH" || s.Kind == "MR" || s.Kind == "GR" {
			anyMod = true
		}
	}
	switch {
	case first >= 0:
		if got != "ER" {
			return &finding{"C07/req/early-lost/got-" + got, fmt.Sprintf("an early response was produced at #%d but the proxy is told %s (%s)", first, got, o.names())}
		}
		e := seq[first]
		st, _ := asInt(o.Vars[actions.StatusCodeActionName])
		body, _ := asBytes(o.Vars[actions.ResponseBodyActionName])
		hdr, perr := parseDump(o.Vars[actions.ResponseHeadersActionName])
		if perr != "" {
			return &finding{"C07/req/encoding/headers-unparseable", perr}
		}
		if st == e.Status && body == e.Body && headerDiff(nil, "", hdr, e.H) == "" {
			for _, n := range []string{actions.RequestHeadersActionName, actions.ModifyRequestActionName, actions.GenerateRequestActionName,
				actions.RequestBodyActionName, actions.RequestPathActionName, actions.RequestHostActionName} {
				if o.has(n) {
					return &finding{"C07/req/encoding/early-mixed-with-modification", "early response encoding also carries " + n}
				}
			}
			return nil
		}
		for j, s := range seq {
			if j != first && s.Kind == "ER" && st == s.Status && body == s.Body && headerDiff(nil, "", hdr, s.H) == "" {
				return &finding{"C07/req/early-not-first", fmt.Sprintf("early response #%d was sent, the first one is #%d", j, first)}
			}
		}
		field := "headers"
		if st != e.Status {
			field = "status"
		} else if body != e.Body {
			field = "body"
		}
		return &finding{"C07/req/early-changed/" + field, fmt.Sprintf("first early response #%d = (%d,%q,%v), sent (%d,%q,%v)", first, e.Status, e.Body, e.H, st, body, hdr)}
	case anyMod:
		if got == "N" {
			return &finding{"C07/req/modification-lost/got-noop", "modifications were produced but the proxy is told nothing"}
		}
		if got == "ER" {
			return &finding{"C07/req/early-invented", "no early response was produced but one is sent"}
		}
		hdr, perr := parseDump(o.Vars[actions.RequestHeadersActionName])
		if perr != "" {
			return &finding{"C07/req/encoding/headers-unparseable", perr}
		}
		want := lww(seq, "|MH|MR|GR|")
		if d := headerDiff(seq, "|MH|MR|GR|", hdr, want); d != "" {
			return &finding{"C07/req/header-merge/" + d, fmt.Sprintf("result kind %s: header edits sent %v, last-writer-wins union %v", got, hdr, want)}
		}
		return nil
	default:
		if got != "N" {
			return &finding{"C07/req/noop-became/" + got, "all actions were no-ops but the proxy is told: " + o.names()}
		}
	}
	return nil
}

// judgeResp: a no-op never displaces; pure modification sequences merge last-writer-wins; when retries and
// modifications are mixed the statement does not say who wins, so the header edits of a resulting
// modification must be the last-writer-wins union of the modifications of SOME suffix of the sequence.
func judgeResp(seq []spec, o obs, cnt func(string)) *finding {
	got := respKind(o)
	if len(o.Faults) > 0 {
		return &finding{"C07/resp/encoding/malformed", strings.Join(o.Faults, "; ")}
	}
	if got == "?" {
		return &finding{"C07/resp/encoding/unclassifiable", "variables: " + o.names()}
	}
	nM, nR := 0, 0
	for _, s := range seq {
		switch s.Kind {
		case "M":
			nM++
		case "R":
			nR++
		}
	}
	if nM+nR == 0 {
		if got != "N" {
			return &finding{"C07/resp/noop-became/" + got, "all actions were no-ops but the proxy is told: " + o.names()}
		}
		return nil
	}
	if got == "N" {
		what := "modification"
		if nM == 0 {
			what = "retry"
		}
		return &finding{"C07/resp/noop-displaced-" + what, "a " + what + " was produced but the proxy is told nothing"}
	}
	if got == "M" && nM == 0 {
		return &finding{"C07/resp/modification-invented", "only retries were produced, a modification is sent"}
	}
	if got == "R" && nR == 0 {
		return &finding{"C07/resp/retry-invented", "only modifications were produced, a retry is sent"}
	}
	if got == "M" {
		hdr, perr := parseDump(o.Vars[actions.ResponseHeadersActionName])
		if perr != "" {
			return &finding{"C07/resp/encoding/headers-unparseable", perr}
		}
		want := lww(seq, "|M|")
		d := headerDiff(seq, "|M|", hdr, want)
		if d != "" && nR > 0 {
			for i := 1; i < len(seq); i++ {
				if seq[i-1].Kind != "R" { // a displacement can only happen at a retry
					continue
				}
				if headerDiff(nil, "", hdr, lww(seq[i:], "|M|")) == "" {
					cnt("unconstrained/mixed_modification_edits_before_retry_dropped")
					d = ""
					break
				}
			}
		}
		if d != "" {
			return &finding{"C07/resp/header-merge/" + d, fmt.Sprintf("header edits sent %v, last-writer-wins union %v", hdr, want)}
		}
		// unconstrained: which status/body a merged modification carries
		if nM > 1 && nR == 0 {
			st, _ := asInt(o.Vars[actions.StatusCodeActionName])
			var firstM, lastM spec
			seen := false
			for _, s := range seq {
				if s.Kind == "M" {
					if !seen {
						firstM, seen = s, true
					}
					lastM = s
				}
			}
			switch {
			case firstM.Status == lastM.Status:
			case st == firstM.Status:
				cnt("unconstrained/merged_modification_status=first")
			case st == lastM.Status:
				cnt("unconstrained/merged_modification_status=last")
			default:
				cnt("unconstrained/merged_modification_status=other")
			}
		}
	}
	if got == "R" {
		hdr, perr := parseDump(o.Vars[actions.RetryHeadersActionName])
		if perr != "" {
			return &finding{"C07/resp/encoding/headers-unparseable", perr}
		}
		if headerDiff(nil, "", hdr, lww(seq, "|R|")) == "" {
			cnt("unconstrained/retry_headers=lww_union_of_all")
		} else {
			cnt("unconstrained/retry_headers=other")
		}
	}
	if nM > 0 && nR > 0 {
		cnt("unconstrained/mixed_winner=" + got)
	}
	return nil
}

// judgeEncodingReq: the encoding carries exactly the resulting action's status, body and headers.
func judgeEncodingReq(fin actions.ReqLunarAction, o obs, cnt func(string)) *finding {
	f := specOfReq(fin)
	if got := reqKind(o); got != f.Kind {
		return &finding{"C07/encoding/kind/" + f.Kind + "-sent-as-" + got, "variables: " + o.names()}
	}
	chk := func(field string, ok bool, detail string) *finding {
		if ok {
			return nil
		}
		return &finding{"C07/encoding/" + f.Kind + "/" + field, detail}
	}
	switch f.Kind {
	case "N":
		return nil
	case "ER":
		st, isInt := asInt(o.Vars[actions.StatusCodeActionName])
		body, _ := asBytes(o.Vars[actions.ResponseBodyActionName])
		hdr, perr := parseDump(o.Vars[actions.ResponseHeadersActionName])
		if r := chk("status", isInt && st == f.Status, fmt.Sprintf("action status %d, variable %v", f.Status, o.Vars[actions.StatusCodeActionName])); r != nil {
			return r
		}
		if r := chk("body", body == f.Body, fmt.Sprintf("action body %q, variable %q", f.Body, body)); r != nil {
			return r
		}
		return chk("headers", perr == "" && headerDiff(nil, "", hdr, f.H) == "", fmt.Sprintf("action headers %v, variable %v %s", f.H, hdr, perr))
	default:
		hdr, perr := parseDump(o.Vars[actions.RequestHeadersActionName])
		if r := chk("headers", perr == "" && headerDiff(nil, "", hdr, f.H) == "", fmt.Sprintf("action headers %v, variable %v %s", f.H, hdr, perr)); r != nil {
			return r
		}
		if f.Kind != "MH" {
			body, _ := asBytes(o.Vars[actions.RequestBodyActionName])
			if r := chk("body", body == f.Body, fmt.Sprintf("action body %q, variable %q", f.Body, body)); r != nil {
				return r
			}
		}
		if f.Kind == "MR" {
			p, _ := asBytes(o.Vars[actions.RequestPathActionName])
			h, _ := asBytes(o.Vars[actions.RequestHostActionName])
			if p != f.Path || h != f.Host {
				cnt("unconstrained/encoding_path_or_host_differs")
			}
		}
	}
	return nil
}

func judgeEncodingResp(fin actions.RespLunarAction, o obs) *finding {
	f := specOfResp(fin)
	if got := respKind(o); got != f.Kind {
		return &finding{"C07/encoding/kind/" + f.Kind + "-sent-as-" + got, "variables: " + o.names()}
	}
	switch f.Kind {
	case "M":
		st, isInt := asInt(o.Vars[actions.StatusCodeActionName])
		if !isInt || st != f.Status {
			return &finding{"C07/encoding/M/status", fmt.Sprintf("action status %d, variable %v", f.Status, o.Vars[actions.StatusCodeActionName])}
		}
		if _, present := o.Vars[actions.ResponseBodyActionName]; !present {
			// an unset variable is not an empty body: the proxy then keeps the provider's body
			return &finding{"C07/encoding/M/body-variable-not-set", fmt.Sprintf("action body %q, but the body variable is not set at all (the proxy keeps the provider's body)", f.Body)}
		}
		if body, _ := asBytes(o.Vars[actions.ResponseBodyActionName]); body != f.Body {
			return &finding{"C07/encoding/M/body", fmt.Sprintf("action body %q, variable %q", f.Body, body)}
		}
		hdr, perr := parseDump(o.Vars[actions.ResponseHeadersActionName])
		if perr != "" || headerDiff(nil, "", hdr, f.H) != "" {
			return &finding{"C07/encoding/M/headers", fmt.Sprintf("action headers %v, variable %v %s", f.H, hdr, perr)}
		}
	case "R":
		hdr, perr := parseDump(o.Vars[actions.RetryHeadersActionName])
		if perr != "" || headerDiff(nil, "", hdr, f.H) != "" {
			return &finding{"C07/encoding/R/headers", fmt.Sprintf("action headers %v, variable %v %s", f.H, hdr, perr)}
		}
	}
	return nil
}

func sameObs(a, b obs) bool {
	if len(a.Vars) != len(b.Vars) {
		return false
	}
	for k, va := range a.Vars {
		vb, ok := b.Vars[k]
		if !ok {
			return false
		}
		sa, isA := asBytes(va)
		sb, isB := asBytes(vb)
		if isA && isB && strings.Contains(k, "headers") {
			ha, _ := parseDump(sa)
			hb, _ := parseDump(sb)
			if headerDiff(nil, "", ha, hb) != "" {
				return false
			}
			continue
		}
		if !reflect.DeepEqual(va, vb) {
			return false
		}
	}
	return true
}

// ---- running one sequence ------------------------------------------------------------------------

type runner struct {
	v    *sim.Verdict
	seed uint64
}

func (r *runner) cnt(k string) { r.v.Count(k, 1) }

func shapeOf(seq []spec, strong string) (key string, nonTrivial bool) {
	nonNoop := 0
	var kinds []string
	edits := map[string]string{}
	conflict := false
	for _, s := range seq {
		kinds = append(kinds, s.Kind)
		if s.Kind != "N" {
			nonNoop++
		}
		if strings.Contains(strong, "|"+s.Kind+"|") {
			for k, v := range s.H {
				if old, ok := edits[k]; ok && old != v {
					conflict = true
				}
				edits[k] = v
			}
		}
	}
	if len(kinds) > 4 {
		first := "-"
		for _, k := range kinds {
			if k != "N" {
				first = k
				break
			}
		}
		sort.Strings(kinds)
		return fmt.Sprintf("len%d/first-%s/%s/conflict=%v", len(seq), first, strings.Join(kinds, ""), conflict), nonNoop >= 2
	}
	return fmt.Sprintf("%s/conflict=%v", strings.Join(kinds, ">"), conflict), nonNoop >= 2
}

func (r *runner) runReq(seq []spec, label string, unconstrained bool) {
	rp := replay{Side: "req", Seq: seq, Case: label, Seed: r.seed}
	r.v.Eval(1)
	sim.Guard(r.v, "C07/panic/req-fold", rp, func() {
		fresh := func() []actions.ReqLunarAction {
			out := make([]actions.ReqLunarAction, len(seq))
			for i, s := range seq {
				out[i] = buildReq(s)
			}
			return out
		}
		// (a) the real fold of routing.getSPOEReqActions
		oReal := decode(realReqFold(newReqArgs(), fresh()))
		if f := judgeReq(seq, oReal); f != nil {
			rp.Fold = "routing.getSPOEReqActions"
			r.v.Violate(f.sig, f.detail+" | sequence "+seqString(seq), rp)
			return
		}
		// (b) the same loop over the exported methods (policy-mode fold), with the resulting object
		fin, enc := copyReqFold(fresh())
		oCopy := decode(enc)
		if f := judgeReq(seq, oCopy); f != nil {
			rp.Fold = "exported-methods fold (runner.runOnRequest shape)"
			r.v.Violate(f.sig, f.detail+" | sequence "+seqString(seq), rp)
			return
		}
		if f := judgeEncodingReq(fin, oCopy, r.cnt); f != nil {
			r.v.Violate(f.sig, f.detail+" | sequence "+seqString(seq), rp)
			return
		}
		if !sameObs(oReal, oCopy) {
			r.cnt("folds_disagree(real vs exported-methods loop)")
		}
		// (c) report only: aliasing. The same objects folded twice, then every object alone.
		objs := fresh()
		o1 := decode(realReqFold(newReqArgs(), objs))
		o2 := decode(realReqFold(newReqArgs(), objs))
		if !sameObs(o1, oReal) {
			r.cnt("alias/first_fold_of_shared_objects_differs")
		}
		if !sameObs(o2, oReal) {
			r.cnt("alias/second_fold_of_same_objects_differs")
		}
		for i, a := range objs {
			if !sameSpec(specOfReq(a), seq[i]) {
				r.cnt("alias/input_action_mutated_by_fold/" + seq[i].Kind)
				if judgeReq(seq[i:i+1], decode(realReqFold(newReqArgs(), objs[i:i+1]))) != nil {
					r.cnt("alias/refolding_a_mutated_input_alone_gives_foreign_edits")
				}
			}
		}
		// (d) two requests, producers keep their header maps: request 1 is this sequence, request 2 is one
		// of its producers alone (a fresh action object around the kept map). What request 2 sends must be
		// that producer's own edits - nothing request 1 merged may have leaked into the kept map.
		if len(seq) >= 2 {
			kept := make([]map[string]string, len(seq))
			first := make([]actions.ReqLunarAction, len(seq))
			for i, sp := range seq {
				kept[i] = cp(sp.H)
				first[i] = buildReqShared(sp, kept[i])
			}
			_ = realReqFold(newReqArgs(), first)
			for i, sp := range seq {
				if len(sp.H) == 0 && sp.Kind != "MR" && sp.Kind != "GR" {
					continue
				}
				r.cnt("second_requests_from_a_producer_with_a_kept_header_map")
				o2 := decode(realReqFold(newReqArgs(), []actions.ReqLunarAction{buildReqShared(sp, kept[i])}))
				if f := judgeReq(seq[i:i+1], o2); f != nil {
					rp.Fold = "routing.getSPOEReqActions, second request"
					r.v.Violate("C07/req/cross-request-leak/kept-header-map-polluted-by-an-earlier-request",
						fmt.Sprintf("request 1 folded %s; request 2 then carried only action #%d (%s) built around the header map its producer kept, and got: %s", seqString(seq), i, seqString(seq[i:i+1]), f.detail), rp)
					return
				}
			}
		}
		if unconstrained {
			r.reqUnconstrained(seq, oReal)
		}
		if len(seq) >= 3 && strings.HasPrefix(label, "rand-") {
			r.v.Sample(map[string]any{"side": "req", "sequence": seq, "spoe_variables": fmt.Sprintf("%v", oReal.Vars)})
		}
	})
	if key, nt := shapeOf(seq, "|MH|MR|GR|"); nt {
		r.v.Distinct("req/" + key)
	}
}

// reqUnconstrained only counts what the statement leaves open.
func (r *runner) reqUnconstrained(seq []spec, o obs) {
	got := reqKind(o)
	strongest := "N"
	rank := map[string]int{"N": 0, "MH": 1, "MR": 2, "GR": 3, "ER": 4}
	var lastMR *spec
	for i, s := range seq {
		if rank[s.Kind] > rank[strongest] {
			strongest = s.Kind
		}
		if s.Kind == "MR" {
			lastMR = &seq[i]
		}
	}
	if strongest == "ER" {
		return
	}
	if got != strongest {
		r.cnt("unconstrained/result_kind=" + got + "_although_" + strongest + "_was_produced")
	}
	if got == "MR" && lastMR != nil {
		p, _ := asBytes(o.Vars[actions.RequestPathActionName])
		anyPath := false
		for _, s := range seq {
			if s.Kind == "MR" && s.Path != "" {
				anyPath = true
			}
		}
		switch {
		case !anyPath:
		case p == lastMR.Path && p != "":
			r.cnt("unconstrained/merged_request_path=last")
		case p == "":
			r.cnt("unconstrained/merged_request_path=lost")
		default:
			r.cnt("unconstrained/merged_request_path=earlier")
		}
	}
}

func (r *runner) runResp(seq []spec, label string) {
	rp := replay{Side: "resp", Seq: seq, Case: label, Seed: r.seed}
	r.v.Eval(1)
	sim.Guard(r.v, "C07/panic/resp-fold", rp, func() {
		fresh := func() []actions.RespLunarAction {
			out := make([]actions.RespLunarAction, len(seq))
			for i, s := range seq {
				out[i] = buildResp(s)
			}
			return out
		}
		oReal := decode(realRespFold(newRespArgs(), fresh()))
		if f := judgeResp(seq, oReal, r.cnt); f != nil {
			rp.Fold = "routing.getSPOERespActions"
			r.v.Violate(f.sig, f.detail+" | sequence "+seqString(seq), rp)
			return
		}
		fin, enc := copyRespFold(fresh())
		oCopy := decode(enc)
		if f := judgeResp(seq, oCopy, func(string) {}); f != nil {
			rp.Fold = "exported-methods fold (runner.runOnResponse shape)"
			r.v.Violate(f.sig, f.detail+" | sequence "+seqString(seq), rp)
			return
		}
		if f := judgeEncodingResp(fin, oCopy); f != nil {
			r.v.Violate(f.sig, f.detail+" | sequence "+seqString(seq), rp)
			return
		}
		if !sameObs(oReal, oCopy) {
			r.cnt("folds_disagree(real vs exported-methods loop)")
		}
		objs := fresh()
		_ = realRespFold(newRespArgs(), objs)
		o2 := decode(realRespFold(newRespArgs(), objs))
		if !sameObs(o2, oReal) {
			r.cnt("alias/second_fold_of_same_objects_differs")
		}
		for i, a := range objs {
			if !sameSpec(specOfResp(a), seq[i]) {
				r.cnt("alias/input_action_mutated_by_fold/" + seq[i].Kind)
			}
		}
		if len(seq) >= 2 {
			kept := make([]map[string]string, len(seq))
			first := make([]actions.RespLunarAction, len(seq))
			for i, sp := range seq {
				kept[i] = cp(sp.H)
				first[i] = buildRespShared(sp, kept[i])
			}
			_ = realRespFold(newRespArgs(), first)
			for i, sp := range seq {
				if sp.Kind == "N" {
					continue
				}
				r.cnt("second_responses_from_a_producer_with_a_kept_header_map")
				o2 := decode(realRespFold(newRespArgs(), []actions.RespLunarAction{buildRespShared(sp, kept[i])}))
				if f := judgeResp(seq[i:i+1], o2, func(string) {}); f != nil {
					rp.Fold = "routing.getSPOERespActions, second response"
					r.v.Violate("C07/resp/cross-request-leak/kept-header-map-polluted-by-an-earlier-response",
						fmt.Sprintf("response 1 folded %s; response 2 then carried only action #%d built around the header map its producer kept, and got: %s", seqString(seq), i, f.detail), rp)
					return
				}
			}
		}
	})
	if key, nt := shapeOf(seq, "|M|R|"); nt {
		r.v.Distinct("resp/" + key)
	}
}

// ---- bounded exhaustive space -----------------------------------------------------------------------

var smallMaps = func() []map[string]string {
	vals := []string{"", "1", "2"}
	var out []map[string]string
	for _, a := range vals {
		for _, b := range vals {
			m := map[string]string{}
			if a != "" {
				m["a"] = a
			}
			if b != "" {
				m["b"] = b
			}
			out = append(out, m)
		}
	}
	return out
}()

type element struct {
	kind string
	h    map[string]string
}

func elements(kinds []string) []element {
	out := []element{{kind: "N"}}
	for _, k := range kinds {
		for _, m := range smallMaps {
			out = append(out, element{k, m})
		}
	}
	return out
}

func spaceSize(n, maxLen int) int {
	total, p := 0, 1
	for l := 0; l <= maxLen; l++ {
		total += p
		p *= n
	}
	return total
}

// nth decodes index i of the space "all sequences of length 0..maxLen over els" (shorter first).
func nth(els []element, maxLen, i int) []spec {
	n, p := len(els), 1
	l := 0
	for ; l <= maxLen; l++ {
		if i < p {
			break
		}
		i -= p
		p *= n
	}
	seq := make([]spec, l)
	for pos := l - 1; pos >= 0; pos-- {
		e := els[i%n]
		i /= n
		s := spec{Kind: e.kind, H: e.h}
		// position-dependent payloads make "which one survived" observable
		switch e.kind {
		case "ER":
			s.Status, s.Body = 200+pos, fmt.Sprintf("e%d", pos)
		case "MR":
			s.Path = fmt.Sprintf("/p%d", pos)
			if pos%2 == 0 {
				s.Body = fmt.Sprintf("mb%d", pos)
			}
		case "GR":
			s.Body, s.Remove = fmt.Sprintf("gb%d", pos), []string{fmt.Sprintf("r%d", pos)}
		case "M":
			s.Status, s.Body = 200+pos, fmt.Sprintf("b%d", pos)
		}
		seq[pos] = s
	}
	return seq
}

// ---- random long sequences ----------------------------------------------------------------------------

var (
	hdrKeys = []string{"a", "b", "x-c", "content-type", "authorization", "x-lunar-k", "accept", "x-9_z.~"}
	hdrVals = []string{"1", "2", "", "v:w", "a b", "üñí", "x=y;z", " lead", "trail ", "application/json; charset=utf-8", "::", "3", "100%", "a%20b%2Fc", "%d %s %v", "50%!"}
	bodies  = []string{"", "b", "{\"k\":1}", "line1\nline2", "\x00\x01", "ünï", strings.Repeat("z", 300)}
	paths   = []string{"", "/", "/p", "/a/b?c", "/ü"}
	hosts   = []string{"", "h.com", "h.com:8080"}
)

func randHeaders(r *sim.Rand) map[string]string {
	m := map[string]string{}
	for n := r.Intn(5); n > 0; n-- {
		m[sim.Pick(r, hdrKeys)] = sim.Pick(r, hdrVals)
	}
	return m
}

func randReqSeq(r *sim.Rand) []spec {
	n := r.Range(1, 10)
	erWeight := sim.Pick(r, []int{0, 1, 3})
	seq := make([]spec, n)
	for i := range seq {
		s := spec{H: randHeaders(r)}
		switch x := r.Intn(12 + erWeight); {
		case x < 2:
			s = spec{Kind: "N"}
		case x < 5:
			s.Kind = "MH"
		case x < 9:
			s.Kind, s.Path, s.Host, s.Body = "MR", sim.Pick(r, paths), sim.Pick(r, hosts), sim.Pick(r, bodies)
			if r.Chance(1, 3) {
				s.Query = "q=" + sim.Pick(r, hdrVals[:3])
			}
		case x < 12:
			s.Kind, s.Body = "GR", sim.Pick(r, bodies)
			for k := r.Intn(3); k > 0; k-- {
				s.Remove = append(s.Remove, sim.Pick(r, hdrKeys))
			}
		default:
			s.Kind, s.Status, s.Body = "ER", r.Range(100, 599), sim.Pick(r, bodies)
		}
		seq[i] = s
	}
	return seq
}

func randRespSeq(r *sim.Rand) []spec {
	n := r.Range(1, 10)
	retryWeight := sim.Pick(r, []int{0, 1, 4})
	seq := make([]spec, n)
	for i := range seq {
		s := spec{H: randHeaders(r)}
		switch x := r.Intn(7 + retryWeight); {
		case x < 2:
			s = spec{Kind: "N"}
		case x < 7:
			s.Kind, s.Status, s.Body = "M", r.Range(100, 599), sim.Pick(r, bodies)
		default:
			s.Kind = "R"
		}
		seq[i] = s
	}
	return seq
}

// ---- L1: chains of VerifProbe processors in a real stream ------------------------------------------------

const chainLen = 5

func chainFlow() string {
	var sb strings.Builder
	sb.WriteString("name: c07chain\nfilter:\n  url: c07.com/*\nprocessors:\n")
	for i := 1; i <= chainLen; i++ {
		fmt.Fprintf(&sb, "  P%d:\n    processor: VerifProbe\n  R%d:\n    processor: VerifProbe\n", i, i)
	}
	sb.WriteString("flow:\n  request:\n")
	sb.WriteString("    - from:\n        stream:\n          name: globalStream\n          at: start\n      to:\n        processor:\n          name: P1\n")
	for i := 1; i < chainLen; i++ {
		fmt.Fprintf(&sb, "    - from:\n        processor:\n          name: P%d\n      to:\n        processor:\n          name: P%d\n", i, i+1)
	}
	fmt.Fprintf(&sb, "    - from:\n        processor:\n          name: P%d\n      to:\n        stream:\n          name: globalStream\n          at: end\n", chainLen)
	sb.WriteString("  response:\n")
	for i := 1; i <= chainLen; i++ { // where an early response of Pi continues
		fmt.Fprintf(&sb, "    - from:\n        processor:\n          name: P%d\n      to:\n        stream:\n          name: globalStream\n          at: end\n", i)
	}
	sb.WriteString("    - from:\n        stream:\n          name: globalStream\n          at: start\n      to:\n        processor:\n          name: R1\n")
	for i := 1; i < chainLen; i++ {
		fmt.Fprintf(&sb, "    - from:\n        processor:\n          name: R%d\n      to:\n        processor:\n          name: R%d\n", i, i+1)
	}
	fmt.Fprintf(&sb, "    - from:\n        processor:\n          name: R%d\n      to:\n        stream:\n          name: globalStream\n          at: end\n", chainLen)
	return sb.String()
}

var l1Vals = []string{"1", "2", "v:w", "a b", "x;y"}

func l1Headers(r *sim.Rand) (map[string]string, string) {
	m := map[string]string{}
	var parts []string
	for n := r.Intn(4); n > 0; n-- {
		k, val := sim.Pick(r, hdrKeys[:6]), sim.Pick(r, l1Vals)
		if _, dup := m[k]; dup {
			continue
		}
		m[k] = val
		parts = append(parts, k+"="+val)
	}
	return m, strings.Join(parts, ",")
}

func (r *runner) runL1(env *sim.StreamEnv, rnd *sim.Rand, idx int, fixed []spec, side string) {
	var isReq bool
	if fixed != nil {
		isReq = side == "l1req"
	} else {
		isReq = rnd.Chance(2, 3)
	}
	intended := make([]spec, chainLen)
	hdr := map[string]string{}
	for i := 0; i < chainLen; i++ {
		var s spec
		var enc string
		if fixed != nil {
			if i < len(fixed) {
				s = fixed[i]
			} else {
				s = spec{Kind: "N"}
			}
			var parts []string
			for _, k := range sim.SortedKeys(s.H) {
				parts = append(parts, k+"="+s.H[k])
			}
			enc = strings.Join(parts, ",")
		} else {
			var m map[string]string
			m, enc = l1Headers(rnd)
			s = spec{H: m}
			if isReq {
				switch x := rnd.Intn(10); {
				case x < 2:
					s = spec{Kind: "N"}
				case x < 5:
					s.Kind = "MH"
				case x < 9:
					s.Kind = "MR"
				default:
					s = spec{Kind: "ER", Status: rnd.Range(200, 599), Body: sim.Pick(rnd, []string{"", "eb", "x y"})}
				}
			} else if rnd.Chance(1, 4) {
				s = spec{Kind: "N"}
			} else {
				s.Kind = "M"
			}
		}
		name := fmt.Sprintf("p%d", i+1)
		if !isReq {
			name = fmt.Sprintf("r%d", i+1)
		}
		switch s.Kind {
		case "MH":
			hdr["x-vp-"+name] = "a=modhdr:" + enc
		case "MR":
			hdr["x-vp-"+name] = "a=modreq:" + enc
		case "M":
			hdr["x-vp-"+name] = "a=modresp:" + enc
			s.Status, s.Body = 207, "upstream"
		case "ER":
			hdr["x-vp-"+name] = fmt.Sprintf("a=early:%d:%s", s.Status, s.Body)
			s.H = map[string]string{"x-vp-by": strings.ToUpper(name)}
		}
		intended[i] = s
	}
	sideName := "l1req"
	if !isReq {
		sideName = "l1resp"
	}
	rp := replay{Side: sideName, Seq: intended, Case: fmt.Sprintf("l1-%d", idx), Seed: r.seed}
	r.v.Eval(1)
	sim.Guard(r.v, "C07/panic/l1", rp, func() {
		txn := sim.Txn{ID: fmt.Sprintf("c07-%d-%d", r.seed, idx), Method: "GET", URL: "c07.com/x", Headers: hdr, Status: 207, Body: "upstream"}
		if isReq {
			res := env.OnRequest(txn)
			if res.Err != nil {
				r.v.Inconclude("L1: ExecuteFlow(request) returned " + res.Err.Error())
				return
			}
			produced := make([]spec, len(res.Actions))
			for i, a := range res.Actions {
				produced[i] = specOfReq(a)
			}
			r.l1Compare(produced, intended, "ER")
			o := decode(realReqFold(newReqArgs(), res.Actions))
			if f := judgeReq(produced, o); f != nil {
				rp.Fold = "streams.Stream chain + routing.getSPOEReqActions"
				r.v.Violate(strings.Replace(f.sig, "C07/", "C07/l1/", 1), f.detail+" | produced "+seqString(produced)+" | intended "+seqString(intended), rp)
				return
			}
			r.cnt("l1/request_chains")
			if key, nt := shapeOf(produced, "|MH|MR|GR|"); nt {
				r.v.Distinct("l1req/" + key)
			}
		} else {
			res := env.OnResponse(txn)
			if res.Err != nil {
				r.v.Inconclude("L1: ExecuteFlow(response) returned " + res.Err.Error())
				return
			}
			produced := make([]spec, len(res.Actions))
			for i, a := range res.Actions {
				produced[i] = specOfResp(a)
			}
			r.l1Compare(produced, intended, "")
			o := decode(realRespFold(newRespArgs(), res.Actions))
			if f := judgeResp(produced, o, r.cnt); f != nil {
				rp.Fold = "streams.Stream chain + routing.getSPOERespActions"
				r.v.Violate(strings.Replace(f.sig, "C07/", "C07/l1/", 1), f.detail+" | produced "+seqString(produced)+" | intended "+seqString(intended), rp)
				return
			}
			r.cnt("l1/response_chains")
			if key, nt := shapeOf(produced, "|M|R|"); nt {
				r.v.Distinct("l1resp/" + key)
			}
		}
	})
}

// l1Compare only counts how the list the stream handed over relates to what the processors were told to produce.
func (r *runner) l1Compare(produced, intended []spec, stopKind string) {
	want := intended
	if stopKind != "" {
		for i, s := range intended {
			if s.Kind == stopKind {
				want = intended[:i+1]
				break
			}
		}
	}
	strip := func(in []spec) []spec {
		var out []spec
		for _, s := range in {
			if s.Kind != "N" {
				out = append(out, s)
			}
		}
		return out
	}
	a, b := strip(produced), strip(want)
	same := len(a) == len(b)
	for i := 0; same && i < len(a); i++ {
		same = sameSpec(a[i], b[i])
	}
	if same {
		r.cnt("l1/list_equals_intended(up to first early response, no-ops ignored)")
	} else {
		r.cnt("l1/list_differs_from_intended")
		r.v.Sample(map[string]any{"l1_list_differs": true, "produced": produced, "intended": intended})
	}
}

// ---- main ------------------------------------------------------------------------------------------------

func main() {
	args := sim.ParseArgs()
	sim.Quiet()
	v := sim.NewVerdict("C07", args.Seed, args.Tier, args.Batch, args.Out)
	v.Rule = "case = one sequence of actions folded by the real routing.getSPOEReqActions/getSPOERespActions (and by the same loop over the exported methods); non-trivial iff at least two actions of the sequence are not no-ops; distinct by <side, kind sequence (multiset + first kind beyond length 4), some header edited twice with different values?>"
	v.Assumptions = []string{
		"observation = the SPOE set-var list returned for the action list; header variables parsed back as name:value lines (first ':' separates)",
		"header names are lower-case tokens without ':' and values contain no CR/LF (the line format cannot carry them)",
		"request side: header edits = HeadersToSet of ModifyHeaders, ModifyRequest and GenerateRequest actions; GenerateRequest is a modification, not an early response",
		"not judged (counted only): path/host/query/body retention between request modifications, HeadersToRemove, the kind of the resulting modification, retry vs modify-response precedence, status/body of merged response modifications, retry header merging, effects of folding the same objects twice",
		"response side with retries and modifications mixed: a resulting modification must carry the last-writer-wins union of the modifications of some suffix that starts right after a retry (or of the whole sequence)",
	}
	r := &runner{v: v, seed: args.Seed}

	if args.Replay != "" {
		runReplay(args, r)
		os.Exit(v.Write())
	}

	reqEls := elements([]string{"MH", "MR", "GR", "ER"})
	respEls := elements([]string{"M", "R"})
	reqLen, respLen := args.Pick(3, 4), args.Pick(4, 5)
	v.Extra["exhaustive_bound"] = fmt.Sprintf("request sequences of length <= %d over %d elements (%d), response sequences of length <= %d over %d elements (%d); element = kind x header map over keys {a,b} values {1,2,absent}",
		reqLen, len(reqEls), spaceSize(len(reqEls), reqLen), respLen, len(respEls), spaceSize(len(respEls), respLen))
	v.Exhaustive = true

	lo, hi := args.Share(spaceSize(len(reqEls), reqLen))
	for i := lo; i < hi; i++ {
		r.runReq(nth(reqEls, reqLen, i), fmt.Sprintf("xreq-%d", i), true)
	}
	v.Count("exhaustive/request_sequences", hi-lo)
	lo, hi = args.Share(spaceSize(len(respEls), respLen))
	for i := lo; i < hi; i++ {
		r.runResp(nth(respEls, respLen, i), fmt.Sprintf("xresp-%d", i))
	}
	v.Count("exhaustive/response_sequences", hi-lo)

	nRand := args.Pick(200000, 3000000)
	lo, hi = args.Share(nRand)
	for i := lo; i < hi; i++ {
		rnd := args.CaseRand(i)
		if i%2 == 0 {
			r.runReq(randReqSeq(rnd), fmt.Sprintf("rand-%d", i), true)
		} else {
			r.runResp(randRespSeq(rnd), fmt.Sprintf("rand-%d", i))
		}
	}
	v.Count("random/sequences", hi-lo)

	nL1 := args.Pick(2000, 20000)
	lo, hi = args.Share(nL1)
	if hi > lo {
		root := sim.ScratchRoot("c07")
		defer os.RemoveAll(root)
		env, err := sim.NewStreamEnv(root, sim.Config{Flows: map[string]string{"chain.yaml": chainFlow()}, Quotas: map[string]string{}})
		if err != nil {
			v.Inconclude("L1: the chain flow was rejected by the engine: " + err.Error())
		} else {
			for i := lo; i < hi; i++ {
				r.runL1(env, args.CaseRand(5_000_000+i), i, nil, "")
			}
		}
		os.RemoveAll(root)
	}
	if v.Evaluations == 0 {
		v.Inconclude("nothing evaluated in this batch")
	}
	if v.Counters["folds_disagree(real vs exported-methods loop)"] > 0 {
		v.Inconclude("the harness copy of the fold loop disagrees with routing.getSPOE*Actions: the copy is out of date")
	}
	os.Exit(v.Write())
}

func runReplay(args sim.Args, r *runner) {
	data, err := os.ReadFile(args.Replay)
	if err != nil {
		r.v.Inconclude("cannot read replay file: " + err.Error())
		return
	}
	var wrap struct {
		Replay replay `json:"replay"`
	}
	if err := json.Unmarshal(data, &wrap); err != nil || wrap.Replay.Side == "" {
		r.v.Inconclude("cannot parse replay file")
		return
	}
	rp := wrap.Replay
	switch rp.Side {
	case "req":
		r.runReq(rp.Seq, rp.Case, true)
	case "resp":
		r.runResp(rp.Seq, rp.Case)
	case "l1req", "l1resp":
		root := sim.ScratchRoot("c07")
		defer os.RemoveAll(root)
		env, err := sim.NewStreamEnv(root, sim.Config{Flows: map[string]string{"chain.yaml": chainFlow()}, Quotas: map[string]string{}})
		if err != nil {
			r.v.Inconclude("L1: the chain flow was rejected by the engine: " + err.Error())
			return
		}
		r.runL1(env, sim.NewRand(1), 0, rp.Seq, rp.Side)
	}
}
