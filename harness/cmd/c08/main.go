// C08 - a configuration update is all-or-nothing.
//
// L1: the real HandlingDataManager (flows mode) with its admin mux (PUT /configuration,
// PUT /apply_flows, POST /load_flows) and routing.Handler. Fault enumeration: a recording run lists
// the fault points an update passes through (file-system store/remove/backup, reload validate/init);
// then one run per fault point fails exactly that point. After every run the configuration tree is
// compared byte for byte and the running engine is probed; during successful switches prober
// goroutines hammer the engine while the reloader is parked right after publishing the new engine.
package main

import (
	"encoding/json"
	"errors"
	"fmt"
	"os"
	"sort"
	"strings"
	"sync"
	"sync/atomic"
	"time"

	"lunar/toolkit-core/verifhook"

	"verif/harness/sim"
)

// flowDef is what one flow file means: requests to Host/* are answered with Status.
type flowDef struct {
	Host   string `json:"host"`
	Status int    `json:"status"`
}

type confModel map[string]flowDef // flow file name -> meaning

func flowFile(name string, d flowDef) string {
	return fmt.Sprintf(`name: %s
filter:
  url: %s/*
processors:
  M:
    processor: VerifProbe
  G:
    processor: GenerateResponse
    parameters:
      - key: status
        value: %d
      - key: body
        value: %s-%d
flow:
  request:
    - from:
        stream:
          name: globalStream
          at: start
      to:
        processor:
          name: M
    - from:
        processor:
          name: M
      to:
        processor:
          name: G
  response:
    - from:
        processor:
          name: G
      to:
        stream:
          name: globalStream
          at: end
`, name, d.Host, d.Status, name, d.Status)
}

const quotaFile = "quotas:\n  - id: qbig\n    filter:\n      url: quota.com/*\n    strategy:\n      fixed_window:\n        max: 100000000\n        interval: 1\n        interval_unit: hour\n"

var hostsProbed = []string{"a.com", "onlya.com", "onlyb.com", "c.com", "other.com"}

func (m confModel) answer(host string) int {
	for _, d := range m {
		if d.Host == host {
			return d.Status
		}
	}
	return 0
}

func (m confModel) files() map[string]string {
	out := map[string]string{}
	for n, d := range m {
		out[n] = flowFile(strings.TrimSuffix(n, ".yaml"), d)
	}
	return out
}

func (m confModel) clone() confModel {
	c := confModel{}
	for k, v := range m {
		c[k] = v
	}
	return c
}

var baseA = confModel{"fa.yaml": {"a.com", 418}, "fonlya.yaml": {"onlya.com", 418}}

type update struct {
	Name     string            `json:"name"`
	Endpoint string            `json:"endpoint"` // configuration | apply_flows
	Flows    map[string]string `json:"-"`
	FlowDefs confModel         `json:"flows,omitempty"` // valid flow files of the payload
	RawFlows map[string]string `json:"raw_flows,omitempty"`
	Quotas   map[string]string `json:"quotas,omitempty"`
	PathPar  map[string]string `json:"path_params,omitempty"`
	Gateway  string            `json:"gateway,omitempty"`
	Metrics  string            `json:"metrics,omitempty"`
	RawBody  string            `json:"raw_body,omitempty"`
	Valid    bool              `json:"valid"`
}

func (u update) body() []byte {
	if u.RawBody != "" {
		return []byte(u.RawBody)
	}
	p := sim.Payload{}
	if u.FlowDefs != nil || u.RawFlows != nil {
		p.Flows = map[string]string{}
		for n, c := range u.FlowDefs.files() {
			p.Flows[n] = sim.B64(c)
		}
		for n, c := range u.RawFlows {
			if strings.HasPrefix(c, "!!raw:") {
				p.Flows[n] = strings.TrimPrefix(c, "!!raw:")
			} else {
				p.Flows[n] = sim.B64(c)
			}
		}
	}
	if u.Quotas != nil {
		p.Quotas = map[string]string{}
		for n, c := range u.Quotas {
			p.Quotas[n] = sim.B64(c)
		}
	}
	if u.PathPar != nil {
		p.PathParams = map[string]string{}
		for n, c := range u.PathPar {
			p.PathParams[n] = sim.B64(c)
		}
	}
	if u.Gateway != "" {
		p.GatewayConfig = sim.B64(u.Gateway)
	}
	if u.Metrics != "" {
		p.Metrics = sim.B64(u.Metrics)
	}
	return p.JSON()
}

// expected model after a successful update
func (u update) after(before confModel) confModel {
	var m confModel
	if u.Endpoint == "apply_flows" {
		m = confModel{}
	} else {
		m = before.clone()
	}
	for n, d := range u.FlowDefs {
		m[n] = d
	}
	return m
}

func cyclicFlow() string {
	s := flowFile("fcyc", flowDef{"c.com", 420})
	return strings.Replace(s, "  response:", "    - from:\n        processor:\n          name: M\n      to:\n        processor:\n          name: M\n  response:", 1)
}

func updates(metricsYAML string) []update {
	var us []update
	for _, ep := range []string{"configuration", "apply_flows"} {
		us = append(us,
			update{Name: "change-and-add", Endpoint: ep, Valid: true, FlowDefs: confModel{"fa.yaml": {"a.com", 419}, "fonlyb.yaml": {"onlyb.com", 419}}},
			update{Name: "change-one", Endpoint: ep, Valid: true, FlowDefs: confModel{"fa.yaml": {"a.com", 419}}},
			update{Name: "add-one-with-quota-and-path-params", Endpoint: ep, Valid: true, FlowDefs: confModel{"fc.yaml": {"c.com", 419}},
				Quotas: map[string]string{"q2.yaml": strings.ReplaceAll(quotaFile, "quota.com", "quota2.com")}, PathPar: map[string]string{"pp.yaml": "pathParams:\n  - url: pp.com/{id}\n"}},
			update{Name: "gateway-and-metrics-only", Endpoint: ep, Valid: true, Gateway: "allowed_domains: []\n", Metrics: metricsYAML},
			update{Name: "valid-flows-with-unloadable-metrics", Endpoint: ep, FlowDefs: confModel{"fa.yaml": {"a.com", 419}, "fonlyb.yaml": {"onlyb.com", 419}}, Metrics: "general_metrics:\n  label_value: [unterminated\n"},
			update{Name: "valid-flows-with-metrics-of-wrong-shape", Endpoint: ep, FlowDefs: confModel{"fa.yaml": {"a.com", 419}}, Metrics: "general_metrics: 17\nsystem_metrics: yes\n"},
			update{Name: "invalid-structure-with-a-yml-file", Endpoint: ep, FlowDefs: confModel{"fa.yaml": {"a.com", 419}}, RawFlows: map[string]string{"new.yml": flowFile("fnew", flowDef{"c.com", 420}), "bad.yaml": "name: bad\nfilter:\n  url: c.com/*\n"}},
			update{Name: "invalid-undecodable-json", Endpoint: ep, RawBody: "{\"flows\": {\"x.yaml\": "},
			update{Name: "invalid-bad-base64-second-file", Endpoint: ep, FlowDefs: confModel{"fa.yaml": {"a.com", 419}}, RawFlows: map[string]string{"zz.yaml": "!!raw:***not-base64***"}},
			update{Name: "invalid-structure", Endpoint: ep, FlowDefs: confModel{"fa.yaml": {"a.com", 419}}, RawFlows: map[string]string{"bad.yaml": "name: bad\nfilter:\n  url: c.com/*\n"}},
			update{Name: "invalid-cyclic-flow", Endpoint: ep, FlowDefs: confModel{"fa.yaml": {"a.com", 419}}, RawFlows: map[string]string{"fcyc.yaml": cyclicFlow()}},
			update{Name: "invalid-unknown-processor", Endpoint: ep, FlowDefs: confModel{"fa.yaml": {"a.com", 419}}, RawFlows: map[string]string{"funk.yaml": strings.Replace(flowFile("funk", flowDef{"c.com", 420}), "processor: GenerateResponse", "processor: NoSuchProcessor", 1)}},
			update{Name: "invalid-quota-two-hosts", Endpoint: ep, FlowDefs: confModel{"fa.yaml": {"a.com", 419}}, Quotas: map[string]string{"q3.yaml": "quotas:\n  - id: q3a\n    filter:\n      url: h1.com/*\n    strategy:\n      fixed_window:\n        max: 1\n        interval: 1\n        interval_unit: hour\n  - id: q3b\n    filter:\n      url: h2.com/*\n    strategy:\n      fixed_window:\n        max: 1\n        interval: 1\n        interval_unit: hour\n"}},
			update{Name: "invalid-duplicate-flow-name", Endpoint: ep, FlowDefs: confModel{"fa.yaml": {"a.com", 419}}, RawFlows: map[string]string{"fdup.yaml": flowFile("fa", flowDef{"c.com", 420})}},
		)
	}
	return us
}

type faultCall struct {
	Point string `json:"point"`
	Arg   string `json:"arg,omitempty"`
}

type replay struct {
	Update      update      `json:"update"`
	FaultAt     int         `json:"fault_at"`                // 0 = none, k = k-th fault point fails
	AlsoFaultAt int         `json:"also_fault_at,omitempty"` // second (restore-time) fault
	Points      []faultCall `json:"fault_points_passed,omitempty"`
	Status      int         `json:"status"`
	Body        string      `json:"body,omitempty"`
	TreeDiff    []string    `json:"tree_diff,omitempty"`
	Behaviour   string      `json:"behaviour,omitempty"`
}

type world struct {
	// base: the configuration every run starts from. baseA (two flows + a quota file) or the empty model:
	// a fresh gateway with no persisted file at all
	base    confModel
	tag     string // "" for baseA, "from-empty-gateway/" otherwise (prefix of the cause in signatures)
	eng     *sim.Engine
	v       *sim.Verdict
	metrics string
	nextID  atomic.Int64
}

func (w *world) probeAll() map[string]int {
	out := map[string]int{}
	for _, h := range hostsProbed {
		id := fmt.Sprintf("p%d", w.nextID.Add(1))
		res := w.eng.SendRequest(sim.Txn{ID: id, Method: "GET", URL: h + "/x", Headers: map[string]string{}})
		if res.Early() {
			out[h] = res.Status()
		} else {
			out[h] = 0
		}
	}
	return out
}

func modelAnswers(m confModel) map[string]int {
	out := map[string]int{}
	for _, h := range hostsProbed {
		out[h] = m.answer(h)
	}
	return out
}

func sameAnswers(a, b map[string]int) bool {
	for _, h := range hostsProbed {
		if a[h] != b[h] {
			return false
		}
	}
	return true
}

// resetToA restores the baseline on disk and in the engine.
func (w *world) resetToA() bool {
	verifhook.SetFault(nil)
	cfg := sim.Config{Flows: w.base.files()}
	if len(w.base) > 0 {
		cfg.Quotas = map[string]string{"q.yaml": quotaFile}
		// a file the engine does not load (only *.yaml is) but which is part of the configuration on disk
		cfg.Flows["parked.yaml.disabled"] = "name: parked\n# kept by the operator for later\n"
		// path params kept in a sub-directory (the loader walks the tree)
		cfg.PathParams = map[string]string{"team-a/nested.yaml": "pathParams:\n  - url: nested.com/orders/{id}\n"}
	}
	sim.WriteConfDir(cfg)
	code, body := w.eng.Admin("POST", "/load_flows", nil)
	if code != 200 {
		w.v.Inconclude(fmt.Sprintf("harness: cannot reload baseline A: %d %s", code, body))
		return false
	}
	if got := w.probeAll(); !sameAnswers(got, modelAnswers(w.base)) {
		w.v.Inconclude(fmt.Sprintf("harness: baseline A does not behave as A: %v", got))
		return false
	}
	return true
}

func (w *world) apply(u update, failAt int, alsoFail int) (int, string, []faultCall, bool) {
	var mu sync.Mutex
	var calls []faultCall
	verifhook.SetFault(func(point string, args []string) error {
		mu.Lock()
		defer mu.Unlock()
		c := faultCall{Point: point}
		if len(args) > 0 {
			c.Arg = strings.TrimPrefix(args[0], sim.ConfDir()+"/")
		}
		calls = append(calls, c)
		if (failAt > 0 && len(calls) == failAt) || (alsoFail > 0 && len(calls) == alsoFail) {
			return errors.New("verif: injected fault at " + point)
		}
		return nil
	})
	defer verifhook.SetFault(nil)
	if failAt < 0 {
		// HAProxy's management API refuses the (-failAt)-th endpoint registration of this update: a step of the
		// update that fails after the new flows were built
		w.eng.HAProxy.Reset()
		w.eng.HAProxy.FailOnce("PUT /managed_endpoint", -failAt-1)
		defer w.eng.HAProxy.FailOnce("", 0)
	}
	var code int
	var body string
	panicked := sim.Guard(w.v, "C08/update-panicked/"+u.Endpoint+"/"+u.Name, replay{Update: u, FaultAt: failAt, AlsoFaultAt: alsoFail}, func() {
		code, body = w.eng.Admin("PUT", "/"+u.Endpoint, u.body())
	})
	return code, body, calls, panicked
}

func diffKinds(d []string) string {
	kinds := map[string]bool{}
	for _, x := range d {
		kinds[strings.SplitN(x, ":", 2)[0]] = true
	}
	return strings.Join(sim.SortedKeys(kinds), "+")
}

func (w *world) runOne(u update, failAt int, alsoFail int, points *[]faultCall) {
	if !w.resetToA() {
		return
	}
	w.v.Eval(1)
	before := sim.TreeDigest()
	code, body, calls, panicked := w.apply(u, failAt, alsoFail)
	if points != nil {
		*points = calls
	}
	if panicked {
		return
	}
	rp := replay{Update: u, FaultAt: failAt, AlsoFaultAt: alsoFail, Points: calls, Status: code, Body: body}
	cause := w.tag + "no-fault/" + u.Name
	if failAt < 0 {
		refused := false
		for _, rq := range w.eng.HAProxy.Snapshot() {
			refused = refused || strings.HasPrefix(rq, "FAILED ")
		}
		if !refused {
			w.v.Count("haproxy_refusal_not_reached", 1)
			return
		}
		w.v.Count("updates_during_which_haproxy_refused_a_registration", 1)
		cause = w.tag + "haproxy-refuses-a-registration"
	}
	if failAt > 0 {
		if failAt > len(calls) {
			w.v.Count("fault_point_not_reached", 1)
			return
		}
		// restore-time points are reported apart from update-time ones
		cause = w.tag + "fault-" + calls[failAt-1].Point
		if alsoFail > 0 && alsoFail <= len(calls) {
			cause += "+restore-time-" + calls[alsoFail-1].Point
		}
	}
	after := sim.TreeDigest()
	diff := sim.DigestDiff(before, after)
	rp.TreeDiff = diff
	got := w.probeAll()
	rp.Behaviour = fmt.Sprint(got)
	w.v.Count("runs", 1)
	if failAt > 0 {
		w.v.Count("faults_injected", 1)
		w.v.Count("faults_injected:"+calls[failAt-1].Point, 1)
	}
	// A second failure while the engine is already restoring (explicit double fault, or a fault at a
	// point that an invalid payload only reaches after it has failed by itself) is outside the
	// statement's "a failure at any step of the update": such runs are counted, not judged.
	restoreTime := alsoFail > 0
	if failAt > 0 && !u.Valid {
		firstValidate := 0
		for i, c := range calls {
			if c.Point == "reload.validate" {
				firstValidate = i + 1
				break
			}
		}
		if firstValidate > 0 && failAt > firstValidate {
			restoreTime = true
		}
	}
	if restoreTime {
		w.v.Count("restore_time_fault_runs_not_judged", 1)
		if len(diff) > 0 {
			w.v.Count("restore_time_fault_left_tree_changed", 1)
		}
		return
	}
	success := code >= 200 && code < 300
	if success {
		w.v.Count("updates_succeeded", 1)
		want := u.after(w.base)
		if !sameAnswers(got, modelAnswers(want)) {
			w.v.Violate(fmt.Sprintf("C08/success-but-not-the-new-configuration/%s/%s", u.Endpoint, cause),
				fmt.Sprintf("update answered %d, the new configuration answers %v, the engine answers %v", code, modelAnswers(want), got), rp)
			return
		}
		if !u.Valid {
			w.v.Count("invalid_payload_accepted_consistently", 1)
		}
		// what is on disk must be what now runs: reload and probe again
		c2, b2 := w.eng.Admin("POST", "/load_flows", nil)
		for try := 0; c2 != 200 && try < 2; try++ {
			// the reload talks to the fake HAProxy over real loopback HTTP: a transient hiccup there
			// says nothing about the files on disk
			w.v.Count("load_flows_retried", 1)
			c2, b2 = w.eng.Admin("POST", "/load_flows", nil)
		}
		if c2 == 200 {
			if got2 := w.probeAll(); !sameAnswers(got2, got) {
				w.v.Violate(fmt.Sprintf("C08/disk-and-engine-disagree-after-success/%s/%s", u.Endpoint, cause),
					fmt.Sprintf("after the successful update the engine answers %v, after re-loading the files on disk %v", got, got2), rp)
			}
		} else {
			w.v.Violate(fmt.Sprintf("C08/disk-not-loadable-after-success/%s/%s", u.Endpoint, cause), fmt.Sprintf("the files left on disk by a successful update do not load: %d %s", c2, b2), rp)
		}
		w.v.Distinct(fmt.Sprintf("ok/%s/%s/%s", u.Endpoint, u.Name, cause))
		return
	}
	w.v.Count("updates_failed", 1)
	if len(diff) > 0 {
		w.v.Violate(fmt.Sprintf("C08/failed-update-changed-files/%s/%s/%s", u.Endpoint, cause, diffKinds(diff)),
			fmt.Sprintf("update answered %d but the configuration tree differs from before: %v", code, diff), rp)
		return
	}
	if !sameAnswers(got, modelAnswers(w.base)) {
		w.v.Violate(fmt.Sprintf("C08/failed-update-changed-behaviour/%s/%s", u.Endpoint, cause),
			fmt.Sprintf("update answered %d, files unchanged, but the engine answers %v instead of %v", code, got, modelAnswers(w.base)), rp)
		return
	}
	if len(w.base) == 0 && failAt == 0 {
		// the gateway must not be wedged by what the rejected update left behind
		ok := update{Name: "valid-after-rejected", Endpoint: u.Endpoint, Valid: true, FlowDefs: confModel{"fa.yaml": {"a.com", 419}}}
		c3, b3, _, p3 := w.apply(ok, 0, 0)
		if !p3 && (c3 < 200 || c3 >= 300) {
			w.v.Violate(fmt.Sprintf("C08/valid-update-rejected-after-a-failed-one/%s/%s", u.Endpoint, cause),
				fmt.Sprintf("after the rejected update (%d) a valid update was answered %d %s", code, c3, b3), rp)
			return
		}
	}
	w.v.Distinct(fmt.Sprintf("fail/%s/%s/%s", u.Endpoint, u.Name, cause))
	if w.v.Counters["runs"]%17 == 0 {
		w.v.Sample(rp)
	}
}

// switchUnderTraffic: valid A->B switch while probers run and the reloader is parked after publishing.
func (w *world) switchUnderTraffic(u update, round int) {
	if !w.resetToA() {
		return
	}
	w.v.Eval(1)
	want := u.after(baseA)
	var stop atomic.Bool
	var wg sync.WaitGroup
	type obs struct {
		host   string
		status int
	}
	var mu sync.Mutex
	var bad []obs
	var seen atomic.Int64
	var parked atomic.Int64
	verifhook.SetYield(func(point string, _ []string) {
		if point == "reload.published" {
			parked.Add(1)
			// scheduling perturbation only: let the probers run against whatever is published now
			target := seen.Load() + 400
			deadline := time.Now().Add(300 * time.Millisecond)
			for seen.Load() < target && time.Now().Before(deadline) {
				time.Sleep(200 * time.Microsecond)
			}
		}
	})
	defer verifhook.SetYield(nil)
	for p := 0; p < 4; p++ {
		wg.Add(1)
		go func(p int) {
			defer wg.Done()
			for i := 0; !stop.Load(); i++ {
				h := hostsProbed[(i+p)%len(hostsProbed)]
				id := fmt.Sprintf("s%d-%d-%d", round, p, i)
				res := w.eng.SendRequest(sim.Txn{ID: id, Method: "GET", URL: h + "/x", Headers: map[string]string{}})
				st := 0
				if res.Early() {
					st = res.Status()
				}
				seen.Add(1)
				if st != baseA.answer(h) && st != want.answer(h) {
					mu.Lock()
					bad = append(bad, obs{h, st})
					mu.Unlock()
				}
			}
		}(p)
	}
	code, body, _, panicked := w.apply(u, 0, 0)
	stop.Store(true)
	wg.Wait()
	w.v.Count("switches_under_traffic", 1)
	w.v.Count("probes_during_switches", int(seen.Load()))
	w.v.Count("reloader_parked_after_publish", int(parked.Load()))
	if panicked {
		return
	}
	rp := replay{Update: u, Status: code, Body: body}
	if code < 200 || code >= 300 {
		w.v.Violate("C08/valid-update-rejected-under-traffic/"+u.Endpoint, fmt.Sprintf("%d %s", code, body), rp)
		return
	}
	if len(bad) > 0 {
		kinds := map[string]int{}
		for _, b := range bad {
			kinds[fmt.Sprintf("%s->%d(A:%d,B:%d)", b.host, b.status, baseA.answer(b.host), want.answer(b.host))]++
		}
		w.v.Violate("C08/in-flight-transaction-saw-neither-old-nor-new/"+u.Endpoint,
			fmt.Sprintf("%d of %d probes during the switch were answered by neither the old nor the new configuration: %v", len(bad), seen.Load(), kinds), rp)
		return
	}
	w.v.Distinct(fmt.Sprintf("switch/%s/%s", u.Endpoint, u.Name))
}

func main() {
	sim.ReexecWithEngineEnv(true)
	args := sim.ParseArgs()
	v := sim.NewVerdict("C08", args.Seed, args.Tier, args.Batch, args.Out)
	v.Rule = "case = (endpoint in {PUT /configuration, PUT /apply_flows}) x (payload class: valid change/add with quota and path-params, gateway+metrics only, undecodable JSON, bad base64, invalid structure, cyclic flow, unknown processor, quota with two hosts, duplicate flow name) x (no fault | the k-th fault point of that update fails, for every k of the recording run: fs.backup, fs.remove, fs.store, reload.validate, reload.init, incl. restore-time points), plus valid switches under prober traffic with the reloader parked after publishing; non-trivial = every run (each exercises a different fault point or payload); distinct by <endpoint, payload, fault point kind, outcome>"
	v.Assumptions = []string{
		"fault points are the Fault() hooks in gateway_file_system.go (store, remove, backup) and in the reload path (validate, init); a real syscall failure at the same place returns the same error path",
		"behaviour is probed on five hosts whose flows answer with distinguishable early responses; 'as before' = same answers and a byte-identical configuration tree (flows, quotas, path params, gateway and metrics files)",
		"the park after publishing is a scheduling perturbation (bounded sleep), verdicts only compare each probe's answer with the old and the new configuration's answer",
	}
	metricsYAML := ""
	if data, err := os.ReadFile(sim.RepoRoot() + "/proxy/metrics.yaml"); err == nil {
		metricsYAML = string(data)
	}
	eng, err := sim.BootEngine(sim.Config{Flows: baseA.files(), Quotas: map[string]string{"q.yaml": quotaFile}})
	if err != nil {
		v.Inconclude("engine did not boot: " + err.Error())
		os.Exit(v.Write())
	}
	w := &world{eng: eng, v: v, metrics: metricsYAML, base: baseA}
	us := updates(metricsYAML)
	if args.Replay != "" {
		data, rerr := os.ReadFile(args.Replay)
		var wrap struct {
			Replay replay `json:"replay"`
		}
		if rerr == nil {
			rerr = json.Unmarshal(data, &wrap)
		}
		if rerr != nil {
			v.Inconclude(rerr.Error())
			os.Exit(v.Write())
		}
		for _, u := range us {
			if u.Name == wrap.Replay.Update.Name && u.Endpoint == wrap.Replay.Update.Endpoint {
				w.runOne(u, wrap.Replay.FaultAt, wrap.Replay.AlsoFaultAt, nil)
			}
		}
		os.Exit(v.Write())
	}
	// work list: (update, fault index); recording runs first to learn the number of points
	type job struct {
		u              update
		failAt, alsoAt int
	}
	var jobs []job
	idx := 0
	for _, u := range us {
		mine := idx%args.Batches == args.Batch
		idx++
		if !mine {
			continue
		}
		var points []faultCall
		w.runOne(u, 0, 0, &points)
		v.Count("fault_points_recorded", len(points))
		for k := 1; k <= len(points); k++ {
			jobs = append(jobs, job{u, k, 0})
		}
	}
	idx = 0
	for _, u := range us {
		mine := idx%args.Batches == args.Batch
		idx++
		if mine && len(u.FlowDefs)+len(u.RawFlows) > 0 {
			w.runOne(u, -1, 0, nil)
			w.runOne(u, -2, 0, nil)
		}
	}
	for _, j := range jobs {
		var passed []faultCall
		w.runOne(j.u, j.failAt, 0, &passed)
		// a failing update passes through further (restore-time) points: second sweep fails the
		// first restore-time point as well
		if len(passed) > j.failAt && (args.Thorough() || j.failAt%3 == 0) {
			w.runOne(j.u, j.failAt, j.failAt+1, nil)
		}
	}
	// the same updates on a fresh gateway (no persisted file): no-fault runs of every payload, and the full
	// fault sweep in the thorough tier
	w.base, w.tag = confModel{}, "from-empty-gateway/"
	idx = 0
	for _, u := range us {
		mine := idx%args.Batches == args.Batch
		idx++
		if !mine {
			continue
		}
		var points []faultCall
		w.runOne(u, 0, 0, &points)
		if args.Thorough() || u.Name == "change-and-add" || u.Name == "invalid-structure" {
			for k := 1; k <= len(points); k++ {
				w.runOne(u, k, 0, nil)
			}
		}
		v.Count("runs_from_empty_gateway", 1)
	}
	w.base, w.tag = baseA, ""
	// switches under traffic
	rounds := args.Pick(2, 12)
	si := 0
	for _, u := range us {
		if !u.Valid || len(u.FlowDefs) == 0 {
			continue
		}
		for r := 0; r < rounds; r++ {
			if si%args.Batches == args.Batch {
				w.switchUnderTraffic(u, si)
			}
			si++
		}
	}
	keys := make([]string, 0)
	for k := range v.Counters {
		if strings.HasPrefix(k, "faults_injected:") {
			keys = append(keys, k)
		}
	}
	sort.Strings(keys)
	v.Extra["fault_point_kinds_exercised"] = keys
	if v.Counters["runs"] == 0 {
		v.Inconclude("no update was run in this batch")
	}
	os.Exit(v.Write())
}
