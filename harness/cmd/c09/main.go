// C09 - policy-mode strategy-based throttling never exceeds the allowed count per epoch-aligned window.
//
// The real remedies.StrategyBasedThrottlingPlugin (+ limit.NewRateLimitState) runs on a virtual clock and
// is driven with hand-built OnRequest messages. Oracle: a per-(remedy, group value) counter over the
// epoch grid written from the statement, in exact integer/rational arithmetic, evaluated under two window
// conventions ([kW,(k+1)W) and (kW,(k+1)W]); a history is violating only if it contradicts both.
// Concurrent rounds (clock frozen inside a window) are judged by conservation and porcupine.
package main

import (
	"context"
	"encoding/json"
	"fmt"
	"math/big"
	"os"
	"sort"
	"strings"
	"sync"
	"sync/atomic"
	"time"

	"github.com/anishathalye/porcupine"

	"lunar/engine/actions"
	"lunar/engine/config"
	lunarMessages "lunar/engine/messages"
	"lunar/engine/services/remedies"
	"lunar/engine/utils"
	"lunar/engine/utils/limit"
	"lunar/engine/utils/obfuscation"
	sharedConfig "lunar/shared-model/config"
	"lunar/toolkit-core/logging"

	"verif/harness/sim"
)

// ---- configuration of a case -------------------------------------------------------------------

type groupCfg struct {
	Value    string `json:"value"`
	PctMilli int64  `json:"pct_milli"` // allocation percentage * 1000 (12.5 % = 12500)
}

type remedyCfg struct {
	Name            string     `json:"name"`
	Allowed         int64      `json:"allowed"`
	WindowS         int        `json:"window_s"`
	Status          int        `json:"status"` // 0 = not configured (429 expected)
	Grouped         bool       `json:"grouped"`
	Header          string     `json:"header,omitempty"`
	Groups          []groupCfg `json:"groups,omitempty"`
	Default         string     `json:"default,omitempty"`
	DefaultPctMilli int64      `json:"default_pct_milli,omitempty"`
}

type arrival struct {
	OffsetNs   int64  `json:"offset_ns"` // relative to base (base is a multiple of 60 s since the epoch)
	Remedy     int    `json:"remedy"`
	HasHeader  bool   `json:"has_header,omitempty"`
	Value      string `json:"value,omitempty"`
	SetWindowS int    `json:"set_window_s,omitempty"` // the remedy's window size becomes this before the request
	Passed     bool   `json:"passed"`
	Status     int    `json:"status,omitempty"`
}

type caseCfg struct {
	Remedies   []remedyCfg `json:"remedies"`
	GridExact  bool        `json:"grid_exact"`
	Change     bool        `json:"change"`
	Concurrent bool        `json:"concurrent"`
}

type replay struct {
	Case     int         `json:"case"`
	Seed     uint64      `json:"seed"`
	Cfg      caseCfg     `json:"cfg"`
	Arrivals []arrival   `json:"arrivals"`
	Rounds   [][]arrival `json:"rounds,omitempty"`
	Note     string      `json:"note,omitempty"`
	Deaths   []string    `json:"convention_verdicts,omitempty"`
}

var base = time.Date(2026, 3, 1, 12, 0, 0, 0, time.UTC) // unix seconds divisible by 60

const sec = int64(time.Second)

// ---- exact shares --------------------------------------------------------------------------------

// shares returns ceil(allowed*pct/100) for the decimal reading of the percentage and for the exact
// binary value of the float64 the configuration carries; the oracle uses the larger one for the bound
// and the smaller one for the exactness clause (they differ only for non-dyadic fractional percentages).
func shares(allowed, pctMilli int64) (min, max int64) {
	dec := (allowed*pctMilli + 99999) / 100000
	f := float64(pctMilli) / 1000
	rat := new(big.Rat).SetFloat64(f)
	rat.Mul(rat, big.NewRat(allowed, 100))
	q := new(big.Int).Quo(rat.Num(), rat.Denom())
	if new(big.Int).Mul(q, rat.Denom()).Cmp(rat.Num()) != 0 {
		q.Add(q, big.NewInt(1))
	}
	bin := q.Int64()
	if dec < bin {
		return dec, bin
	}
	return bin, dec
}

type keyClass struct {
	Kind     string // "share" | "allow" | "block" | "unjudged"
	Label    string // ungrouped | group | default-allocation
	PctMilli int64
	Min, Max int64
	Key      string
}

func classify(rc remedyCfg, a arrival) keyClass {
	if !rc.Grouped {
		return keyClass{Kind: "share", Label: "ungrouped", PctMilli: 100000, Min: rc.Allowed, Max: rc.Allowed, Key: rc.Name + "|<ungrouped>"}
	}
	val := ""
	if a.HasHeader {
		val = a.Value
	}
	key := rc.Name + "|" + val
	for _, g := range rc.Groups {
		if g.Value == val {
			mn, mx := shares(rc.Allowed, g.PctMilli)
			return keyClass{Kind: "share", Label: "group", PctMilli: g.PctMilli, Min: mn, Max: mx, Key: key}
		}
	}
	switch rc.Default {
	case "allow":
		return keyClass{Kind: "allow", Label: "default-allow", Key: key}
	case "block":
		return keyClass{Kind: "block", Label: "default-block", Key: key}
	case "use_default_allocation":
		mn, mx := shares(rc.Allowed, rc.DefaultPctMilli)
		return keyClass{Kind: "share", Label: "default-allocation", PctMilli: rc.DefaultPctMilli, Min: mn, Max: mx, Key: key}
	}
	return keyClass{Kind: "unjudged", Label: "default-undefined", Key: key}
}

// ---- reference model (from the statement) ---------------------------------------------------------

type remState struct {
	W         int64 // ns
	PrevW     []int64
	JudgeFrom int64 // absolute ns: windows starting earlier are not judged (window size change)
	ExactFrom int64
}

type keyState struct {
	W, K, Count int64
}

type death struct {
	Kind   string // over-admission | spurious-rejection
	Idx    int
	Key    string
	Class  keyClass
	WinLo  int64
	W      int64
	Count  int64
	Remedy int
}

func (d *death) String() string {
	return fmt.Sprintf("%s at #%d key=%q window=[%d ns +%d s] passed-so-far=%d share=%d..%d", d.Kind, d.Idx, d.Key, d.WinLo, d.W/sec, d.Count, d.Class.Min, d.Class.Max)
}

type oracle struct {
	RightClosed bool
	Dead        *death
	keys        map[string]*keyState
	Rollovers   int
}

func (o *oracle) name() string {
	if o.RightClosed {
		return "(kW,(k+1)W]"
	}
	return "[kW,(k+1)W)"
}

func (o *oracle) window(t, w int64) int64 {
	if o.RightClosed {
		return (t - 1) / w
	}
	return t / w
}

func (o *oracle) step(idx int, t int64, ri int, rs *remState, kc keyClass, passed bool) {
	if o.Dead != nil || kc.Kind != "share" {
		return
	}
	k := o.window(t, rs.W)
	lo := k * rs.W
	if lo < rs.JudgeFrom {
		return
	}
	ks := o.keys[kc.Key]
	if ks == nil {
		ks = &keyState{W: rs.W, K: k}
		o.keys[kc.Key] = ks
	}
	if ks.W != rs.W || ks.K != k {
		if ks.Count > 0 {
			o.Rollovers++
		}
		ks.W, ks.K, ks.Count = rs.W, k, 0
	}
	if passed {
		if ks.Count >= kc.Max {
			o.Dead = &death{Kind: "over-admission", Idx: idx, Key: kc.Key, Class: kc, WinLo: lo, W: rs.W, Count: ks.Count, Remedy: ri}
			return
		}
		ks.Count++
		return
	}
	if lo >= rs.ExactFrom && ks.Count < kc.Min {
		o.Dead = &death{Kind: "spurious-rejection", Idx: idx, Key: kc.Key, Class: kc, WinLo: lo, W: rs.W, Count: ks.Count, Remedy: ri}
	}
}

// ---- system under test -----------------------------------------------------------------------------

type sut struct {
	clk     *sim.VClock
	plugin  *remedies.StrategyBasedThrottlingPlugin
	scoped  []config.ScopedRemedy
	cfg     caseCfg
	windowS []int
}

func buildScoped(rc remedyCfg, windowS int) config.ScopedRemedy {
	sc := &sharedConfig.StrategyBasedThrottlingConfig{
		AllowedRequestCount: rc.Allowed,
		WindowSizeInSeconds: windowS,
		ResponseStatusCode:  rc.Status,
	}
	if rc.Grouped {
		gqa := &sharedConfig.GroupQuotaAllocation{
			GroupBy:                     &sharedConfig.GroupBy{HeaderName: rc.Header},
			Default:                     rc.Default,
			DefaultAllocationPercentage: float64(rc.DefaultPctMilli) / 1000,
		}
		for _, g := range rc.Groups {
			gqa.Groups = append(gqa.Groups, sharedConfig.QuotaAllocation{GroupHeaderValue: g.Value, AllocationPercentage: float64(g.PctMilli) / 1000})
		}
		sc.GroupQuotaAllocation = gqa
	}
	return config.ScopedRemedy{
		Scope: utils.ScopeEndpoint, Method: "GET", NormalizedURL: "a.com/x",
		Remedy: &sharedConfig.Remedy{Name: rc.Name, Enabled: true, Config: sharedConfig.RemedyConfig{StrategyBasedThrottling: sc}},
	}
}

func newSUT(cc caseCfg) (*sut, error) {
	clk := sim.NewVClock(base)
	state := limit.NewRateLimitState(clk, logging.ContextLogger{})
	plugin, err := remedies.NewStrategyBasedThrottlingPlugin(context.Background(), clk, nil, state,
		obfuscation.Obfuscator{Hasher: obfuscation.IdentityHasher{}}) // the wiring of services.go (identity obfuscator)
	if err != nil {
		return nil, err
	}
	s := &sut{clk: clk, plugin: plugin, cfg: cc}
	for _, rc := range cc.Remedies {
		s.scoped = append(s.scoped, buildScoped(rc, rc.WindowS))
		s.windowS = append(s.windowS, rc.WindowS)
	}
	return s, nil
}

// call drives the real plugin; returns passed, status, problem ("" = fine).
func (s *sut) call(id string, a arrival) (bool, int, string) {
	h := map[string]string{"host": "a.com"}
	rc := s.cfg.Remedies[a.Remedy]
	if rc.Grouped && a.HasHeader {
		h[rc.Header] = a.Value
	}
	req := lunarMessages.OnRequest{ID: id, SequenceID: id, Method: "GET", Scheme: "https", URL: "a.com/x", Path: "/x", Headers: h}
	act, err := s.plugin.OnRequest(req, s.scoped[a.Remedy])
	if err != nil {
		return false, 0, "error: " + err.Error()
	}
	switch x := act.(type) {
	case *actions.NoOpAction:
		return true, 0, ""
	case *actions.EarlyResponseAction:
		return false, x.Status, ""
	}
	return false, 0, fmt.Sprintf("unexpected action %T", act)
}

// ---- generation ------------------------------------------------------------------------------------

func genPct(r *sim.Rand) int64 {
	switch x := r.Intn(100); {
	case x < 45:
		return int64(r.Range(1, 100)) * 1000
	case x < 60:
		return sim.Pick(r, []int64{7, 14, 28, 29, 55, 56, 57, 58}) * 1000
	case x < 70:
		return sim.Pick(r, []int64{12500, 37500, 500, 62500, 250})
	case x < 80:
		return sim.Pick(r, []int64{33300, 33330, 66700, 100, 2500, 1100})
	case x < 92:
		return 100000
	case x < 95:
		return 0
	}
	return 150000
}

func genConfig(r *sim.Rand) caseCfg {
	var cc caseCfg
	n := r.Range(1, 3)
	for i := 0; i < n; i++ {
		rc := remedyCfg{Name: fmt.Sprintf("rem%d", i)}
		switch x := r.Intn(10); {
		case x < 5:
			rc.Allowed = int64(r.Range(1, 6))
		case x < 8:
			rc.Allowed = int64(r.Range(7, 30))
		default:
			rc.Allowed = sim.Pick(r, []int64{10, 20, 25, 50, 64, 75, 99, 100})
		}
		rc.WindowS = sim.Pick(r, []int{1, 2, 3, 4, 5, 7, 11, 13}) // 7, 11, 13 s do not divide the span between year 1 and 1970
		if r.Chance(3, 5) {
			rc.Status = sim.Pick(r, []int{429, 503, 418, 400})
		}
		if r.Chance(13, 20) {
			rc.Grouped = true
			rc.Header = sim.Pick(r, []string{"x-group", "x-tenant"})
			vals := []string{"g1", "g2", "g3"}
			if r.Chance(1, 4) { // group values that differ only in letter case are different groups
				vals = []string{"Gold", "gold", "g3"}
			}
			ng := r.Range(1, 3)
			for j := 0; j < ng; j++ {
				rc.Groups = append(rc.Groups, groupCfg{Value: vals[j], PctMilli: genPct(r)})
			}
			switch x := r.Intn(20); {
			case x < 6:
				rc.Default = "allow"
			case x < 12:
				rc.Default = "block"
			case x < 19:
				rc.Default = "use_default_allocation"
				rc.DefaultPctMilli = genPct(r)
			}
		}
		cc.Remedies = append(cc.Remedies, rc)
	}
	if len(cc.Remedies) >= 2 && cc.Remedies[0].Grouped && cc.Remedies[1].Grouped && r.Chance(1, 2) {
		// two remedies whose <name, header> pairs read alike once joined with the engine's own delimiters:
		// "rem" + "x_group" and "rem_x" + "group". They are different remedies with counters of their own.
		cc.Remedies[0].Name, cc.Remedies[0].Header = "rem", "x_group"
		cc.Remedies[1].Name, cc.Remedies[1].Header = "rem_x", "group"
		// make them count the same group values
		cc.Remedies[1].Groups = nil
		for _, g := range cc.Remedies[0].Groups {
			cc.Remedies[1].Groups = append(cc.Remedies[1].Groups, groupCfg{Value: g.Value, PctMilli: genPct(r)})
		}
	}
	cc.GridExact = r.Chance(1, 4)
	cc.Change = r.Chance(1, 5)
	return cc
}

type keyPick struct {
	Remedy    int
	HasHeader bool
	Value     string
}

func genKeys(r *sim.Rand, cc caseCfg) []keyPick {
	var out []keyPick
	for i, rc := range cc.Remedies {
		if !rc.Grouped {
			out = append(out, keyPick{Remedy: i})
			continue
		}
		pool := []keyPick{{i, true, "zz"}, {i, true, "yy"}, {i, false, ""}, {i, true, "GOLD"}, {i, true, "G1"}}
		for _, g := range rc.Groups {
			pool = append(pool, keyPick{i, true, g.Value})
		}
		r.Shuffle(len(pool), func(a, b int) { pool[a], pool[b] = pool[b], pool[a] })
		n := r.Range(1, 4)
		if n > len(pool) {
			n = len(pool)
		}
		// always at least one configured group
		out = append(out, keyPick{i, true, rc.Groups[0].Value})
		out = append(out, pool[:n]...)
	}
	return out
}

func genArrivals(r *sim.Rand, cc caseCfg, n int, allowChange bool) []arrival {
	keys := genKeys(r, cc)
	ws := make([]int64, len(cc.Remedies))
	for i, rc := range cc.Remedies {
		ws[i] = int64(rc.WindowS) * sec
	}
	var out []arrival
	cur := sim.Pick(r, []int64{1, 400 * int64(time.Millisecond), 999_999_999})
	if cc.GridExact && r.Bool() {
		cur = 0
	}
	changeAt := -1
	if allowChange && cc.Change {
		changeAt = r.Range(3, n-3)
	}
	changed := 0
	var press keyPick // dense traffic on one key around a window-size change
	pressLeft := 0
	for len(out) < n {
		kp := sim.Pick(r, keys)
		if r.Chance(1, 2) {
			kp = keys[0] // keep pressure on one key
		}
		if pressLeft > 0 {
			kp = press
		}
		w := ws[kp.Remedy]
		abs := base.UnixNano() + cur
		toGrid := w - abs%w
		var delta int64
		switch r.Intn(13) {
		case 0, 1:
			delta = 0
		case 2:
			delta = 1
		case 3:
			delta = int64(r.Intn(int(w/int64(time.Millisecond)))) * int64(time.Millisecond)
		case 4:
			delta = toGrid
			if !cc.GridExact {
				delta++
			}
		case 5:
			delta = toGrid - 1
		case 6:
			delta = toGrid + 1
		case 7:
			delta = w
		case 8:
			delta = w + int64(r.Intn(3)) - 1
		case 9:
			delta = int64(r.Range(2, 5))*w + int64(r.Intn(1000))*int64(time.Millisecond)
		case 10:
			delta = toGrid + int64(r.Range(1, 4))*w
			if !cc.GridExact {
				delta += int64(r.Intn(2))*2 - 1
			}
		case 11:
			delta = int64(r.Intn(int(w/4/int64(time.Millisecond)))) * int64(time.Millisecond)
		case 12:
			delta = toGrid + w/2
		}
		if delta < 0 {
			delta = 0
		}
		if pressLeft > 0 {
			pressLeft--
			delta = sim.Pick(r, []int64{250, 500, 500, 1000}) * int64(time.Millisecond)
		}
		cur += delta
		a := arrival{OffsetNs: cur, Remedy: kp.Remedy, HasHeader: kp.HasHeader, Value: kp.Value}
		if changeAt >= 0 && len(out) >= changeAt && changed < 2 {
			nw := sim.Pick(r, []int{1, 2, 3, 4, 5})
			if int64(nw)*sec != w {
				a.SetWindowS = nw
				ws[kp.Remedy] = int64(nw) * sec
				changed++
				if r.Bool() {
					press, pressLeft = kp, r.Range(4, 14)
				}
				changeAt = len(out) + r.Range(4, 30)
				if r.Bool() {
					changeAt = 1 << 30
				}
			}
		}
		out = append(out, a)
		if r.Chance(7, 20) || pressLeft > 0 {
			kc := classify(cc.Remedies[kp.Remedy], a)
			m := 3
			if kc.Kind == "share" {
				m = int(kc.Max) + 2
			}
			if pressLeft > 0 && m > 5 {
				m = m/3 + 1
			}
			m = r.Range(1, m)
			for j := 0; j < m && len(out) < n+120; j++ {
				cur += sim.Pick(r, []int64{0, 0, 0, 1, int64(time.Millisecond)})
				b := a
				b.SetWindowS = 0
				b.OffsetNs = cur
				out = append(out, b)
			}
		}
	}
	return out
}

// fixed scenarios: one targeted history per defect class expected from reading; run by batch 0 in every seed.
func fixedScenarios() []replay {
	s := sec
	g := func(off int64) arrival { return arrival{OffsetNs: off, HasHeader: true, Value: "g1"} }
	var sc []replay
	// (a) 7 % of 100: exact share 7
	a := replay{Case: -1, Note: "fixed: 7% group of a 100-request quota, 9 requests mid-window",
		Cfg: caseCfg{Remedies: []remedyCfg{{Name: "rem0", Allowed: 100, WindowS: 1, Grouped: true, Header: "x-group",
			Groups: []groupCfg{{Value: "g1", PctMilli: 7000}}, Default: "block"}}}}
	for i := 0; i < 9; i++ {
		a.Arrivals = append(a.Arrivals, g(400*int64(time.Millisecond)))
	}
	sc = append(sc, a)
	// (b) two requests exactly one window apart, both on grid instants, allowed 1
	sc = append(sc, replay{Case: -2, Note: "fixed: allowed=1, requests at k*W and (k+1)*W exactly",
		Cfg:      caseCfg{GridExact: true, Remedies: []remedyCfg{{Name: "rem0", Allowed: 1, WindowS: 1}}},
		Arrivals: []arrival{{OffsetNs: 0}, {OffsetNs: s}}})
	// (c) window size 3 s -> 2 s; new-size window (8,10] straddles the old grid instant 9
	sc = append(sc, replay{Case: -3, Note: "fixed: window 3s->2s between requests",
		Cfg:      caseCfg{Change: true, Remedies: []remedyCfg{{Name: "rem0", Allowed: 3, WindowS: 3}}},
		Arrivals: []arrival{{OffsetNs: 7 * s}, {OffsetNs: 7*s + s/2, SetWindowS: 2}, {OffsetNs: 8*s + s/2}, {OffsetNs: 9*s + s/2}, {OffsetNs: 9*s + s/2}, {OffsetNs: 9*s + s/2}}})
	return sc
}

// ---- running a history -----------------------------------------------------------------------------

func main() {
	args := sim.ParseArgs()
	sim.Quiet()
	v := sim.NewVerdict("C09", args.Seed, args.Tier, args.Batch, args.Out)
	v.Rule = "case = 1-3 strategy-based-throttling remedies (allowed 1-100, W 1-5 s, optional status, optional allocation table with integer/dyadic/decimal/0/150 percentages and a default behaviour) + arrival history over 1-5 group values per remedy on a boundary-rich epoch grid (k*W, +-1 ns, mid-window, multi-window gaps, bursts of share+2), optionally a window-size change; non-trivial iff some key saw a pass, a rejection and a window rollover; distinct by <#remedies, grouping, default behaviours, W, allowed bucket, grid-exact?, change?, rollover bucket, concurrent?>"
	v.Assumptions = []string{
		"window convention free: [kW,(k+1)W) or (kW,(k+1)W] on the unix-epoch grid, one choice per history",
		"share = ceil(allowed*pct/100) in exact arithmetic; for non-dyadic fractional percentages the bound uses the larger and the exactness clause the smaller of the decimal and the float64-exact reading",
		"group = exact header value (absent header = empty value); values differing only in surrounding whitespace are not generated",
		"unknown group: allow => always passes, block => always rejected with the configured status, use_default_allocation => own counter with the default percentage, undefined => not judged",
		"after a window-size change the bound is judged only on new-size windows starting at or after the first request that carries the new size, exactness only on windows starting >= one old window later",
		"spillover disabled (not part of the statement)",
	}
	v.SetMaxSamples(4)
	if args.Replay != "" {
		data, err := os.ReadFile(args.Replay)
		var rp replay
		if err == nil {
			var wrapped struct {
				Replay *replay `json:"replay"`
			}
			if err = json.Unmarshal(data, &wrapped); err == nil {
				if wrapped.Replay != nil {
					rp = *wrapped.Replay // the driver stores {"replay": <value>, ...}
				} else {
					err = json.Unmarshal(data, &rp)
				}
			}
		}
		if err != nil {
			v.Inconclude("cannot read replay file: " + err.Error())
		} else if len(rp.Cfg.Remedies) == 0 || len(rp.Arrivals)+len(rp.Rounds) == 0 {
			v.Inconclude("replay file carries no case")
		} else {
			runCase(args, v, rp, true)
		}
		os.Exit(v.Write())
	}
	nSeq := args.Pick(12000, 240000)
	nConc := args.Pick(1600, 32000)
	lo, hi := args.Share(nSeq + nConc)
	if args.Batch == 0 {
		for _, rp := range fixedScenarios() {
			rp.Seed = args.Seed
			runCase(args, v, rp, true)
		}
	}
	for i := lo; i < hi; i++ {
		r := args.CaseRand(i)
		cc := genConfig(r)
		rp := replay{Case: i, Seed: args.Seed, Cfg: cc}
		if i >= nSeq {
			cc.Concurrent = true
			cc.Change = false
			rp.Cfg = cc
			rp.Arrivals = genArrivals(r, cc, r.Range(0, 24), false)
			rp.Rounds = genRounds(r, cc)
		} else {
			rp.Arrivals = genArrivals(r, cc, r.Range(30, 140), true)
		}
		runCase(args, v, rp, false)
	}
	if v.Counters["passed"] == 0 || v.Counters["rejected"] == 0 {
		v.Inconclude("no pass or no rejection observed in this batch")
	}
	os.Exit(v.Write())
}

func bucket(n int) int {
	switch {
	case n == 0:
		return 0
	case n < 3:
		return 1
	case n < 10:
		return 2
	}
	return 3
}

func runCase(args sim.Args, v *sim.Verdict, rp replay, fixed bool) {
	v.Eval(1)
	sim.Guard(v, "C09/panic/on-request", rp, func() { runHistory(args, v, rp) })
}

func runHistory(args sim.Args, v *sim.Verdict, rp replay) {
	cc := rp.Cfg
	s, err := newSUT(cc)
	if err != nil {
		v.Violate("C09/harness/plugin-construction", err.Error(), rp)
		return
	}
	rs := make([]*remState, len(cc.Remedies))
	for i, rc := range cc.Remedies {
		rs[i] = &remState{W: int64(rc.WindowS) * sec}
	}
	orc := []*oracle{{RightClosed: false, keys: map[string]*keyState{}}, {RightClosed: true, keys: map[string]*keyState{}}}
	arr := rp.Arrivals
	passedN, rejectedN, gridN, changes := 0, 0, 0, 0
	sawPass, sawRej := map[string]bool{}, map[string]bool{}
	for i := range arr {
		a := &arr[i]
		rc := cc.Remedies[a.Remedy]
		t := base.UnixNano() + a.OffsetNs
		s.clk.Set(time.Unix(0, t))
		st := rs[a.Remedy]
		if a.SetWindowS != 0 && int64(a.SetWindowS)*sec != st.W {
			st.PrevW = append(st.PrevW, st.W)
			var mx int64
			for _, p := range st.PrevW {
				if p > mx {
					mx = p
				}
			}
			st.W = int64(a.SetWindowS) * sec
			st.JudgeFrom = t
			st.ExactFrom = t + mx
			s.scoped[a.Remedy] = buildScoped(rc, a.SetWindowS)
			changes++
		}
		passed, status, problem := s.call(fmt.Sprintf("c%d-%d", rp.Case, i), *a)
		a.Passed, a.Status = passed, status
		cut := rp
		cut.Arrivals = arr[:i+1]
		if problem != "" {
			v.Violate("C09/unexpected-result", problem, cut)
			return
		}
		if t%st.W == 0 {
			gridN++
		}
		kc := classify(rc, *a)
		if passed {
			passedN++
			sawPass[kc.Key] = true
		} else {
			rejectedN++
			sawRej[kc.Key] = true
			want := rc.Status
			kind := "configured-status-ignored"
			if want == 0 {
				want, kind = 429, "default-not-429"
			}
			if status != want {
				v.Violate("C09/rejection-status/"+kind, fmt.Sprintf("#%d rejected with status %d, want %d", i, status, want), cut)
				return
			}
		}
		switch kc.Kind {
		case "allow":
			if !passed {
				v.Violate("C09/default-allow/rejected", fmt.Sprintf("#%d: unknown group %q rejected although the default behaviour is allow", i, kc.Key), cut)
				return
			}
		case "block":
			if passed {
				v.Violate("C09/default-block/passed", fmt.Sprintf("#%d: unknown group %q passed although the default behaviour is block", i, kc.Key), cut)
				return
			}
		}
		for _, o := range orc {
			o.step(i, t, a.Remedy, st, kc, passed)
		}
		if orc[0].Dead != nil && orc[1].Dead != nil {
			sig := classifyViolation(cc, arr[:i+1], rs, orc[0].Dead, orc[1].Dead)
			cut.Deaths = []string{orc[0].name() + ": " + orc[0].Dead.String(), orc[1].name() + ": " + orc[1].Dead.String()}
			v.Violate(sig, "history contradicts both window conventions: "+strings.Join(cut.Deaths, " | ")+keyTrace(cc, arr[:i+1], lastDeath(orc[0].Dead, orc[1].Dead).Key), cut)
			return
		}
	}
	v.Count("requests", len(arr))
	v.Count("passed", passedN)
	v.Count("rejected", rejectedN)
	v.Count("grid_instant_arrivals", gridN)
	v.Count("window_size_changes", changes)
	roll := orc[0].Rollovers
	if orc[1].Rollovers > roll {
		roll = orc[1].Rollovers
	}
	v.Count("rollovers", roll)
	for _, o := range orc {
		if o.Dead != nil {
			v.Count("histories_explained_by_one_convention_only", 1)
		}
	}
	if len(rp.Rounds) > 0 {
		if !concurrentRounds(args, v, rp, s, arr) {
			return
		}
	}
	nontrivial := false
	for k := range sawPass {
		if sawRej[k] && roll > 0 {
			nontrivial = true
		}
	}
	if nontrivial || len(rp.Rounds) > 0 {
		var sb strings.Builder
		fmt.Fprintf(&sb, "n%d/", len(cc.Remedies))
		for _, rc := range cc.Remedies {
			fmt.Fprintf(&sb, "g%v:%s:w%d:a%d/", rc.Grouped, rc.Default, rc.WindowS, bucket(int(rc.Allowed)))
		}
		fmt.Fprintf(&sb, "x%v/c%d/r%d/k%v", cc.GridExact, changes, bucket(roll), len(rp.Rounds) > 0)
		v.Distinct(sb.String())
		v.Count("nontrivial_cases", 1)
	}
	if rp.Case >= 0 && len(arr) <= 45 && len(cc.Remedies) <= 2 && nontrivial {
		v.Sample(rp)
	}
}

// keyTrace renders the events of one key (for the human reading the witness).
func keyTrace(cc caseCfg, arr []arrival, key string) string {
	var sb strings.Builder
	sb.WriteString("\nkey " + key + ":")
	n := 0
	for i, a := range arr {
		if classify(cc.Remedies[a.Remedy], a).Key != key {
			continue
		}
		n++
		if n > 140 {
			sb.WriteString(" ...")
			break
		}
		res := "REJ"
		if a.Passed {
			res = "pass"
		}
		chg := ""
		if a.SetWindowS != 0 {
			chg = fmt.Sprintf("[W:=%ds]", a.SetWindowS)
		}
		fmt.Fprintf(&sb, " #%d@%dns%s=%s", i, a.OffsetNs, chg, res)
	}
	return sb.String()
}

func lastDeath(l, r *death) *death {
	if l.Idx > r.Idx {
		return l
	}
	return r
}

// classifyViolation names the defect by the death that completed the contradiction (the convention that
// survived longer); the earlier death alone was still explained by the other convention.
func classifyViolation(cc caseCfg, arr []arrival, rs []*remState, l, r *death) string {
	d := lastDeath(l, r)
	st := rs[d.Remedy]
	c := d.Class
	if d.Kind == "over-admission" {
		if c.Label != "ungrouped" && c.PctMilli != 100000 && (cc.Remedies[d.Remedy].Allowed*c.PctMilli)%100000 == 0 && d.Count == c.Max && c.Min == c.Max {
			return "C09/over-admission/float-ceil"
		}
		// passes of this key inside the judged new-size window on both sides of an old-grid instant
		var maxPrev int64
		for _, p := range st.PrevW {
			if p > maxPrev {
				maxPrev = p
			}
		}
		if st.JudgeFrom > 0 && d.WinLo >= st.JudgeFrom && d.WinLo < st.JudgeFrom+maxPrev {
			for _, p := range st.PrevW {
				for m := (d.WinLo/p + 1) * p; m < d.WinLo+d.W; m += p {
					before, after := false, false
					for i := d.Idx; i >= 0; i-- {
						a := arr[i]
						ta := base.UnixNano() + a.OffsetNs
						if ta < d.WinLo {
							break
						}
						if !a.Passed || classify(cc.Remedies[a.Remedy], a).Key != d.Key {
							continue
						}
						if ta <= m {
							before = true
						} else {
							after = true
						}
					}
					if before && after {
						return "C09/over-admission/window-size-change-straddles-old-grid"
					}
				}
			}
		}
	}
	// was this key touched at an exact grid instant of the judged window (either end)?
	for i := d.Idx; i >= 0; i-- {
		a := arr[i]
		ta := base.UnixNano() + a.OffsetNs
		if ta < d.WinLo {
			break
		}
		if ta <= d.WinLo+d.W && ta%d.W == 0 && classify(cc.Remedies[a.Remedy], a).Key == d.Key {
			return "C09/grid-instant/window-closed-at-both-ends"
		}
	}
	return "C09/" + d.Kind + "/" + c.Label
}

// ---- concurrent rounds ------------------------------------------------------------------------------

func genRounds(r *sim.Rand, cc caseCfg) [][]arrival {
	keys := genKeys(r, cc)
	nr := r.Range(1, 3)
	var out [][]arrival
	for j := 0; j < nr; j++ {
		n := r.Range(8, 64)
		round := make([]arrival, n)
		for i := range round {
			kp := sim.Pick(r, keys)
			if r.Chance(3, 5) {
				kp = keys[0]
			}
			round[i] = arrival{Remedy: kp.Remedy, HasHeader: kp.HasHeader, Value: kp.Value}
		}
		out = append(out, round)
	}
	return out
}

type concIn struct {
	Key      string
	Min, Max int64
}

func concurrentRounds(args sim.Args, v *sim.Verdict, rp replay, s *sut, history []arrival) bool {
	cc := rp.Cfg
	var last int64
	if len(history) > 0 {
		last = history[len(history)-1].OffsetNs
	}
	// 400 ms into a window that is fresh for every generated W (1..5, 7, 11, 13 s; lcm 60060 s) under both
	// conventions: the absolute instant is a multiple of 60060 s since the epoch and at least 14 s after the history
	const lcm = 60060 * sec
	abs := ((base.UnixNano()+last+14*sec)/lcm + 1) * lcm
	off := abs - base.UnixNano() + 400*int64(time.Millisecond)
	s.clk.Set(time.Unix(0, base.UnixNano()+off))
	var tick atomic.Int64
	var ops []porcupine.Operation
	passedSoFar := map[string]int64{}
	classes := map[string]keyClass{}
	for ri, round := range rp.Rounds {
		n := len(round)
		res := make([]porcupine.Operation, n)
		probs := make([]string, n)
		var wg sync.WaitGroup
		start := make(chan struct{})
		var ready atomic.Int64
		allReady := make(chan struct{})
		for i := 0; i < n; i++ {
			round[i].OffsetNs = off
			kc := classify(cc.Remedies[round[i].Remedy], round[i])
			classes[kc.Key] = kc
			wg.Add(1)
			go func(i int, kc keyClass) {
				defer wg.Done()
				defer func() {
					if r := recover(); r != nil {
						probs[i] = fmt.Sprintf("panic: %v", r)
					}
				}()
				<-start
				// barrier (scheduling only): the last goroutine to arrive lets all calls go at once
				if ready.Add(1) == int64(n) {
					close(allReady)
				}
				<-allReady
				call := tick.Add(1)
				passed, status, problem := s.call(fmt.Sprintf("c%d-r%d-%d", rp.Case, ri, i), round[i])
				ret := tick.Add(1)
				round[i].Passed, round[i].Status = passed, status
				probs[i] = problem
				res[i] = porcupine.Operation{ClientId: i, Input: concIn{kc.Key, kc.Min, kc.Max}, Call: call, Output: passed, Return: ret}
			}(i, kc)
		}
		close(start)
		wg.Wait()
		v.Count("concurrent_rounds", 1)
		v.Count("concurrent_requests", n)
		for i, p := range probs {
			if p != "" {
				sig := "C09/unexpected-result/concurrent"
				if strings.HasPrefix(p, "panic") {
					sig = "C09/panic/on-request-concurrent"
				}
				v.Violate(sig, fmt.Sprintf("round %d op %d: %s", ri, i, p), rp)
				return false
			}
		}
		perKeyN, perKeyPass := map[string]int64{}, map[string]int64{}
		for i, a := range round {
			kc := classify(cc.Remedies[a.Remedy], a)
			perKeyN[kc.Key]++
			if a.Passed {
				perKeyPass[kc.Key]++
				v.Count("passed", 1)
			} else {
				v.Count("rejected", 1)
				want := cc.Remedies[a.Remedy].Status
				if want == 0 {
					want = 429
				}
				if a.Status != want {
					v.Violate("C09/rejection-status/concurrent", fmt.Sprintf("round %d op %d rejected with %d want %d", ri, i, a.Status, want), rp)
					return false
				}
			}
			if kc.Kind == "share" {
				ops = append(ops, res[i])
			}
		}
		keys := make([]string, 0, len(perKeyN))
		for k := range perKeyN {
			keys = append(keys, k)
		}
		sort.Strings(keys)
		for _, k := range keys {
			kc := classes[k]
			n, p := perKeyN[k], perKeyPass[k]
			switch kc.Kind {
			case "allow":
				if p != n {
					v.Violate("C09/default-allow/rejected", fmt.Sprintf("concurrent round %d: key %q %d of %d passed", ri, k, p, n), rp)
					return false
				}
			case "block":
				if p != 0 {
					v.Violate("C09/default-block/passed", fmt.Sprintf("concurrent round %d: key %q %d of %d passed", ri, k, p, n), rp)
					return false
				}
			case "share":
				used := passedSoFar[k]
				remMax, remMin := kc.Max-used, kc.Min-used
				if remMin < 0 {
					remMin = 0
				}
				if p > remMax {
					sig := "C09/concurrent/over-admission/" + kc.Label
					if kc.Label != "ungrouped" && kc.PctMilli != 100000 && kc.Min == kc.Max && used+p == kc.Max+1 &&
						(cc.Remedies[round0Remedy(cc, k)].Allowed*kc.PctMilli)%100000 == 0 {
						sig = "C09/over-admission/float-ceil"
					}
					v.Violate(sig, fmt.Sprintf("frozen clock, round %d: key %q passed %d of %d with only %d of its share %d left", ri, k, p, n, remMax, kc.Max), rp)
					return false
				}
				want := remMin
				if n < want {
					want = n
				}
				if p < want {
					v.Violate("C09/concurrent/lost-admission/"+kc.Label, fmt.Sprintf("frozen clock, round %d: key %q passed only %d of %d although %d of its share %d were left", ri, k, p, n, remMin, kc.Min), rp)
					return false
				}
				passedSoFar[k] = used + p
			}
		}
	}
	pm := porcupine.Model{
		Partition: func(history []porcupine.Operation) [][]porcupine.Operation {
			m := map[string][]porcupine.Operation{}
			var ks []string
			for _, op := range history {
				k := op.Input.(concIn).Key
				if _, ok := m[k]; !ok {
					ks = append(ks, k)
				}
				m[k] = append(m[k], op)
			}
			sort.Strings(ks)
			var out [][]porcupine.Operation
			for _, k := range ks {
				out = append(out, m[k])
			}
			return out
		},
		Init: func() interface{} { return int64(0) },
		Step: func(state, input, output interface{}) (bool, interface{}) {
			c := state.(int64)
			in := input.(concIn)
			if output.(bool) {
				return c < in.Max, c + 1
			}
			return c >= in.Min, c
		},
		Equal: func(a, b interface{}) bool { return a.(int64) == b.(int64) },
	}
	if len(ops) > 0 {
		switch porcupine.CheckOperationsTimeout(pm, ops, 60*time.Second) {
		case porcupine.Ok:
			v.Count("porcupine_ok", 1)
		case porcupine.Unknown:
			v.Inconclude(fmt.Sprintf("case %d: porcupine timed out", rp.Case))
			return false
		default:
			v.Violate("C09/concurrent/not-linearizable", "no sequential order of a per-key counter explains the verdicts of the frozen-clock rounds (a rejection returned before a later-called request of the same key passed)", rp)
			return false
		}
	}
	return true
}

func round0Remedy(cc caseCfg, key string) int {
	name := key[:strings.Index(key, "|")]
	for i, rc := range cc.Remedies {
		if rc.Name == name {
			return i
		}
	}
	return 0
}
