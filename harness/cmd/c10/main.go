// C10 - policy-mode delayed queue releases waiters in order and never strands one.
//
// The real DelayedPriorityQueue runs on a virtual clock as a discrete-event simulation: the
// controller performs enqueue calls at chosen instants, fires the window-rollover goroutine and TTL
// timers one at a time, and - through the "dpq.before-park" yield hook - parks chosen enqueuers
// between releasing the queue mutex and entering their select, so the hand-off race is forced, not
// hoped for. Monitors: releases per aligned window, waiter bound, release order, no stranding.
package main

import (
	"encoding/json"
	"fmt"
	"os"
	"sort"
	"sync"
	"time"

	"github.com/rs/zerolog"

	"lunar/engine/utils/queue"
	"lunar/toolkit-core/logging"
	"lunar/toolkit-core/verifhook"

	"verif/harness/sim"
)

type reqSpec struct {
	ID   string `json:"id"`
	AtMs int64  `json:"at_ms"` // call instant relative to case start (start is window-aligned + 0)
	// SubUs: microseconds past AtMs (arrivals of a burst fall into one millisecond but not onto one instant)
	SubUs    int64 `json:"sub_us,omitempty"`
	Priority int   `json:"priority"`
	TTLMs    int64 `json:"ttl_ms"`
	// Hold: park the enqueuer at the yield point and release it after this many rollovers (0 = no hold)
	Hold int `json:"hold_rollovers,omitempty"`
	// BeforeRollover: the rollover that is due at the window boundary just before this arrival has not run
	// yet when the request is enqueued (its goroutine is late); it runs right after the call
	BeforeRollover bool `json:"arrives_before_the_due_rollover_runs,omitempty"`
	// observations
	Result string `json:"result,omitempty"`  // immediate | released | expired | full
	DoneMs int64  `json:"done_ms,omitempty"` // instant of return
	ParkMs int64  `json:"park_ms,omitempty"`
	ExpMs  int64  `json:"expiry_ms,omitempty"`
	Queued bool   `json:"queued,omitempty"`
	RetMs  int64  `json:"returned_ms,omitempty"` // when the enqueuer goroutine returned (>= done_ms for a parked one)
}

type scenario struct {
	Quota   int64     `json:"quota"`
	WindowS int64     `json:"window_s"`
	Size    int64     `json:"queue_size"`
	Reqs    []reqSpec `json:"requests"`
	EndMs   int64     `json:"end_ms"`
}

type replay struct {
	Case int      `json:"case"`
	Seed uint64   `json:"seed"`
	Scn  scenario `json:"scenario"`
	Note string   `json:"note,omitempty"`
}

var t0 = time.Unix(1_772_366_400, 0) // aligned to every window size used

// genBurst: the window's quota is used up, then 3-5 requests of ONE priority arrive within one millisecond
// (100 us apart); they are released one per window, in the order they came.
func genBurst(r *sim.Rand) scenario {
	s := scenario{Quota: 1, WindowS: int64(r.Range(1, 2)), Size: 6}
	w := s.WindowS * 1000
	at := int64(r.Range(50, 300))
	prio := r.Intn(3)
	s.Reqs = append(s.Reqs, reqSpec{ID: "r0", AtMs: at, Priority: prio, TTLMs: 20*w + 131})
	at += int64(r.Range(20, 200))
	n := r.Range(3, 5)
	for i := 1; i <= n; i++ {
		s.Reqs = append(s.Reqs, reqSpec{ID: fmt.Sprintf("r%d", i), AtMs: at, SubUs: int64(i) * 100, Priority: prio, TTLMs: 20*w + 131 + int64(i)*7})
	}
	s.EndMs = at + int64(n+3)*w
	return s
}

func genScenario(r *sim.Rand) scenario {
	if r.Chance(1, 8) {
		return genBurst(r)
	}
	s := scenario{Quota: int64(r.Range(1, 2)), WindowS: int64(r.Range(1, 2)), Size: int64(r.Range(1, 3))}
	w := s.WindowS * 1000
	n := r.Range(2, 7)
	at := int64(r.Range(50, 400))
	holdUsed := false
	for i := 0; i < n; i++ {
		q := reqSpec{ID: fmt.Sprintf("r%d", i), AtMs: at, Priority: r.Intn(3)}
		// TTL placed so that expiry never coincides with a window boundary
		q.TTLMs = int64(r.Range(1, 7))*w/2 + int64(r.Range(13, 170)) + int64(i)
		if (q.AtMs+q.TTLMs)%w < 5 {
			q.TTLMs += 37
		}
		// the controller recognises a request's TTL timer by its duration: keep them distinct
		for dup := true; dup; {
			dup = false
			for _, o := range s.Reqs {
				if o.TTLMs == q.TTLMs {
					q.TTLMs += 3
					dup = true
				}
			}
		}
		if r.Chance(1, 3) && !holdUsed {
			q.Hold = r.Range(1, 2)
			holdUsed = r.Chance(2, 3)
		}
		s.Reqs = append(s.Reqs, q)
		switch r.Intn(4) {
		case 0:
			at += int64(r.Range(1, 30))
		case 1:
			at += int64(r.Range(100, 700))
		case 2:
			at += w + int64(r.Range(1, 300))
		default:
			at += int64(r.Range(1, 5))
		}
		if at%w < 3 || w-(at%w) < 3 {
			at += 11
		}
	}
	for i := 1; i < len(s.Reqs); i++ {
		q, p := &s.Reqs[i], s.Reqs[i-1]
		if q.AtMs/w > p.AtMs/w && q.AtMs%w < 400 && r.Chance(1, 2) {
			q.BeforeRollover = true
			// the late rollover re-arms for the rest of the window: that wait must not equal a TTL (the controller
			// tells the timers apart by their duration)
			for clash := true; clash; {
				clash = false
				for _, o := range s.Reqs {
					if o.TTLMs == w-q.AtMs%w {
						q.AtMs++
						clash = true
					}
				}
			}
		}
	}
	s.EndMs = at + 8*w
	return s
}

type waitState struct {
	spec    *reqSpec
	done    chan bool
	parked  chan struct{} // closed when the enqueuer reached the yield point
	release chan struct{} // closed by the controller to let a held enqueuer continue
	reached bool
	// released by the rollover goroutine while still parked by the harness
	earlyReleased bool
}

type world struct {
	mu        sync.Mutex
	waits     map[string]*waitState
	processed int
	procCond  *sync.Cond
	released  []string
}

func main() {
	args := sim.ParseArgs()
	v := sim.NewVerdict("C10", args.Seed, args.Tier, args.Batch, args.Out)
	v.Rule = "case = schedule for the real DelayedPriorityQueue on a virtual clock: quota 1-2 per window of 1-2 s, queue size 1-3, 2-7 enqueue calls (priority 0-2, TTL 0.5-3.5 windows, mid-window instants) and, per case, which enqueuers are parked between mutex release and select and for how many rollovers; non-trivial iff at least one request was queued and later released or expired; distinct by <quota, size, #queued, #held, outcomes multiset>"
	v.Assumptions = []string{
		"windows are [kW,(k+1)W) on the epoch grid; enqueue instants and TTL expiries are generated off the boundaries",
		"order is judged only between requests with different priority or strictly different arrival instants",
		"a request that was parked by the harness counts as waiting from its enqueue call; its TTL runs from the moment it enters its select",
	}
	sim.Quiet()
	if args.Replay != "" {
		data, err := os.ReadFile(args.Replay)
		var wrap struct {
			Replay replay `json:"replay"`
		}
		if err == nil {
			err = json.Unmarshal(data, &wrap)
		}
		if err != nil {
			v.Inconclude(err.Error())
			os.Exit(v.Write())
		}
		runCase(wrap.Replay.Case, args, wrap.Replay.Scn, v)
		os.Exit(v.Write())
	}
	total := args.Pick(2400, 40000)
	lo, hi := args.Share(total)
	for i := lo; i < hi; i++ {
		runCase(i, args, genScenario(args.CaseRand(i)), v)
	}
	rlo, rhi := args.Share(args.Pick(320, 6000))
	for i := rlo; i < rhi; i++ {
		raceCase(i, args, args.CaseRand(1_000_000+i), v)
	}
	plo, phi := args.Share(args.Pick(240, 4000))
	pluginCases(args, v, plo, phi)
	sim.GlobalSink.Drain()
	for _, k := range []string{"released_from_queue", "expired_in_queue", "rejected_full", "held_across_rollover", "race_released_after_its_ttl_fired", "plugin_first_request_rounds"} {
		if v.Counters[k] == 0 {
			v.Inconclude("batch never observed " + k)
		}
	}
	os.Exit(v.Write())
}

func runCase(idx int, args sim.Args, scn scenario, v *sim.Verdict) {
	v.Eval(1)
	for i := range scn.Reqs {
		scn.Reqs[i].Result, scn.Reqs[i].DoneMs, scn.Reqs[i].ParkMs, scn.Reqs[i].ExpMs, scn.Reqs[i].Queued = "", 0, 0, 0, false
	}
	rp := replay{Case: idx, Seed: args.Seed, Scn: scn}
	clk := sim.NewVClock(t0)
	w := &world{waits: map[string]*waitState{}}
	w.procCond = sync.NewCond(&w.mu)
	sim.GlobalSink.OnEach(func(e verifhook.Event) {
		if e.Kind == "dpq.processed" {
			w.mu.Lock()
			w.processed++
			w.procCond.Broadcast()
			w.mu.Unlock()
		}
		if e.Kind == "dpq.released" && len(e.Args) > 0 {
			w.mu.Lock()
			w.released = append(w.released, e.Args[0])
			w.mu.Unlock()
		}
	})
	verifhook.SetYield(func(point string, a []string) {
		if point != "dpq.before-park" || len(a) == 0 {
			return
		}
		w.mu.Lock()
		ws := w.waits[a[0]]
		w.mu.Unlock()
		if ws == nil {
			return
		}
		close(ws.parked)
		<-ws.release
	})
	defer verifhook.SetYield(nil)
	defer sim.GlobalSink.OnEach(nil)
	defer sim.GlobalSink.Drain()

	window := time.Duration(scn.WindowS) * time.Second
	dpq := queue.NewInMemoryDelayedPriorityQueue(
		queue.QueueKey{RemedyName: fmt.Sprintf("c%d", idx), Strategy: queue.Strategy{WindowQuota: scn.Quota, WindowSize: window}},
		clk, logging.ContextLogger{Logger: zerolog.Nop()})
	// the process goroutine arms its first wait asynchronously
	if !clk.WaitPending(func(sim.Waiter) bool { return true }, 1, 20*time.Second) {
		v.Inconclude(fmt.Sprintf("case %d: process loop did not start", idx))
		return
	}
	nowMs := func() int64 { return clk.Now().Sub(t0).Milliseconds() }
	ttlOf := map[time.Duration]*reqSpec{}
	rollovers := 0
	type holdInfo struct {
		ws        *waitState
		releaseAt int // rollover count at which to release
	}
	var held []holdInfo
	var waiting []*waitState
	watchdog := 20 * time.Second

	awaitReturnOrPark := func(ws *waitState) (returned bool, ok bool) {
		select {
		case res := <-ws.done:
			ws.finish(res, nowMs())
			return true, true
		case <-ws.parked:
			return false, true
		case <-time.After(watchdog):
			return false, false
		}
	}
	// let a (released) enqueuer reach its select: its TTL timer shows up on the clock
	enterSelect := func(ws *waitState) bool {
		ttl := time.Duration(ws.spec.TTLMs) * time.Millisecond
		ok := clk.WaitPending(func(p sim.Waiter) bool { return p.D == ttl }, 1, watchdog)
		if ok {
			ws.spec.ExpMs = nowMs() + ws.spec.TTLMs
		}
		return ok
	}

	// fire everything due up to target, one waiter at a time
	skipRollover := false // leave a due rollover timer pending (its goroutine is "late")
	advance := func(target time.Time) bool {
		for {
			pend := clk.Pending()
			if skipRollover {
				// nothing that became due after the boundary runs before the arrival: the rollover goroutine is
				// late, and a TTL firing in that gap would expire a waiter only because of this schedule
				pend = nil
			}
			if len(pend) == 0 || pend[0].Deadline.After(target) {
				break
			}
			p := pend[0]
			if spec, isTTL := ttlOf[p.D]; isTTL {
				clk.Fire(p.ID)
				var ws *waitState
				for _, x := range waiting {
					if x.spec == spec {
						ws = x
					}
				}
				if ws == nil || ws.spec.Result != "" {
					continue // the request has already returned; a stale timer fired
				}
				select {
				case res := <-ws.done:
					ws.finish(res, nowMs())
				case <-time.After(watchdog):
					v.Inconclude(fmt.Sprintf("case %d: enqueuer %s did not return after its TTL fired", idx, spec.ID))
					return false
				}
				continue
			}
			// the rollover goroutine
			w.mu.Lock()
			before := w.processed
			w.mu.Unlock()
			clk.Fire(p.ID)
			deadline := time.Now().Add(watchdog)
			w.mu.Lock()
			for w.processed == before {
				if time.Now().After(deadline) {
					w.mu.Unlock()
					v.Inconclude(fmt.Sprintf("case %d: rollover goroutine did not finish an iteration", idx))
					return false
				}
				w.mu.Unlock()
				time.Sleep(200 * time.Microsecond)
				w.mu.Lock()
			}
			w.mu.Unlock()
			// the iteration is only over once the goroutine has armed its next wait: if the controller moved
			// the clock before that, the goroutine would compute a wait <= 0 and run further iterations on
			// its own, unobserved (seen under load in the thorough tier: three spurious violations)
			if !clk.WaitPending(func(p sim.Waiter) bool { _, isTTL := ttlOf[p.D]; return !isTTL }, 1, watchdog) {
				dbg, _ := json.Marshal(scn)
				pendDbg := fmt.Sprint(clk.Pending())
				v.Inconclude(fmt.Sprintf("case %d: rollover goroutine did not arm its next wait; now=%d pending=%.300s scenario=%.900s", idx, nowMs(), pendDbg, dbg))
				return false
			}
			rollovers++
			v.Count("rollovers", 1)
			// collect the releases performed by this iteration: the hook names them, their goroutines
			// are then waited for (no timing assumption)
			w.mu.Lock()
			rel := w.released
			w.released = nil
			w.mu.Unlock()
			for _, id := range rel {
				var ws *waitState
				for _, x := range waiting {
					if x.spec.ID == id {
						ws = x
					}
				}
				if ws == nil || ws.spec.Result != "" {
					continue
				}
				if !ws.reached {
					// released while the harness still holds it before its select: the hook is
					// authoritative for the release instant, the goroutine returns once it is let go
					ws.spec.Result = "released"
					ws.spec.DoneMs = nowMs()
					ws.earlyReleased = true
					continue
				}
				select {
				case res := <-ws.done:
					ws.finish(res, nowMs())
				case <-time.After(watchdog):
					v.Inconclude(fmt.Sprintf("case %d: released waiter %s did not return", idx, id))
					return false
				}
			}
			// release held enqueuers whose time has come
			for i := range held {
				h := &held[i]
				if h.ws != nil && rollovers >= h.releaseAt {
					close(h.ws.release)
					v.Count("held_across_rollover", 1)
					if h.ws.earlyReleased {
						select {
						case res := <-h.ws.done:
							if !res {
								v.Violate("C10/released-but-rejected", fmt.Sprintf("request %s was handed a window slot while parked before its select, then returned 'rejected'", h.ws.spec.ID), rp)
								return false
							}
						case <-time.After(watchdog):
							v.Inconclude(fmt.Sprintf("case %d: early-released waiter %s did not return", idx, h.ws.spec.ID))
							return false
						}
						h.ws.spec.RetMs = nowMs()
						h.ws.reached = true
						h.ws = nil
						continue
					}
					// it either returns at once (it had been signalled - impossible with an unbuffered hand-off) or enters its select
					if !enterSelectOrReturn(h.ws, clk, watchdog, nowMs) {
						v.Inconclude(fmt.Sprintf("case %d: released enqueuer %s neither returned nor armed its TTL", idx, h.ws.spec.ID))
						return false
					}
					h.ws.reached = true
					h.ws = nil
				}
			}
		}
		clk.Set(target)
		return true
	}
	_ = enterSelect

	reqs := make([]*reqSpec, len(scn.Reqs))
	for i := range scn.Reqs {
		reqs[i] = &scn.Reqs[i]
		ttlOf[time.Duration(scn.Reqs[i].TTLMs)*time.Millisecond] = reqs[i]
	}
	sort.SliceStable(reqs, func(i, j int) bool {
		return reqs[i].AtMs < reqs[j].AtMs || (reqs[i].AtMs == reqs[j].AtMs && reqs[i].SubUs < reqs[j].SubUs)
	})

	for _, q := range reqs {
		if q.BeforeRollover {
			// everything up to the previous boundary runs normally; the rollover due at the boundary stays pending
			boundary := q.AtMs / (scn.WindowS * 1000) * (scn.WindowS * 1000)
			if !advance(t0.Add(time.Duration(boundary-1) * time.Millisecond)) {
				return
			}
			skipRollover = true
			v.Count("arrivals_before_a_late_rollover", 1)
		}
		if !advance(t0.Add(time.Duration(q.AtMs)*time.Millisecond + time.Duration(q.SubUs)*time.Microsecond)) {
			return
		}
		skipRollover = false // the late rollover is the first timer the next advance fires (at this instant)
		ws := &waitState{spec: q, done: make(chan bool, 1), parked: make(chan struct{}), release: make(chan struct{})}
		w.mu.Lock()
		w.waits[q.ID] = ws
		w.mu.Unlock()
		req := queue.NewRequest(q.ID, float64(q.Priority), clk)
		go func() {
			ok, _ := dpq.Enqueue(req, time.Duration(q.TTLMs)*time.Millisecond, scn.Size)
			ws.done <- ok
		}()
		returned, ok := awaitReturnOrPark(ws)
		if !ok {
			v.Inconclude(fmt.Sprintf("case %d: enqueue of %s neither returned nor parked", idx, q.ID))
			return
		}
		if returned {
			if q.Result == "released" {
				q.Result = "immediate"
			} else {
				q.Result = "full"
			}
			continue
		}
		q.Queued = true
		q.ParkMs = nowMs()
		waiting = append(waiting, ws)
		if q.Hold > 0 {
			held = append(held, holdInfo{ws: ws, releaseAt: rollovers + q.Hold})
			continue
		}
		close(ws.release)
		if !enterSelectOrReturn(ws, clk, watchdog, nowMs) {
			v.Inconclude(fmt.Sprintf("case %d: enqueuer %s did not arm its TTL", idx, q.ID))
			return
		}
		ws.reached = true
	}
	if !advance(t0.Add(time.Duration(scn.EndMs) * time.Millisecond)) {
		return
	}
	for _, h := range held {
		if h.ws != nil {
			close(h.ws.release) // never reached its release point: let the goroutine go
		}
	}
	judge(idx, scn, rp, v)
}

func enterSelectOrReturn(ws *waitState, clk *sim.VClock, watchdog time.Duration, nowMs func() int64) bool {
	ttl := time.Duration(ws.spec.TTLMs) * time.Millisecond
	deadline := time.Now().Add(watchdog)
	for time.Now().Before(deadline) {
		select {
		case res := <-ws.done:
			ws.finish(res, nowMs())
			return true
		default:
		}
		if clk.WaitPending(func(p sim.Waiter) bool { return p.D == ttl }, 1, 2*time.Millisecond) {
			ws.spec.ExpMs = nowMs() + ws.spec.TTLMs
			return true
		}
	}
	return false
}

func (ws *waitState) finish(res bool, at int64) {
	if ws.spec.Result != "" {
		return
	}
	ws.spec.DoneMs = at
	if res {
		ws.spec.Result = "released"
	} else {
		ws.spec.Result = "expired"
	}
}

func judge(idx int, scn scenario, rp replay, v *sim.Verdict) {
	rp.Scn = scn
	w := scn.WindowS * 1000
	relPerWindow := map[int64]int{}
	queued, heldN := 0, 0
	outcomes := map[string]int{}
	for _, q := range scn.Reqs {
		outcomes[q.Result]++
		if q.Queued {
			queued++
		}
		if q.Hold > 0 {
			heldN++
		}
		switch q.Result {
		case "immediate":
			relPerWindow[q.AtMs/w]++
		case "released":
			relPerWindow[q.DoneMs/w]++
			v.Count("released_from_queue", 1)
		case "expired":
			v.Count("expired_in_queue", 1)
		case "full":
			v.Count("rejected_full", 1)
		case "":
			v.Violate("C10/no-verdict", fmt.Sprintf("request %s never returned", q.ID), rp)
			return
		}
	}
	// (a) releases per window
	for k, n := range relPerWindow {
		if int64(n) > scn.Quota {
			v.Violate("C10/window-quota-exceeded", fmt.Sprintf("window %d released %d requests, quota %d", k, n, scn.Quota), rp)
			return
		}
	}
	waitingAt := func(q reqSpec, t int64) bool { // strictly inside its wait
		end := q.DoneMs
		return q.Queued && q.ParkMs < t && t < end
	}
	for _, q := range scn.Reqs {
		// (b)/(e) rejected as full => the queue was full at the call
		if q.Result == "full" {
			n := 0
			for _, o := range scn.Reqs {
				end := o.DoneMs
				if o.RetMs > end {
					end = o.RetMs // its slot in the waiter count is given back by its own goroutine
				}
				if o.ID != q.ID && o.Queued && o.ParkMs <= q.AtMs && q.AtMs <= end {
					n++
				}
			}
			if int64(n) < scn.Size {
				// it may also have been refused a free slot of the window
				v.Violate("C10/rejected-while-queue-not-full", fmt.Sprintf("request %s rejected with %d waiters, queue size %d", q.ID, n, scn.Size), rp)
				return
			}
		}
		if q.Queued {
			n := 0
			for _, o := range scn.Reqs {
				if o.Queued && o.ParkMs <= q.ParkMs && q.ParkMs < o.DoneMs {
					n++
				}
			}
			if int64(n) > scn.Size {
				v.Violate("C10/queue-size-exceeded", fmt.Sprintf("%d requests waiting when %s was queued, queue size %d", n, q.ID, scn.Size), rp)
				return
			}
		}
		// (c) order: q released from the queue while a strictly better request keeps waiting
		if q.Result == "released" {
			for _, o := range scn.Reqs {
				if o.ID == q.ID || !waitingAt(o, q.DoneMs) {
					continue
				}
				if o.ExpMs != 0 && o.ExpMs <= q.DoneMs {
					continue
				}
				better := o.Priority < q.Priority || (o.Priority == q.Priority && (o.AtMs < q.AtMs || (o.AtMs == q.AtMs && o.SubUs < q.SubUs)))
				if better {
					kind := "priority"
					if o.Priority == q.Priority {
						kind = "arrival"
					}
					tag := ""
					if o.Hold > 0 {
						tag = "/overtaken-request-was-parked-before-select"
					}
					v.Violate("C10/order/"+kind+tag, fmt.Sprintf("%s (priority %d, arrived %d ms) released at %d ms while %s (priority %d, arrived %d ms) kept waiting", q.ID, q.Priority, q.AtMs, q.DoneMs, o.ID, o.Priority, o.AtMs), rp)
					return
				}
			}
		}
		// (d) no stranding: an expired request saw only full windows begin during its wait
		if q.Result == "expired" {
			for k := q.ParkMs/w + 1; k*w < q.DoneMs; k++ {
				if int64(relPerWindow[k]) < scn.Quota {
					tag := "free-running"
					if q.Hold > 0 {
						tag = "rollover-before-waiter-parked"
					}
					v.Violate("C10/stranded/"+tag, fmt.Sprintf("request %s (queued at %d ms) expired at %d ms although window %d (starting at %d ms) released only %d of its quota %d", q.ID, q.ParkMs, q.DoneMs, k, k*w, relPerWindow[k], scn.Quota), rp)
					return
				}
			}
		}
	}
	if queued > 0 {
		v.Distinct(fmt.Sprintf("q%d/s%d/w%d/n%d/h%d/%v", scn.Quota, scn.Size, scn.WindowS, queued, heldN, outcomes))
	}
	if idx%331 == 0 {
		v.Sample(rp)
	}
}
