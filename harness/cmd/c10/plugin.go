package main

// Concurrent FIRST requests of a remedy through the real StrategyBasedQueuePlugin (the queue of a remedy
// is created on first use). N callers hit a remedy nobody has used yet at one frozen instant in the middle
// of a window; the engine's queue factory is the real in-memory queue, wrapped only to yield the processor
// at the point where the real factory starts a goroutine. Oracle: at most `quota` of them pass at once; every
// other caller is parked (its TTL timer shows up on the virtual clock) or rejected as "queue full"; after the
// TTLs fire nobody else passes in that window.

import (
	"context"
	"fmt"
	"runtime"
	"sync"
	"time"

	"github.com/rs/zerolog"
	"go.opentelemetry.io/otel/metric/noop"

	"lunar/engine/actions"
	"lunar/engine/config"
	lunarMessages "lunar/engine/messages"
	"lunar/engine/services/remedies"
	"lunar/engine/utils"
	"lunar/engine/utils/queue"
	sharedConfig "lunar/shared-model/config"
	"lunar/toolkit-core/logging"

	"verif/harness/sim"
)

type pluginReplay struct {
	Case    int    `json:"case"`
	Seed    uint64 `json:"seed"`
	Kind    string `json:"kind"`
	Quota   int64  `json:"quota"`
	Size    int64  `json:"queue_size"`
	Callers int    `json:"concurrent_first_callers"`
	Passed  int    `json:"passed_at_once"`
	Parked  int    `json:"parked"`
	Full    int    `json:"rejected_at_once"`
}

func pluginCases(args sim.Args, v *sim.Verdict, lo, hi int) {
	clk := sim.NewVClock(t0.Add(400 * time.Millisecond))
	logger := logging.ContextLogger{Logger: zerolog.Nop()}
	factory := func(key queue.QueueKey) queue.DelayedPriorityQueueable {
		runtime.Gosched() // creating a queue starts a goroutine: the creator may lose the processor here
		q := queue.NewInMemoryDelayedPriorityQueue(key, clk, logger)
		runtime.Gosched()
		return q
	}
	plugin := remedies.NewStrategyBasedQueuePlugin(context.Background(), clk, logger, noop.NewMeterProvider().Meter("c10"), factory)
	watchdog := 20 * time.Second
	for i := lo; i < hi; i++ {
		r := args.CaseRand(3_000_000 + i)
		v.Eval(1)
		rp := pluginReplay{Case: i, Seed: args.Seed, Kind: "concurrent-first-requests-of-a-remedy", Quota: int64(r.Range(1, 2)), Size: int64(r.Range(2, 12)), Callers: r.Range(4, 12)}
		ttl := time.Duration(1000+i%50) * time.Second // far away: the clock stands still; distinct per case
		scoped := config.ScopedRemedy{
			Scope: utils.ScopeEndpoint, Method: "GET", NormalizedURL: "a.com/x",
			Remedy: &sharedConfig.Remedy{Name: fmt.Sprintf("fresh-%d-%d", args.Seed, i), Enabled: true, Config: sharedConfig.RemedyConfig{StrategyBasedQueue: &sharedConfig.StrategyBasedQueueConfig{
				AllowedRequestCount: rp.Quota, WindowSizeInSeconds: 3600, ResponseStatusCode: 429, TTLSeconds: float32(ttl / time.Second), QueueSize: rp.Size,
			}}},
		}
		armedBefore := clk.Armed(ttl)
		type res struct {
			passed bool
			err    string
		}
		out := make(chan res, rp.Callers)
		start := make(chan struct{})
		var ready sync.WaitGroup
		for c := 0; c < rp.Callers; c++ {
			ready.Add(1)
			go func(c int) {
				ready.Done()
				<-start
				act, err := plugin.OnRequest(lunarMessages.OnRequest{ID: fmt.Sprintf("p%d-%d", i, c), SequenceID: fmt.Sprintf("p%d-%d", i, c), Method: "GET", Scheme: "https", URL: "a.com/x", Path: "/x", Headers: map[string]string{}}, scoped)
				x := res{}
				if err != nil {
					x.err = err.Error()
				}
				_, x.passed = act.(*actions.NoOpAction)
				out <- x
			}(c)
		}
		ready.Wait()
		close(start)
		// quiescence: every caller has either returned or armed its TTL timer
		returned := 0
		deadline := time.Now().Add(watchdog)
		for {
			for drained := false; !drained; {
				select {
				case x := <-out:
					returned++
					if x.err != "" {
						v.Violate("C10/plugin/error", x.err, rp)
						return
					}
					if x.passed {
						rp.Passed++
					} else {
						rp.Full++
					}
				default:
					drained = true
				}
			}
			rp.Parked = int(clk.Armed(ttl) - armedBefore)
			if returned+rp.Parked >= rp.Callers {
				break
			}
			if time.Now().After(deadline) {
				v.Inconclude(fmt.Sprintf("plugin case %d: callers neither returned nor parked", i))
				return
			}
			time.Sleep(100 * time.Microsecond)
		}
		v.Count("plugin_first_request_rounds", 1)
		v.Count("plugin_concurrent_first_callers", rp.Callers)
		if int64(rp.Passed) > rp.Quota {
			v.Violate("C10/window-quota-exceeded/concurrent-first-requests-of-a-remedy", fmt.Sprintf("%d of %d concurrent first requests of a fresh remedy passed at one instant, window quota %d", rp.Passed, rp.Callers, rp.Quota), rp)
			return
		}
		if int64(rp.Parked) > rp.Size {
			v.Violate("C10/queue-size-exceeded/concurrent-first-requests-of-a-remedy", fmt.Sprintf("%d callers are waiting, queue size %d", rp.Parked, rp.Size), rp)
			return
		}
		if rp.Full > 0 && int64(rp.Parked) < rp.Size {
			v.Violate("C10/rejected-while-queue-not-full/concurrent-first-requests-of-a-remedy", fmt.Sprintf("%d callers rejected at once with %d waiting, queue size %d", rp.Full, rp.Parked, rp.Size), rp)
			return
		}
		if int64(rp.Passed) < rp.Quota && rp.Passed < rp.Callers {
			v.Violate("C10/rejected-while-window-has-quota/concurrent-first-requests-of-a-remedy", fmt.Sprintf("only %d of %d callers passed although the fresh window allows %d", rp.Passed, rp.Callers, rp.Quota), rp)
			return
		}
		// let the parked callers go (their TTL "elapses": they are answered 'rejected'; nobody may pass now)
		for _, p := range clk.Pending() {
			if p.D == ttl {
				clk.Fire(p.ID)
			}
		}
		for returned < rp.Callers {
			select {
			case x := <-out:
				returned++
				if x.passed {
					v.Violate("C10/window-quota-exceeded/concurrent-first-requests-of-a-remedy", fmt.Sprintf("a parked caller passed in a window whose quota %d was used up", rp.Quota), rp)
					return
				}
			case <-time.After(watchdog):
				v.Inconclude(fmt.Sprintf("plugin case %d: parked callers did not return after their TTL fired", i))
				return
			}
		}
		v.Distinct(fmt.Sprintf("plugin/q%d/s%d/n%d/full=%v", rp.Quota, rp.Size, rp.Callers, rp.Full > 0))
		if i%61 == 0 {
			v.Sample(rp)
		}
	}
}
