package main

// TTL expiry racing the rollover (forced interleaving, no hook in the code under test).
//
// The rollover goroutine reads the clock right after it has taken the queue mutex. The virtual clock parks
// that read (sim.VClock.ArmNowGate); while it is parked the controller fires the TTL timers of chosen
// waiters, which take the TTL branch of Enqueue and block on the mutex. The gate is then opened: the
// rollover pops and releases waiters whose goroutines are already on their way out through the TTL branch.
// Oracle (sound for every schedule): a request the rollover spent a window slot on ("dpq.released" hook)
// must be answered "released"; at most quota requests are answered "released"; a waiter whose TTL never
// fired is not left waiting by a rollover that released fewer than its quota.

import (
	"fmt"
	"sync"
	"time"

	"github.com/rs/zerolog"

	"lunar/engine/utils/queue"
	"lunar/toolkit-core/logging"
	"lunar/toolkit-core/verifhook"

	"verif/harness/sim"
)

type raceWaiter struct {
	ID       string `json:"id"`
	AtMs     int64  `json:"at_ms"`
	Priority int    `json:"priority"`
	TTLMs    int64  `json:"ttl_ms"`
	Fired    bool   `json:"ttl_fired_while_rollover_held_the_mutex"`
	Released bool   `json:"slot_spent_by_rollover"`
	Returned bool   `json:"returned"`
	Result   bool   `json:"result"`
}

type raceReplay struct {
	Case    int          `json:"case"`
	Seed    uint64       `json:"seed"`
	Kind    string       `json:"kind"`
	Quota   int64        `json:"quota"`
	WindowS int64        `json:"window_s"`
	LateMs  int64        `json:"rollover_late_ms"`
	Waiters []raceWaiter `json:"waiters"`
}

func raceCase(idx int, args sim.Args, r *sim.Rand, v *sim.Verdict) {
	v.Eval(1)
	watchdog := 20 * time.Second
	rp := raceReplay{Case: idx, Seed: args.Seed, Kind: "ttl-fires-while-rollover-holds-the-mutex",
		Quota: int64(r.Range(1, 2)), WindowS: int64(r.Range(1, 2))}
	wms := rp.WindowS * 1000
	k := r.Range(1, 3)
	if r.Chance(1, 2) {
		rp.LateMs = int64(r.Range(1, 40))
	}
	for j := 0; j < k; j++ {
		at := int64(100 + 7*j)
		slack := int64(0) // TTL ends exactly on the boundary
		if r.Chance(1, 2) {
			slack = 24 * int64(r.Range(1, 3)) // keeps the TTL durations distinct (the controller finds a timer by its duration)
		}
		rp.Waiters = append(rp.Waiters, raceWaiter{ID: fmt.Sprintf("w%d", j), AtMs: at, Priority: r.Intn(3), TTLMs: wms - at - slack - int64(j)})
	}
	nFire := r.Range(1, k)
	perm := make([]int, k)
	for j := range perm {
		perm[j] = j
	}
	r.Shuffle(k, func(a, b int) { perm[a], perm[b] = perm[b], perm[a] })
	for _, j := range perm[:nFire] {
		rp.Waiters[j].Fired = true
	}

	clk := sim.NewVClock(t0)
	var mu sync.Mutex
	processed := 0
	released := map[string]bool{}
	sim.GlobalSink.OnEach(func(e verifhook.Event) {
		mu.Lock()
		defer mu.Unlock()
		if e.Kind == "dpq.processed" {
			processed++
		}
		if e.Kind == "dpq.released" && len(e.Args) > 0 {
			released[e.Args[0]] = true
		}
	})
	verifhook.SetYield(nil)
	defer sim.GlobalSink.OnEach(nil)
	defer sim.GlobalSink.Drain()

	window := time.Duration(rp.WindowS) * time.Second
	dpq := queue.NewInMemoryDelayedPriorityQueue(
		queue.QueueKey{RemedyName: fmt.Sprintf("race%d", idx), Strategy: queue.Strategy{WindowQuota: rp.Quota, WindowSize: window}},
		clk, logging.ContextLogger{Logger: zerolog.Nop()})
	if !clk.WaitPending(func(sim.Waiter) bool { return true }, 1, watchdog) {
		v.Inconclude(fmt.Sprintf("race case %d: process loop did not start", idx))
		return
	}
	var procTimer uint64
	for _, p := range clk.Pending() {
		procTimer = p.ID
	}
	// fill the first window
	clk.Set(t0.Add(50 * time.Millisecond))
	for i := int64(0); i < rp.Quota; i++ {
		ok, _ := dpq.Enqueue(queue.NewRequest(fmt.Sprintf("fill%d", i), 0, clk), time.Second, 10)
		if !ok {
			v.Violate("C10/rejected-while-window-has-quota", fmt.Sprintf("race case: fill request %d of quota %d refused in a fresh window", i, rp.Quota), rp)
			return
		}
	}
	done := make([]chan bool, k)
	ttlTimer := make([]uint64, k)
	for j := range rp.Waiters {
		w := &rp.Waiters[j]
		clk.Set(t0.Add(time.Duration(w.AtMs) * time.Millisecond))
		done[j] = make(chan bool, 1)
		ttl := time.Duration(w.TTLMs) * time.Millisecond
		req := queue.NewRequest(w.ID, float64(w.Priority), clk)
		go func(ch chan bool) {
			ok, _ := dpq.Enqueue(req, ttl, int64(k))
			ch <- ok
		}(done[j])
		if !clk.WaitPending(func(p sim.Waiter) bool { return p.D == ttl }, 1, watchdog) {
			v.Inconclude(fmt.Sprintf("race case %d: waiter %s did not arm its TTL", idx, w.ID))
			return
		}
		for _, p := range clk.Pending() {
			if p.D == ttl {
				ttlTimer[j] = p.ID
			}
		}
	}
	// the boundary: park the rollover goroutine in its clock read, under the mutex
	clk.Set(t0.Add(window + time.Duration(rp.LateMs)*time.Millisecond))
	clk.ArmNowGate()
	clk.Fire(procTimer)
	if !clk.WaitNowGateParked(watchdog) {
		clk.OpenNowGate()
		v.Inconclude(fmt.Sprintf("race case %d: the rollover goroutine never read the clock", idx))
		return
	}
	for j := range rp.Waiters {
		if rp.Waiters[j].Fired {
			clk.Fire(ttlTimer[j])
		}
	}
	time.Sleep(time.Duration(r.Range(200, 1500)) * time.Microsecond) // scheduling aid only: let the TTL branches reach the mutex
	clk.OpenNowGate()
	deadline := time.Now().Add(watchdog)
	for {
		mu.Lock()
		p := processed
		mu.Unlock()
		if p > 0 {
			break
		}
		if time.Now().After(deadline) {
			v.Inconclude(fmt.Sprintf("race case %d: rollover iteration did not finish", idx))
			return
		}
		time.Sleep(100 * time.Microsecond)
	}
	mu.Lock()
	for j := range rp.Waiters {
		rp.Waiters[j].Released = released[rp.Waiters[j].ID]
	}
	mu.Unlock()
	trueN := int64(0)
	for j := range rp.Waiters {
		w := &rp.Waiters[j]
		if !w.Fired && !w.Released {
			continue // still waiting, legitimately or not: judged below
		}
		select {
		case res := <-done[j]:
			w.Returned, w.Result = true, res
			if res {
				trueN++
			}
		case <-time.After(watchdog):
			v.Inconclude(fmt.Sprintf("race case %d: waiter %s did not return", idx, w.ID))
			return
		}
	}
	v.Count("race_cases", 1)
	v.Count("race_ttl_fired_under_rollover_lock", nFire)
	for _, w := range rp.Waiters {
		if w.Released && w.Fired {
			v.Count("race_released_after_its_ttl_fired", 1)
		}
		if w.Released && !w.Result {
			v.Violate("C10/released-but-rejected/ttl-raced-rollover", fmt.Sprintf("the rollover spent a slot of window 1 on %s (quota %d) while %s was on its way out through the TTL branch; %s was then answered 'rejected'", w.ID, rp.Quota, w.ID, w.ID), rp)
			return
		}
		if w.Returned && w.Result && !w.Released {
			v.Violate("C10/released-without-slot/ttl-raced-rollover", fmt.Sprintf("%s was answered 'released' although the rollover did not spend a slot on it", w.ID), rp)
			return
		}
	}
	if trueN > rp.Quota {
		v.Violate("C10/window-quota-exceeded", fmt.Sprintf("race case: %d waiters released at one rollover, quota %d", trueN, rp.Quota), rp)
		return
	}
	if trueN < rp.Quota {
		for _, w := range rp.Waiters {
			if !w.Fired && !w.Released {
				v.Violate("C10/stranded/ttl-raced-rollover", fmt.Sprintf("%s (TTL not elapsed) left waiting by a rollover that released %d of quota %d", w.ID, trueN, rp.Quota), rp)
				return
			}
		}
	}
	// queue bound after the race: the queue size is k; R waiters are still parked; with the window used up,
	// k-R further callers must be parked and the next one rejected at once
	if trueN == rp.Quota {
		still := 0
		for _, w := range rp.Waiters {
			if !w.Returned {
				still++
			}
		}
		var probeTimers []time.Duration
		probeDone := []chan bool{}
		for j := 0; j <= k-still; j++ {
			ttl := time.Duration(5000+j) * time.Millisecond
			ch := make(chan bool, 1)
			req := queue.NewRequest(fmt.Sprintf("probe%d", j), 1, clk)
			go func() {
				ok, _ := dpq.Enqueue(req, ttl, int64(k))
				ch <- ok
			}()
			parked, returned, res := false, false, false
			deadline := time.Now().Add(watchdog)
			for !parked && !returned {
				select {
				case res = <-ch:
					returned = true
				default:
					for _, p := range clk.Pending() {
						if p.D == ttl {
							parked = true
						}
					}
					if !parked {
						if time.Now().After(deadline) {
							v.Inconclude(fmt.Sprintf("race case %d: probe neither parked nor returned", idx))
							return
						}
						time.Sleep(50 * time.Microsecond)
					}
				}
			}
			last := j == k-still
			switch {
			case returned && res:
				v.Violate("C10/window-quota-exceeded", fmt.Sprintf("race case: a new caller passed in window 1 whose quota %d was used up by the rollover", rp.Quota), rp)
				return
			case !last && returned:
				v.Violate("C10/rejected-while-queue-not-full/after-ttl-raced-rollover", fmt.Sprintf("after the rollover %d waiters are parked (queue size %d), yet new caller #%d was rejected at once", still+j, k, j), rp)
				return
			case last && parked:
				v.Violate("C10/queue-size-exceeded/after-ttl-raced-rollover", fmt.Sprintf("after the rollover %d waiters were parked and %d more joined (queue size %d), yet one more caller was parked instead of rejected: the waiter count lost a request that was released while its TTL fired", still, k-still, k), rp)
				return
			}
			if parked {
				probeTimers = append(probeTimers, ttl)
				probeDone = append(probeDone, ch)
			}
		}
		v.Count("race_queue_bound_probes", 1)
		for i, ttl := range probeTimers {
			for _, p := range clk.Pending() {
				if p.D == ttl {
					clk.Fire(p.ID)
				}
			}
			select {
			case <-probeDone[i]:
			case <-time.After(watchdog):
			}
		}
	}
	// let the remaining goroutines go
	for j := range rp.Waiters {
		if !rp.Waiters[j].Returned {
			clk.Fire(ttlTimer[j])
			select {
			case <-done[j]:
			case <-time.After(watchdog):
			}
		}
	}
	v.Distinct(fmt.Sprintf("race/q%d/k%d/f%d/late=%v/true=%d", rp.Quota, k, nFire, rp.LateMs > 0, trueN))
	if idx%97 == 0 {
		v.Sample(rp)
	}
}
