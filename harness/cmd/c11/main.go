// C11 - a transaction sees one policy version from request to response.
//
// Runtime monitor: the real config.TxnPoliciesAccessor (with its two real vacuum.MapVacuum loops) is
// driven on a virtual clock by generated histories of transaction lookups, policy updates
// (UpdatePoliciesData, ReloadFromFile), fail-safe reverts (RevertToLastLoaded, RevertToDiagnosisFree)
// and clock advances. Every policy version is a distinct *PoliciesData whose first global remedy is
// named v<k>; a lookup therefore names the version it was served. The oracle is a snapshot model
// written from the statement (pin at first sight, keep it for the retention period, new transactions
// get the newest completed version, never "empty policies").
package main

import (
	"encoding/json"
	"fmt"
	"os"
	"path/filepath"
	"runtime"
	"sort"
	"strings"
	"sync"
	"sync/atomic"
	"time"

	"lunar/engine/config"
	sharedConfig "lunar/shared-model/config"

	"verif/harness/sim"
)

const (
	tick       = 5 * time.Second
	retention  = 30 * time.Second
	judgeBelow = retention - tick // a later lookup is judged iff t - t_pin <= 25 s
	wallGuard  = 8 * time.Second  // wall-clock watchdog of one quiescence wait (inconclusive only)
)

var t0 = time.Date(2030, 1, 1, 0, 0, 0, 0, time.UTC)

// ---------------------------------------------------------------------------------------------
// case description (also the replay value)

type op struct {
	K string `json:"k"`           // t | upd | load | revL | revD | adv
	T int    `json:"t,omitempty"` // transaction index (k = t)
	D int64  `json:"d,omitempty"` // advance in ms (k = adv)
}

func (o op) String() string {
	switch o.K {
	case "t":
		return fmt.Sprintf("t%d", o.T)
	case "adv":
		return fmt.Sprintf("+%dms", o.D)
	}
	return o.K
}

type concSpec struct {
	Workers    int     `json:"workers"`
	Pairs      int     `json:"pairs"`
	Updates    int     `json:"updates"`
	OpsPerAdv  int     `json:"ops_per_adv"`
	OpsPerUpd  int     `json:"ops_per_upd"`
	StepsMs    []int64 `json:"steps_ms"`
	MaxGap     int     `json:"max_gap"`
	GapSeed    uint64  `json:"gap_seed"`
	SettleEach bool    `json:"settle_each"`
}

type caseSpec struct {
	Kind string    `json:"kind"` // exh | samp | rand | conc
	Ops  []op      `json:"ops,omitempty"`
	Conc *concSpec `json:"conc,omitempty"`
}

type replay struct {
	Seed uint64   `json:"seed"`
	Case int      `json:"case"`
	Spec caseSpec `json:"spec"`
	Log  []string `json:"log,omitempty"`
}

// ---------------------------------------------------------------------------------------------
// building tagged policy versions

func taggedConfig(tag string) *sharedConfig.PoliciesConfig {
	return &sharedConfig.PoliciesConfig{
		Global: sharedConfig.Global{
			Remedies: []sharedConfig.Remedy{{
				Name:    tag,
				Enabled: false, // disabled: no HAProxy endpoint management is triggered
				Config: sharedConfig.RemedyConfig{
					FixedResponse: &sharedConfig.FixedResponseConfig{StatusCode: 418},
				},
			}},
		},
	}
}

func tagOf(d *config.PoliciesData) string {
	if d == nil {
		return "<nil>"
	}
	if len(d.Config.Global.Remedies) == 0 {
		return ""
	}
	return d.Config.Global.Remedies[0].Name
}

func buildData(tag string) *config.PoliciesData {
	d, err := config.BuildPolicyData(taggedConfig(tag), false)
	if err != nil {
		panic(fmt.Sprintf("harness: BuildPolicyData(%s): %v", tag, err))
	}
	return d
}

// ---------------------------------------------------------------------------------------------
// sequential runner + reference model

type version struct {
	ptr *config.PoliciesData
	tag string
}

type cand struct { // one admissible explanation of a transaction's pin
	ver   int
	at    time.Time
	ticks int // vacuum ticks / reverts seen when the pin was taken (signature detail only)
	revs  int
}

type seqRun struct {
	v        *sim.Verdict
	rp       replay
	clk      *sim.VClock
	acc      *config.TxnPoliciesAccessor
	dir      string
	versions []version
	byPtr    map[*config.PoliciesData]int
	pins     map[int][]cand
	started  uint64 // vacuum loops started (model: first lookup, first successful update)
	txnVac   bool
	polVac   bool
	loaded   string // tag of the last successfully loaded file (what a revert restores)
	nextTag  int
	log      []string
	aborted  bool
	// shape
	nTouch, nUpd, nRev, nLoad, pinMattered, judged, edge, late, lateRepinned, ticks int
	maxDt                                                                           time.Duration
}

func (s *seqRun) logf(f string, a ...any) {
	s.log = append(s.log, fmt.Sprintf("%8.3fs ", s.clk.Now().Sub(t0).Seconds())+fmt.Sprintf(f, a...))
}

func (s *seqRun) violate(sig, detail string) {
	rp := s.rp
	rp.Log = append([]string{}, s.log...)
	s.v.Violate(sig, detail, rp)
	s.aborted = true
}

func (s *seqRun) quiesce() bool {
	// every started vacuum loop is parked in clock.Sleep again <=> its iteration is finished
	if s.clk.WaitPending(func(sim.Waiter) bool { return true }, int(s.started), wallGuard) {
		return true
	}
	s.v.Inconclude(fmt.Sprintf("case %d: a vacuum loop did not park again within the wall-clock guard (parked %d, expected %d)",
		s.rp.Case, len(s.clk.Pending()), s.started))
	s.v.Count("quiesce_timeouts", 1)
	s.aborted = true
	return false
}

func (s *seqRun) advance(d time.Duration) {
	s.clk.Advance(d, func(w sim.Waiter) {
		s.ticks++
		s.quiesce()
	})
}

func (s *seqRun) current() int { return len(s.versions) - 1 }

func (s *seqRun) touch(t int) {
	id := config.TxnID(fmt.Sprintf("c%d-t%d", s.rp.Case, t))
	now := s.clk.Now()
	d := s.acc.GetTxnPoliciesData(id)
	if !s.txnVac {
		s.txnVac = true
		s.started++
	}
	s.nTouch++
	got, known := s.byPtr[d]
	cur := s.current()
	cands := s.pins[t]
	s.logf("t%d -> %s", t, describe(d, got, known))
	if !known {
		kind := "unknown-data"
		if tagOf(d) == "" {
			kind = "empty-policies"
		}
		ctx := "first-lookup"
		if len(cands) > 0 {
			ctx = "pinned-lookup"
		}
		s.violate(fmt.Sprintf("C11/%s/%s", kind, ctx),
			fmt.Sprintf("lookup of txn t%d returned %s which is no version ever installed (current is #%d %s)", t, describe(d, got, known), cur, s.versions[cur].tag))
		return
	}
	if len(cands) == 0 {
		if got != cur {
			s.violate("C11/new-txn/not-current-version",
				fmt.Sprintf("first lookup of txn t%d returned version #%d (%s) but the newest completed version is #%d (%s)", t, got, s.versions[got].tag, cur, s.versions[cur].tag))
			return
		}
		s.pins[t] = []cand{{got, now, s.ticks, s.nRev}}
		return
	}
	var next []cand
	judgedHere, lateHere := false, false
	minDt := time.Duration(1 << 62)
	for _, c := range cands {
		dt := now.Sub(c.at)
		if dt < minDt {
			minDt = dt
		}
		if dt <= judgeBelow {
			judgedHere = true
			if got == c.ver {
				next = append(next, c)
			}
			continue
		}
		// beyond the judged span: the pin may or may not have been given up
		lateHere = true
		if got == c.ver || got == cur {
			// still pinned (the pin entry may outlive its version: the lookup then falls back to the
			// current version without re-pinning) ...
			next = append(next, c)
		}
		if got == cur {
			// ... or the pin was given up and the transaction pinned afresh
			next = append(next, cand{cur, now, s.ticks, s.nRev})
		}
	}
	if len(next) == 0 {
		c := cands[len(cands)-1]
		dt := now.Sub(c.at)
		if judgedHere {
			dir := "newer"
			if got < c.ver {
				dir = "older"
			}
			how := "after-vacuum-tick"
			if s.ticks == c.ticks {
				how = "no-vacuum-tick-since-pin/update-between"
				if s.nRev > c.revs {
					how = "no-vacuum-tick-since-pin/revert-between"
				}
			}
			s.violate(fmt.Sprintf("C11/pin/switched-to-%s-within-retention/%s", dir, how),
				fmt.Sprintf("txn t%d was pinned to version #%d (%s) at %v; %v later (<= %v) its lookup returned version #%d (%s); current #%d",
					t, c.ver, s.versions[c.ver].tag, c.at.Sub(t0), dt, judgeBelow, got, s.versions[got].tag, cur))
		} else {
			s.violate("C11/late/neither-pinned-nor-current",
				fmt.Sprintf("txn t%d pinned to #%d at %v; %v later its lookup returned #%d which is neither its pin nor the current #%d", t, c.ver, c.at.Sub(t0), dt, got, cur))
		}
		return
	}
	next = dedup(next)
	s.pins[t] = next
	if minDt > s.maxDt {
		s.maxDt = minDt
	}
	switch {
	case judgedHere && !lateHere:
		s.judged++
		if got != cur {
			s.pinMattered++
		}
	case minDt < retention+tick:
		s.edge++
		if got != cur {
			s.v.Count("edge_pin_still_served", 1)
		}
	default:
		s.late++
		if len(next) > 0 && next[0].at.Equal(now) {
			s.lateRepinned++
		}
	}
}

func dedup(cs []cand) []cand {
	seen := map[string]bool{}
	var out []cand
	for _, c := range cs {
		k := fmt.Sprintf("%d@%d", c.ver, c.at.UnixNano())
		if !seen[k] {
			seen[k] = true
			out = append(out, c)
		}
	}
	sort.Slice(out, func(i, j int) bool { return out[i].at.After(out[j].at) })
	return out
}

func describe(d *config.PoliciesData, idx int, known bool) string {
	if known {
		return fmt.Sprintf("#%d(%s)", idx, tagOf(d))
	}
	return fmt.Sprintf("?(%q)", tagOf(d))
}

// install performs one version-creating operation and learns the identity of the new version.
func (s *seqRun) install(kind string) {
	var err error
	expectTag := ""
	var own *config.PoliciesData
	switch kind {
	case "upd":
		s.nextTag++
		expectTag = fmt.Sprintf("v%d", s.nextTag)
		own = buildData(expectTag)
		err = s.acc.UpdatePoliciesData(own, false)
		s.nUpd++
	case "load":
		s.nextTag++
		expectTag = fmt.Sprintf("v%d", s.nextTag)
		if werr := config.WritePoliciesConfig(filepath.Join(s.dir, "policies.yaml"), taggedConfig(expectTag)); werr != nil {
			panic(werr)
		}
		err = s.acc.ReloadFromFile()
		s.nLoad++
	case "revL":
		expectTag = s.loaded
		err = s.acc.RevertToLastLoaded()
		s.nRev++
	case "revD":
		expectTag = s.loaded
		err = s.acc.RevertToDiagnosisFree()
		s.nRev++
	}
	if err != nil {
		s.violate("C11/harness/update-rejected/"+kind, fmt.Sprintf("%s returned %v", kind, err))
		return
	}
	if !s.polVac {
		s.polVac = true
		s.started++
	}
	cur := s.acc.GetCurrentPoliciesData()
	if own != nil && cur != own {
		s.violate("C11/update/current-is-not-the-installed-data", fmt.Sprintf("after %s(%s) the current data is %q", kind, expectTag, tagOf(cur)))
		return
	}
	if _, old := s.byPtr[cur]; old || tagOf(cur) != expectTag {
		s.violate("C11/update/current-has-wrong-content/"+kind,
			fmt.Sprintf("after %s the current data carries tag %q (expected %q, must be a new version: %v)", kind, tagOf(cur), expectTag, !old))
		return
	}
	if kind == "load" {
		s.loaded = expectTag
	}
	s.byPtr[cur] = len(s.versions)
	s.versions = append(s.versions, version{cur, expectTag})
	s.logf("%s -> #%d(%s)", kind, len(s.versions)-1, expectTag)
}

func runSeq(v *sim.Verdict, rp replay, root string) {
	spec := rp.Spec
	dir := filepath.Join(root, fmt.Sprintf("case%d", rp.Case))
	if err := os.MkdirAll(dir, 0o755); err != nil {
		panic(err)
	}
	defer os.RemoveAll(dir)
	os.Setenv("LUNAR_PROXY_POLICIES_CONFIG", filepath.Join(dir, "policies.yaml"))
	os.Setenv("LUNAR_PROXY_CONFIG_DIR", dir)
	for _, f := range []string{"policies.yaml", "loaded-policies.yaml", "loaded-policies-diagnosis-free.yaml"} {
		if err := config.WritePoliciesConfig(filepath.Join(dir, f), taggedConfig("v1")); err != nil {
			panic(err)
		}
	}
	clk := sim.NewVClock(t0)
	sim.UseClock(clk)
	first := buildData("v1")
	acc := config.NewTxnPoliciesAccessor(first)
	s := &seqRun{
		v: v, rp: rp, clk: clk, acc: &acc, dir: dir,
		versions: []version{{first, "v1"}}, byPtr: map[*config.PoliciesData]int{first: 0},
		pins: map[int][]cand{}, loaded: "v1", nextTag: 1,
	}
	v.Eval(1)
	sim.Guard(v, "C11/panic/sequential", rp, func() {
		for _, o := range spec.Ops {
			switch o.K {
			case "t":
				s.touch(o.T)
			case "adv":
				s.advance(time.Duration(o.D) * time.Millisecond)
				s.logf("advanced %dms", o.D)
			default:
				s.install(o.K)
			}
			if s.aborted || !s.quiesce() {
				return
			}
		}
	})
	v.Count("lookups", s.nTouch)
	v.Count("updates_direct", s.nUpd)
	v.Count("reloads_from_file", s.nLoad)
	v.Count("reverts", s.nRev)
	v.Count("vacuum_ticks_fired", s.ticks)
	v.Count("judged_pinned_lookups", s.judged)
	v.Count("judged_pin_differs_from_current", s.pinMattered)
	v.Count("edge_lookups_not_judged", s.edge)
	v.Count("late_lookups", s.late)
	v.Count("late_lookups_served_current", s.lateRepinned)
	if s.pinMattered > 0 {
		v.Distinct(fmt.Sprintf("%s|txn%d|upd%d|load%d|rev%d|pm%d|late%v|dt%d", spec.Kind, len(s.pins), bucket(s.nUpd), bucket(s.nLoad), bucket(s.nRev),
			bucket(s.pinMattered), s.late > 0, int(s.maxDt/tick)))
		v.Sample(map[string]any{"case": rp.Case, "kind": spec.Kind, "ops": opsString(spec.Ops), "log": s.log})
	}
}

func bucket(n int) int {
	switch {
	case n <= 2:
		return n
	case n <= 5:
		return 3
	case n <= 12:
		return 4
	}
	return 5
}

func opsString(ops []op) string {
	parts := make([]string, len(ops))
	for i, o := range ops {
		parts[i] = o.String()
	}
	return strings.Join(parts, " ")
}

// ---------------------------------------------------------------------------------------------
// generators

// prelude: start both vacuum loops at chosen phases and let version 1 and the dummy pin be vacuumed,
// so that the judged part of the history runs against loops that are already ticking.
func prelude(p1, p2 int64) []op {
	return []op{{K: "t", T: 99}, {K: "adv", D: p1}, {K: "upd"}, {K: "adv", D: 61000 + p2}}
}

var exhAdv = []int64{4000, 6000, 29000, 31000, 61000}
var exhUpd = []string{"upd", "revL", "revD"}

// enumerate all histories of exactly n operations over {t0,t1,t2 (introduced in order), upd, revL,
// revD (at most 2 in total), advances 4/6/29/31/61 s (never two in a row, never first)} that end in
// a lookup (anything after the last lookup is unobservable).
func enumerate(n int) [][]op {
	var out [][]op
	cur := make([]op, 0, n)
	var rec func(txns, upds int, lastAdv bool)
	rec = func(txns, upds int, lastAdv bool) {
		if len(cur) == n {
			if cur[n-1].K == "t" {
				out = append(out, append([]op{}, cur...))
			}
			return
		}
		for t := 0; t <= txns && t < 3; t++ {
			cur = append(cur, op{K: "t", T: t})
			nt := txns
			if t == txns {
				nt++
			}
			rec(nt, upds, false)
			cur = cur[:len(cur)-1]
		}
		if upds < 2 {
			for _, u := range exhUpd {
				cur = append(cur, op{K: u})
				rec(txns, upds+1, false)
				cur = cur[:len(cur)-1]
			}
		}
		if !lastAdv && len(cur) > 0 {
			for _, a := range exhAdv {
				cur = append(cur, op{K: "adv", D: a})
				rec(txns, upds, true)
				cur = cur[:len(cur)-1]
			}
		}
	}
	rec(0, 0, false)
	return out
}

// sample one history of the same grammar, length 5..8, without the no-double-advance restriction.
func genSample(r *sim.Rand) []op {
	n := r.Range(5, 8)
	var ops []op
	txns, upds := 0, 0
	for len(ops) < n {
		switch x := r.Intn(10); {
		case x < 4:
			t := r.Intn(min(txns+1, 3))
			if t == txns {
				txns++
			}
			ops = append(ops, op{K: "t", T: t})
		case x < 6 && upds < 2:
			ops = append(ops, op{K: sim.Pick(r, []string{"upd", "revL", "revD", "load"})})
			upds++
		default:
			if len(ops) > 0 {
				ops = append(ops, op{K: "adv", D: sim.Pick(r, exhAdv)})
			}
		}
	}
	ops = append(ops, op{K: "t", T: r.Intn(max(txns, 1))})
	return append(prelude(int64(r.Intn(5000)), int64(r.Intn(5000))), ops...)
}

var randAdv = []int64{1, 999, 1000, 2500, 4000, 4999, 5000, 5001, 6000, 10000, 19999, 24000, 24999, 25000, 25001, 29000, 29999, 30000, 30001, 31000, 35000, 36000, 61000}

func genRandom(r *sim.Rand) []op {
	n := r.Range(12, 60)
	nTx := r.Range(2, 6)
	updW := r.Range(1, 4)
	var ops []op
	for len(ops) < n {
		switch x := r.Intn(12); {
		case x < 5:
			ops = append(ops, op{K: "t", T: r.Intn(nTx)})
		case x < 5+updW:
			ops = append(ops, op{K: sim.Pick(r, []string{"upd", "upd", "load", "load", "revL", "revD"})})
		default:
			d := sim.Pick(r, randAdv)
			if r.Chance(1, 4) {
				d = int64(r.Range(1, 27000))
			}
			ops = append(ops, op{K: "adv", D: d})
		}
	}
	ops = append(ops, op{K: "t", T: r.Intn(nTx)})
	return append(prelude(int64(r.Intn(5000)), int64(r.Intn(5000))), ops...)
}

func genConc(r *sim.Rand, thorough bool) *concSpec {
	c := &concSpec{
		Workers: 16, Pairs: r.Range(20, 40), Updates: r.Range(4, 14),
		OpsPerAdv: r.Range(6, 24), MaxGap: r.Range(1, 8), GapSeed: r.U64(), SettleEach: r.Chance(1, 3),
	}
	total := c.Workers * c.Pairs * 2
	c.OpsPerUpd = max(total/(c.Updates+1), 1)
	for i := 0; i < 64; i++ {
		c.StepsMs = append(c.StepsMs, sim.Pick(r, []int64{500, 1000, 2000, 3000, 4000, 5000, 5001, 6000, 7000, 11000}))
	}
	return c
}

// ---------------------------------------------------------------------------------------------
// concurrent rounds

type pair struct {
	id             string
	c0, s1         int64 // completed updates before the first lookup / started updates after it
	ta, tb         time.Time
	d1, d2         *config.PoliciesData
	updatesBetween int64
}

func runConc(v *sim.Verdict, rp replay) {
	cs := rp.Spec.Conc
	clk := sim.NewVClock(t0)
	sim.UseClock(clk)
	datas := make([]*config.PoliciesData, cs.Updates+1)
	byPtr := map[*config.PoliciesData]int64{}
	for k := range datas {
		datas[k] = buildData(fmt.Sprintf("v%d", k+1))
		byPtr[datas[k]] = int64(k)
	}
	acc := config.NewTxnPoliciesAccessor(datas[0])
	var started, completed, ops atomic.Int64
	var done atomic.Bool
	results := make([][]pair, cs.Workers)
	v.Eval(1)

	waitOps := func(target int64) {
		for spins := 0; ops.Load() < target && !done.Load() && spins < 200000; spins++ {
			runtime.Gosched()
		}
	}
	var advances atomic.Int64
	waitAdv := func(target int64) {
		for spins := 0; advances.Load() < target && !done.Load() && spins < 200000; spins++ {
			runtime.Gosched()
		}
	}
	var wg, aux sync.WaitGroup
	panicked := make(chan string, cs.Workers+2)
	guard := func(where string, fn func()) {
		defer func() {
			if r := recover(); r != nil {
				panicked <- fmt.Sprintf("%s: %v", where, r)
			}
		}()
		fn()
	}
	for w := 0; w < cs.Workers; w++ {
		wg.Add(1)
		go func(w int) {
			defer wg.Done()
			guard("worker", func() {
				r := sim.NewRand(cs.GapSeed + uint64(w)*977)
				for p := 0; p < cs.Pairs; p++ {
					pr := pair{id: fmt.Sprintf("c%d-w%d-p%d", rp.Case, w, p)}
					pr.c0 = completed.Load()
					pr.ta = clk.Now()
					pr.d1 = acc.GetTxnPoliciesData(config.TxnID(pr.id))
					pr.s1 = started.Load()
					ops.Add(1)
					waitAdv(advances.Load() + int64(r.Intn(cs.MaxGap+1)))
					pr.d2 = acc.GetTxnPoliciesData(config.TxnID(pr.id))
					pr.tb = clk.Now()
					pr.updatesBetween = completed.Load() - pr.c0
					ops.Add(1)
					results[w] = append(results[w], pr)
				}
			})
		}(w)
	}
	aux.Add(2)
	go func() { // updater
		defer aux.Done()
		guard("updater", func() {
			for k := 1; k <= cs.Updates && !done.Load(); k++ {
				waitOps(int64(k * cs.OpsPerUpd))
				started.Store(int64(k))
				if err := acc.UpdatePoliciesData(datas[k], k%3 == 0); err != nil {
					panicked <- fmt.Sprintf("update %d rejected: %v", k, err)
					return
				}
				completed.Store(int64(k))
			}
		})
	}()
	var ticks atomic.Int64
	go func() { // clock advancer
		defer aux.Done()
		guard("advancer", func() {
			for i := 0; !done.Load(); i++ {
				for y := 0; y < cs.OpsPerAdv*4; y++ { // free-running, paced by yields only
					runtime.Gosched()
				}
				step := time.Duration(cs.StepsMs[i%len(cs.StepsMs)]) * time.Millisecond
				clk.Advance(step, func(w sim.Waiter) {
					ticks.Add(1)
					if cs.SettleEach {
						// give the woken vacuum loop a chance to run against the lookups in flight
						for y := 0; y < 50; y++ {
							runtime.Gosched()
						}
					}
				})
				advances.Add(1)
			}
		})
	}()
	finished := make(chan struct{})
	go func() { wg.Wait(); close(finished) }()
	select {
	case <-finished:
	case <-time.After(90 * time.Second):
		done.Store(true)
		v.Inconclude(fmt.Sprintf("concurrent case %d: workers did not finish within the wall-clock guard", rp.Case))
		return
	}
	done.Store(true)
	aux.Wait()
	select {
	case msg := <-panicked:
		v.Violate("C11/panic/concurrent", msg, rp)
		return
	default:
	}
	judged, mattered, unjudged := 0, 0, 0
	for _, prs := range results {
		for _, pr := range prs {
			k1, ok1 := byPtr[pr.d1]
			k2, ok2 := byPtr[pr.d2]
			detail := func() string {
				return fmt.Sprintf("txn %s: first lookup in [%v] returned %s (completed updates before: %d, started after: %d); second lookup by %v returned %s; updates completed in between: %d",
					pr.id, pr.ta.Sub(t0), tagOf(pr.d1), pr.c0, pr.s1, pr.tb.Sub(t0), tagOf(pr.d2), pr.updatesBetween)
			}
			if !ok1 || !ok2 {
				kind := "unknown-data"
				if (!ok1 && tagOf(pr.d1) == "") || (!ok2 && tagOf(pr.d2) == "") {
					kind = "empty-policies"
				}
				v.Violate("C11/"+kind+"/concurrent", detail(), rp)
				continue
			}
			if k1 < pr.c0 || k1 > pr.s1 {
				v.Violate("C11/new-txn/not-current-version/concurrent", detail(), rp)
				continue
			}
			if pr.tb.Sub(pr.ta) > judgeBelow {
				unjudged++
				continue
			}
			judged++
			if k2 != k1 {
				dir := "newer"
				if k2 < k1 {
					dir = "older"
				}
				v.Violate("C11/pin/switched-to-"+dir+"-within-retention/concurrent", detail(), rp)
				continue
			}
			if pr.updatesBetween > 0 {
				mattered++
			}
		}
	}
	v.Count("conc_rounds", 1)
	v.Count("conc_pairs_judged", judged)
	v.Count("conc_pairs_judged_with_update_between", mattered)
	v.Count("conc_pairs_too_long_not_judged", unjudged)
	v.Count("conc_vacuum_ticks_fired", int(ticks.Load()))
	v.Count("judged_pin_differs_from_current", mattered)
	if mattered > 0 {
		v.Distinct(fmt.Sprintf("conc|upd%d|gap%d|adv%d|settle%v|m%d", bucket(cs.Updates), cs.MaxGap/3, cs.OpsPerAdv/8, cs.SettleEach, bucket(mattered)))
	}
}

// ---------------------------------------------------------------------------------------------

func main() {
	args := sim.ParseArgs()
	sim.Quiet()
	v := sim.NewVerdict("C11", args.Seed, args.Tier, args.Batch, args.Out)
	v.Rule = "case = history of lookups of <=6 transaction ids, policy updates (UpdatePoliciesData / ReloadFromFile / RevertToLastLoaded / RevertToDiagnosisFree) and virtual clock advances against the real TxnPoliciesAccessor with both vacuum loops ticking; non-trivial iff at least one judged lookup of an already pinned transaction happened while its pinned version was no longer the current one; distinct by <kind, #txns, #updates/#reloads/#reverts bucket, #such lookups bucket, late lookups?, max pin age in ticks>"
	v.Assumptions = []string{
		"a pinned lookup is judged iff at most 25 s (retention 30 s minus one 5 s vacuum tick) of virtual time passed since the pin; between 25 s and 35 s nothing is demanded; later lookups may return the pinned or the current version",
		"a transaction's first lookup must return the newest version whose installing call had returned (concurrent rounds: any version between 'completed before' and 'started after' the lookup)",
		"version identity = pointer identity of *PoliciesData, cross-checked by the v<k> tag in the first global remedy; versions are disabled remedies so no HAProxy call is made",
		"the vacuum loops take time only from the context-manager clock (sim.VClock); a loop iteration is finished when it re-arms Sleep(5 s)",
	}
	root := sim.ScratchRoot("c11")
	defer os.RemoveAll(root)

	if args.Replay != "" {
		runReplay(args, v, root)
		os.Exit(v.Write())
	}

	exhLen := args.Pick(5, 7)
	var exh [][]op
	for n := 2; n <= exhLen; n++ {
		exh = append(exh, enumerate(n)...)
	}
	nExh := len(exh)
	nSamp := args.Pick(3000, 24000)
	nRand := args.Pick(3000, 24000)
	nConc := args.Pick(96, 512)
	if raceEnabled { // the race detector allows 8128 live goroutines; every case leaves 2 parked vacuum loops
		nSamp, nRand, nConc = nSamp/4, nRand/4, nConc/2
		if args.Thorough() {
			exh = exh[:0]
			exhLen = 5
			for n := 2; n <= exhLen; n++ {
				exh = append(exh, enumerate(n)...)
			}
			nExh = len(exh)
		}
	}
	total := nExh + nSamp + nRand + nConc
	lo, hi := args.Share(total)
	v.Extra["space"] = map[string]int{"exhaustive_histories": nExh, "exhaustive_max_len": exhLen, "sampled_len5to8": nSamp, "random_len12to60": nRand, "concurrent_rounds": nConc}
	stride := 7919
	for total%stride == 0 {
		stride += 2
	}
	for j := lo; j < hi; j++ {
		i := int((int64(j) * int64(stride)) % int64(total)) // bijection: spreads the kinds over the batches
		r := args.CaseRand(i)
		var spec caseSpec
		switch {
		case i < nExh:
			spec = caseSpec{Kind: "exh", Ops: append(prelude(2000, 1000), exh[i]...)}
		case i < nExh+nSamp:
			spec = caseSpec{Kind: "samp", Ops: genSample(r)}
		case i < nExh+nSamp+nRand:
			spec = caseSpec{Kind: "rand", Ops: genRandom(r)}
		default:
			spec = caseSpec{Kind: "conc", Conc: genConc(r, args.Thorough())}
		}
		runCase(v, replay{Seed: args.Seed, Case: i, Spec: spec}, root)
		if v.Counters["quiesce_timeouts"] >= 3 {
			v.Inconclude("three quiescence waits timed out; batch abandoned")
			break
		}
	}
	summariseRaceLogs(v, args.Out)
	v.Exhaustive = false // the enumerated sub-space is complete per run (all batches together), the rest is sampled
	if v.Counters["judged_pin_differs_from_current"] == 0 {
		v.Inconclude("no judged lookup of a pinned transaction whose version had been superseded in this batch")
	}
	os.Exit(v.Write())
}

func runCase(v *sim.Verdict, rp replay, root string) {
	if rp.Spec.Kind == "conc" {
		fmt.Printf("case %d conc %+v\n", rp.Case, *rp.Spec.Conc)
		runConc(v, rp)
		return
	}
	runSeq(v, rp, root)
}

func runReplay(args sim.Args, v *sim.Verdict, root string) {
	data, err := os.ReadFile(args.Replay)
	if err != nil {
		v.Inconclude("cannot read replay file: " + err.Error())
		return
	}
	var wrap struct {
		Replay *replay `json:"replay"`
	}
	var rp replay
	if err := json.Unmarshal(data, &wrap); err == nil && wrap.Replay != nil && wrap.Replay.Spec.Kind != "" {
		rp = *wrap.Replay
	} else if err := json.Unmarshal(data, &rp); err != nil || rp.Spec.Kind == "" {
		v.Inconclude("cannot parse replay file")
		return
	}
	rp.Log = nil
	runCase(v, rp, root)
	v.Counters["replayed"] = 1
	delete(v.Counters, "dummy")
	if v.Counters["judged_pin_differs_from_current"] == 0 && v.NumViolations() == 0 {
		v.Inconclude("replayed case contains no judged lookup of a superseded pin")
	}
}

// summariseRaceLogs reads the race detector's report files of this child (if any) and records the
// pairs of outermost non-runtime functions involved. Evidence only: never a verdict of C11.
func summariseRaceLogs(v *sim.Verdict, outDir string) {
	files, _ := filepath.Glob(filepath.Join(outDir, "race.*"))
	pairs := map[string]int{}
	total := 0
	for _, f := range files {
		data, err := os.ReadFile(f)
		if err != nil {
			continue
		}
		for _, rep := range strings.Split(string(data), "==================") {
			if !strings.Contains(rep, "WARNING: DATA RACE") {
				continue
			}
			total++
			var tops []string
			lines := strings.Split(rep, "\n")
			for i, l := range lines {
				t := strings.TrimSpace(l)
				if (strings.HasPrefix(t, "Read at") || strings.HasPrefix(t, "Write at") || strings.HasPrefix(t, "Previous read at") || strings.HasPrefix(t, "Previous write at")) && i+2 < len(lines) {
					fn := strings.TrimSpace(lines[i+1])
					loc := strings.TrimSpace(lines[i+2])
					if k := strings.LastIndex(loc, "/"); k >= 0 {
						loc = loc[k+1:]
					}
					if k := strings.Index(loc, " "); k >= 0 {
						loc = loc[:k]
					}
					tops = append(tops, fn+"@"+loc)
				}
			}
			sort.Strings(tops)
			pairs[strings.Join(tops, " | ")]++
		}
	}
	if total > 0 {
		v.Count("race_reports", total)
		v.Extra["race_pairs"] = pairs
	}
}
