//go:build race

package main

import (
	"os"
	"strings"
	"syscall"
)

const raceEnabled = true

// The race detector turns the exit status into 66 as soon as one report was written, which would hide
// this monitor's own three-valued verdict (DESIGN §3 rule 6: in C11 the -race build is scheduling
// noise, race reports are attributed elsewhere). The child therefore re-executes itself once with
// exitcode=0; the reports themselves are still written to log_path and are summarised in the
// evidence (counter race_reports, extra.race_pairs) - nothing is hidden.
func init() {
	g := os.Getenv("GORACE")
	if strings.Contains(g, "exitcode=") {
		return
	}
	os.Setenv("GORACE", strings.TrimSpace(g+" exitcode=0"))
	exe, err := os.Executable()
	if err != nil {
		return
	}
	_ = syscall.Exec(exe, os.Args, os.Environ())
}
