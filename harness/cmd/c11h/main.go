// C11 (updates that fail at the proxy) - histories of the real TxnPoliciesAccessor in which some policy
// updates are rejected because HAProxy's management API is down.
//
// The main C11 program uses versions without managed endpoints, so an update never talks to HAProxy and
// never fails. Here every version manages an endpoint; a fake management API can be switched to answer 503.
// Oracle: an update that returns an error changes nothing - the version that was current stays current for
// every new transaction, also after the retention period and any number of vacuum ticks; a transaction seen
// again within 25 s gets the version it was pinned to; an update that returns nil installs its version.
package main

import (
	"fmt"
	"os"
	"time"

	"lunar/engine/config"
	sharedConfig "lunar/shared-model/config"

	"verif/harness/sim"
)

const tick = 5 * time.Second

var t0 = time.Date(2030, 1, 1, 0, 0, 0, 0, time.UTC)

type op struct {
	K string `json:"k"` // t | upd | updF | adv
	T int    `json:"t,omitempty"`
	D int64  `json:"d_ms,omitempty"`
}

type replay struct {
	Case int      `json:"case"`
	Seed uint64   `json:"seed"`
	Ops  []op     `json:"ops"`
	Log  []string `json:"log,omitempty"`
}

func tagged(tag string) *config.PoliciesData {
	c := &sharedConfig.PoliciesConfig{
		Global: sharedConfig.Global{Remedies: []sharedConfig.Remedy{{Name: tag, Enabled: false,
			Config: sharedConfig.RemedyConfig{FixedResponse: &sharedConfig.FixedResponseConfig{StatusCode: 418}}}}},
		Endpoints: []sharedConfig.EndpointConfig{{URL: "managed-" + tag + ".com/x", Method: "GET",
			Remedies: []sharedConfig.Remedy{{Name: "r-" + tag, Enabled: true,
				Config: sharedConfig.RemedyConfig{FixedResponse: &sharedConfig.FixedResponseConfig{StatusCode: 418}}}}}},
	}
	d, err := config.BuildPolicyData(c, false)
	if err != nil {
		panic(err)
	}
	return d
}

func tagOf(d *config.PoliciesData) string {
	if d == nil || len(d.Config.Global.Remedies) == 0 {
		return "<no policies>"
	}
	return d.Config.Global.Remedies[0].Name
}

func main() {
	sim.ReexecWithEngineEnv(false)
	args := sim.ParseArgs()
	sim.Quiet()
	v := sim.NewVerdict("C11", args.Seed, args.Tier, args.Batch, args.Out)
	v.Rule = "case = history of lookups of <=5 transaction ids, policy updates that succeed, policy updates rejected because the HAProxy management API answers 503, and virtual clock advances of up to 70 s (vacuum loops ticking) against the real TxnPoliciesAccessor; every version manages an endpoint; non-trivial iff a lookup happened more than 30 s after a rejected update; distinct by <#rejected updates, #successful, late lookups?>"
	v.Assumptions = []string{"an update is rejected iff UpdatePoliciesData returns an error; whether it does so for a 503 is the implementation's choice and both outcomes are judged by what they promise"}
	ha := sim.StartFakeHAProxy()
	total := args.Pick(400, 8000)
	lo, hi := args.Share(total)
	for i := lo; i < hi; i++ {
		r := args.CaseRand(900_000 + i)
		var ops []op
		n := r.Range(6, 18)
		for k := 0; k < n; k++ {
			switch x := r.Intn(10); {
			case x < 4:
				ops = append(ops, op{K: "t", T: r.Intn(5)})
			case x < 5:
				ops = append(ops, op{K: "upd"})
			case x < 7:
				ops = append(ops, op{K: "updF"})
			default:
				ops = append(ops, op{K: "adv", D: sim.Pick(r, []int64{1000, 4000, 5000, 11000, 26000, 31000, 36000, 70000})})
			}
		}
		ops = append(ops, op{K: "updF"}, op{K: "adv", D: 36000}, op{K: "t", T: 5}, op{K: "upd"}, op{K: "adv", D: 2000}, op{K: "t", T: 5})
		runCase(v, ha, replay{Case: i, Seed: args.Seed, Ops: ops})
	}
	if v.Counters["lookups_later_than_retention_after_a_rejected_update"] == 0 {
		v.Inconclude("no lookup later than the retention period after a rejected update in this batch")
	}
	os.Exit(v.Write())
}

func runCase(v *sim.Verdict, ha *sim.FakeHAProxy, rp replay) {
	v.Eval(1)
	clk := sim.NewVClock(t0)
	sim.UseClock(clk)
	ha.FailWith(0)
	cur := tagged("v1")
	acc := config.NewTxnPoliciesAccessor(cur)
	nextTag := 1
	type pin struct {
		d  *config.PoliciesData
		at time.Time
	}
	pins := map[int]pin{}
	tainted := map[int]bool{}
	var rejectedAt []time.Time
	rejected, installed, late := 0, 0, false
	logf := func(f string, a ...any) {
		rp.Log = append(rp.Log, fmt.Sprintf("%7.1fs ", clk.Now().Sub(t0).Seconds())+fmt.Sprintf(f, a...))
	}
	// the two vacuum loops start lazily (first pin / first installed version) and asynchronously: an operation is
	// over only when every started loop is parked in Sleep(5 s)
	started := 0
	txnLoop, polLoop := false, false
	quiesce := func() bool {
		if clk.WaitPending(func(p sim.Waiter) bool { return p.D == tick }, started, 8*time.Second) {
			return true
		}
		v.Inconclude(fmt.Sprintf("case %d: a vacuum loop did not park", rp.Case))
		return false
	}
	advance := func(d time.Duration) bool {
		target := clk.Now().Add(d)
		for {
			pend := clk.Pending()
			if len(pend) == 0 || pend[0].Deadline.After(target) {
				break
			}
			p := pend[0]
			before := clk.Armed(tick)
			clk.Fire(p.ID)
			if p.D == tick && !clk.WaitArmed(tick, before+1, 8*time.Second) {
				v.Inconclude(fmt.Sprintf("case %d: a vacuum loop did not re-arm", rp.Case))
				return false
			}
		}
		clk.Set(target)
		return true
	}
	sim.Guard(v, "C11/panic/rejected-updates", rp, func() {
		for _, o := range rp.Ops {
			switch o.K {
			case "adv":
				if !advance(time.Duration(o.D) * time.Millisecond) {
					return
				}
				logf("advanced %d ms", o.D)
			case "upd", "updF":
				nextTag++
				d := tagged(fmt.Sprintf("v%d", nextTag))
				if o.K == "updF" {
					ha.FailWith(503)
				}
				err := acc.UpdatePoliciesData(d, false)
				ha.FailWith(0)
				if err != nil {
					rejected++
					rejectedAt = append(rejectedAt, clk.Now())
					logf("update v%d rejected: %.60v", nextTag, err)
					if got := acc.GetCurrentPoliciesData(); got != cur {
						v.Violate("C11/rejected-update/current-version-changed", fmt.Sprintf("UpdatePoliciesData(v%d) returned an error, yet the current policies are now %q (were %q)", nextTag, tagOf(got), tagOf(cur)), rp)
						return
					}
				} else {
					installed++
					cur = d
					if !polLoop {
						polLoop = true
						started++
					}
					logf("update v%d installed", nextTag)
					if got := acc.GetCurrentPoliciesData(); got != cur {
						v.Violate("C11/update/current-is-not-the-installed-data", fmt.Sprintf("after a successful update the current policies are %q, not %q", tagOf(got), tagOf(cur)), rp)
						return
					}
				}
			case "t":
				id := config.TxnID(fmt.Sprintf("c%d-t%d", rp.Case, o.T))
				got := acc.GetTxnPoliciesData(id)
				if !txnLoop {
					txnLoop = true
					started++
				}
				p, seen := pins[o.T]
				age := clk.Now().Sub(p.at)
				for _, ra := range rejectedAt {
					if clk.Now().Sub(ra) > 30*time.Second {
						late = true
					}
				}
				if tainted[o.T] {
					logf("t%d -> %s (not judged any more)", o.T, tagOf(got))
					break
				}
				switch {
				case seen && age > 25*time.Second && age < 35*time.Second:
					// the old pin may or may not have been collected yet: from here on both the old and a new pin
					// explain what this transaction gets; it is not judged any more
					tainted[o.T] = true
				case !seen || age >= 35*time.Second:
					if got != cur {
						sig := "C11/first-lookup/not-the-current-version"
						if rejected > 0 && tagOf(got) == "<no policies>" {
							sig = "C11/rejected-update/current-version-lost-later"
						}
						v.Violate(sig, fmt.Sprintf("transaction t%d (first lookup, or its pin at least 35 s old) got %q; current is %q; %d update(s) were rejected before", o.T, tagOf(got), tagOf(cur), rejected), rp)
						return
					}
					pins[o.T] = pin{got, clk.Now()}
				case age <= 25*time.Second:
					if got != p.d {
						v.Violate("C11/pin/switched-within-retention/after-rejected-update", fmt.Sprintf("transaction t%d was pinned to %q %v ago and now got %q (current %q, %d rejected updates so far)", o.T, tagOf(p.d), age, tagOf(got), tagOf(cur), rejected), rp)
						return
					}
				}
				logf("t%d -> %s", o.T, tagOf(got))
			}
			if !quiesce() {
				return
			}
		}
	})
	v.Count("rejected_updates", rejected)
	v.Count("installed_updates", installed)
	if late {
		v.Count("lookups_later_than_retention_after_a_rejected_update", 1)
		v.Distinct(fmt.Sprintf("rej%d/inst%d", min(rejected, 4), min(installed, 4)))
	}
	if rp.Case%97 == 0 {
		v.Sample(rp)
	}
}
