// C12 - stored responses are replayed only for the same key and only while fresh; cache size bound;
// retry-after decremented.
//
// The real remedies.CachingPlugin, remedies.ResponseBasedThrottlingPlugin and utils.MemoryCache run
// on a sim.VClock. The harness decides when time moves and when (and in which order) each cleanup
// sleeper started by MemoryCache.Set fires, including leaving the sleeper of an expired entry
// pending while the key is stored again. Every stored response has a unique body id, so a replay
// names the store it came from. The oracle is a reference model written from the statement:
// replay => same <method, URL, selected path-parameter values>, lookup instant <= store instant +
// ttl (retry-after), never an older store after a newer one was seen, replayed content unchanged
// except a relative retry-after which is original - elapsed; sum of the body bytes still served at a
// quiescent sweep <= configured size. Misses are never violations.
package main

import (
	"encoding/json"
	"fmt"
	"math"
	"os"
	"runtime"
	"sort"
	"strconv"
	"strings"
	"sync"
	"sync/atomic"
	"time"

	"lunar/engine/actions"
	messages "lunar/engine/messages"
	"lunar/engine/services/remedies"
	"lunar/engine/utils"
	sharedConfig "lunar/shared-model/config"

	"verif/harness/sim"
)

var t0 = time.Date(2026, 3, 1, 12, 0, 0, 0, time.UTC)

const ttlUnitNs = 1953125 // 1/512 s: exact in float32 and a whole number of nanoseconds

type keySpec struct {
	Method string            `json:"method"`
	URL    string            `json:"url"`
	Params map[string]string `json:"params,omitempty"`
}

type op struct {
	K      string `json:"k"` // store lookup has del at fire sweep conc
	Key    int    `json:"key,omitempty"`
	AtNs   int64  `json:"at_ns,omitempty"`
	Prompt bool   `json:"prompt,omitempty"`
	ID     string `json:"id,omitempty"`
	Pad    int    `json:"pad,omitempty"`
	TTLk   int64  `json:"ttl_k,omitempty"`
	RA     string `json:"ra,omitempty"`      // retry-after header value, "-" = header absent
	RAName string `json:"ra_name,omitempty"` // spelling of the header name in the response ("" = as configured)
	// setmax: the remedy's max_cache_size_megabytes from here on (a reload of the policies; the plugin and what it
	// holds stay)
	MaxMB    float32 `json:"max_mb,omitempty"`
	Status   int     `json:"status,omitempty"`
	Sel      int     `json:"sel,omitempty"`
	DueOnly  bool    `json:"due_only,omitempty"`
	N        int     `json:"n,omitempty"`
	Lockstep bool    `json:"lockstep,omitempty"`
	Res      string  `json:"res,omitempty"` // observed
	TNs      int64   `json:"t_ns,omitempty"`
}

type caseSpec struct {
	Kind     string    `json:"kind"` // cache throttle raw size conc
	Policy   string    `json:"policy"`
	FracNs   int64     `json:"frac_ns"`
	Keys     []keySpec `json:"keys,omitempty"`
	Diffs    []string  `json:"diffs,omitempty"`
	Selected []string  `json:"selected,omitempty"`
	RAType   string    `json:"ra_type,omitempty"`
	// NoRAHeader: the remedy's optional retry_after_header is omitted (responses still carry "Retry-After")
	NoRAHeader bool    `json:"retry_after_header_omitted,omitempty"`
	MaxMB      float32 `json:"max_mb,omitempty"`
	MaxRaw     int     `json:"max_raw,omitempty"`
	Target     string  `json:"target,omitempty"`
	Writers    int     `json:"writers,omitempty"`
	Readers    int     `json:"readers,omitempty"`
	Ops        []op    `json:"ops"`
}

type replay struct {
	Seed uint64   `json:"seed"`
	Case int      `json:"case"`
	Spec caseSpec `json:"spec"`
	Note string   `json:"note,omitempty"`
}

const raHeader = "Retry-After"

var relevantStatuses = []int{429, 503}

// ---------------------------------------------------------------- oracle key (from the statement)

func oracleKey(cs *caseSpec, k keySpec) string {
	var sb strings.Builder
	fmt.Fprintf(&sb, "%q %q", k.Method, k.URL)
	if cs.Kind == "throttle" || cs.Target == "throttle" {
		return sb.String()
	}
	seen := map[string]bool{}
	names := append([]string{}, cs.Selected...)
	sort.Strings(names)
	for _, n := range names {
		if seen[n] {
			continue
		}
		seen[n] = true
		if val, ok := k.Params[n]; ok && val != "" {
			fmt.Fprintf(&sb, " %q=%q", n, val)
		}
	}
	return sb.String()
}

func keyDiff(cs *caseSpec, a, b keySpec) string {
	if a.Method != b.Method {
		return "method"
	}
	if a.URL != b.URL {
		return "url"
	}
	for _, n := range cs.Selected {
		if a.Params[n] != b.Params[n] {
			if strings.ContainsAny(a.Params[n]+b.Params[n], ".:") {
				return "selected-param-separator-collision"
			}
			return "selected-param"
		}
	}
	return "none"
}

// parseDecNs parses [-]digits[.digits<=9] exactly into nanoseconds.
func parseDecNs(s string) (int64, bool) {
	neg := false
	if strings.HasPrefix(s, "-") {
		neg = true
		s = s[1:]
	}
	ip, fp, _ := strings.Cut(s, ".")
	if ip == "" || len(fp) > 9 {
		return 0, false
	}
	for _, c := range ip + fp {
		if c < '0' || c > '9' {
			return 0, false
		}
	}
	if len(ip) > 9+1 {
		return 0, false
	}
	sec, _ := strconv.ParseInt(ip, 10, 64)
	for len(fp) < 9 {
		fp += "0"
	}
	fr, _ := strconv.ParseInt(fp, 10, 64)
	n := sec*1e9 + fr
	if neg {
		n = -n
	}
	return n, true
}

func fmtNs(n int64) string {
	sign := ""
	if n < 0 {
		sign = "-"
		n = -n
	}
	s := fmt.Sprintf("%s%d", sign, n/1e9)
	if fr := n % 1e9; fr != 0 {
		s += "." + strings.TrimRight(fmt.Sprintf("%09d", fr), "0")
	}
	return s
}

// ---------------------------------------------------------------- lockstep clock
//
// The code under test reads the clock between its decisions (e.g. MemoryCache.Set reads it after the
// size check and before taking the lock). stepClock turns every clock read of a concurrent round into
// a barrier: a goroutine reading the clock is parked until all other goroutines of the round are
// parked at a clock read too (or have finished). This forces, without any hook in /repo, the schedule
// in which all writers are preempted at the same point. The wall-clock timeout only releases a
// barrier that cannot fill (a reader holding a lock others wait for); it never decides a verdict.
type stepClock struct {
	*sim.VClock
	st atomic.Pointer[stepper]
}

type stepper struct {
	mu       sync.Mutex
	n        int
	waiting  int
	done     int
	ch       chan struct{}
	timeouts int
	barriers int
}

func (c *stepClock) Now() time.Time {
	if st := c.st.Load(); st != nil {
		st.arrive()
	}
	return c.VClock.Now()
}

func (c *stepClock) Since(t time.Time) time.Duration { return c.Now().Sub(t) }
func (c *stepClock) Until(t time.Time) time.Duration { return t.Sub(c.Now()) }

func (s *stepper) releaseLocked() {
	s.waiting = 0
	s.barriers++
	close(s.ch)
	s.ch = make(chan struct{})
}

func (s *stepper) arrive() {
	s.mu.Lock()
	s.waiting++
	if s.waiting+s.done >= s.n {
		s.releaseLocked()
		s.mu.Unlock()
		return
	}
	ch := s.ch
	s.mu.Unlock()
	select {
	case <-ch:
	case <-time.After(25 * time.Millisecond):
		s.mu.Lock()
		if s.ch == ch {
			s.timeouts++
			s.releaseLocked()
		}
		s.mu.Unlock()
	}
}

func (s *stepper) finish() {
	s.mu.Lock()
	s.done++
	if s.waiting > 0 && s.waiting+s.done >= s.n {
		s.releaseLocked()
	}
	s.mu.Unlock()
}

// ---------------------------------------------------------------- targets

type hit struct {
	Status  int
	Body    string
	Headers map[string]string
}

type target interface {
	store(k keySpec, o *op) int // 1 accepted, 0 refused, -1 unknown
	lookup(k keySpec) (*hit, error)
}

func mkBody(id string, pad int) string { return id + "|" + strings.Repeat("x", pad) }

func bodyID(b string) string { id, _, _ := strings.Cut(b, "|"); return id }

type cacheT struct {
	p   *remedies.CachingPlugin
	cfg *sharedConfig.CachingConfig
}

func newCacheT(clk *stepClock, cs *caseSpec) *cacheT {
	cfg := &sharedConfig.CachingConfig{MaxRecordSizeBytes: 1 << 30, MaxCacheSizeMegabytes: cs.MaxMB}
	if cfg.MaxCacheSizeMegabytes == 0 {
		cfg.MaxCacheSizeMegabytes = 64
	}
	for _, n := range cs.Selected {
		cfg.RequestPayloadPaths = append(cfg.RequestPayloadPaths,
			sharedConfig.PayloadPath{PayloadType: sharedConfig.PayloadRequestPathParams.String(), Path: n})
	}
	return &cacheT{p: remedies.NewCachingPlugin(clk), cfg: cfg}
}

func cacheHeaders(id string) map[string]string {
	return map[string]string{"x-id": id, "content-type": "text/plain"}
}

func (c *cacheT) store(k keySpec, o *op) int {
	cfg := *c.cfg
	cfg.TTLSeconds = float32(o.TTLk) / 512
	_, err := c.p.OnResponse(messages.OnResponse{ID: o.ID, Method: k.Method, URL: k.URL, Status: 200,
		Headers: cacheHeaders(o.ID), Body: mkBody(o.ID, o.Pad)}, &cfg, k.Params)
	if err != nil {
		panic(fmt.Sprintf("CachingPlugin.OnResponse error: %v", err))
	}
	return -1
}

func asHit(a actions.ReqLunarAction) (*hit, error) {
	switch x := a.(type) {
	case *actions.NoOpAction:
		return nil, nil
	case *actions.EarlyResponseAction:
		return &hit{Status: x.Status, Body: x.Body, Headers: x.Headers}, nil
	default:
		return nil, fmt.Errorf("unexpected action %T", a)
	}
}

func (c *cacheT) lookup(k keySpec) (*hit, error) {
	a, err := c.p.OnRequest(messages.OnRequest{ID: "rq", Method: k.Method, URL: k.URL}, c.cfg, k.Params)
	if err != nil {
		return nil, err
	}
	return asHit(a)
}

type throttleT struct {
	p   *remedies.ResponseBasedThrottlingPlugin
	cfg *sharedConfig.ResponseBasedThrottlingConfig
}

func newThrottleT(clk *stepClock, cs *caseSpec) *throttleT {
	ty := sharedConfig.RetryAfterRelativeSeconds
	if cs.RAType == "absolute" {
		ty = sharedConfig.RetryAfterAbsoluteEpoch
	}
	name := raHeader
	if cs.NoRAHeader {
		name = ""
	}
	return &throttleT{p: remedies.NewResponseBasedThrottlingPlugin(clk),
		cfg: &sharedConfig.ResponseBasedThrottlingConfig{RetryAfterHeader: name, RetryAfterType: ty,
			RelevantStatuses: relevantStatuses}}
}

func throttleHeaders(o *op) map[string]string {
	h := map[string]string{"x-id": o.ID, "x-ratelimit-scope": "user"}
	if o.RA != "-" {
		name := raHeader
		if o.RAName != "" {
			name = o.RAName
		}
		h[name] = o.RA
	}
	return h
}

// raOf: header names are case-insensitive; the response may spell the retry-after header differently from the
// configuration. Whether such a response is stored at all is the engine's business; if it is replayed, the
// same clauses apply to it.
func raOf(h map[string]string) (string, bool) {
	for k, v := range h {
		if strings.EqualFold(k, raHeader) {
			return v, true
		}
	}
	return "", false
}

func (c *throttleT) store(k keySpec, o *op) int {
	_, err := c.p.OnResponse(messages.OnResponse{ID: o.ID, Method: k.Method, URL: k.URL, Status: o.Status,
		Headers: throttleHeaders(o), Body: mkBody(o.ID, o.Pad)}, c.cfg)
	if err != nil {
		panic(fmt.Sprintf("ResponseBasedThrottlingPlugin.OnResponse error: %v", err))
	}
	return -1
}

func (c *throttleT) lookup(k keySpec) (*hit, error) {
	a, err := c.p.OnRequest(messages.OnRequest{ID: "rq", Method: k.Method, URL: k.URL}, c.cfg)
	if err != nil {
		return nil, err
	}
	return asHit(a)
}

type rawT struct {
	c  *utils.MemoryCache[string, string]
	cs *caseSpec
}

func newRawT(clk *stepClock, cs *caseSpec) *rawT {
	c := utils.NewMemoryCache[string, string](clk)
	if cs.MaxRaw > 0 {
		c.WithMaxCacheSize(func(_ string, v string) float64 { return float64(len(v)) }, float64(cs.MaxRaw))
	}
	return &rawT{c: c, cs: cs}
}

func (c *rawT) store(k keySpec, o *op) int {
	if err := c.c.Set(k.URL, mkBody(o.ID, o.Pad), float64(o.TTLk)/512); err != nil {
		return 0
	}
	return 1
}

func (c *rawT) lookup(k keySpec) (*hit, error) {
	v, ok := c.c.Get(k.URL)
	if !ok {
		return nil, nil
	}
	return &hit{Body: v}, nil
}

// ---------------------------------------------------------------- reference model

type rec struct {
	Idx      int
	Key      int
	OKey     string
	S        int64 // store instant, unix ns
	Exp      int64 // last instant at which a replay is allowed (inclusive), unix ns
	Judge    bool  // freshness judgeable
	ID       string
	Body     string
	Status   int
	Headers  map[string]string
	RaNs     int64
	Accepted int
	CallTick int64
}

type viol struct{ sig, detail string }

type hist struct {
	cs       *caseSpec
	mu       sync.Mutex
	recs     map[string]*rec
	lastSeen map[string]int  // okey -> highest store index seen replayed (sequential phases)
	latest   map[string]*rec // raw: okey -> latest accepted, nil after del
	n        int
	hits     int
	misses   int
	expMiss  int
	restores int
}

func newHist(cs *caseSpec) *hist {
	return &hist{cs: cs, recs: map[string]*rec{}, lastSeen: map[string]int{}, latest: map[string]*rec{}}
}

// tname names the code under test in signatures (the frozen-clock rounds run against a plugin).
func (h *hist) tname() string {
	if h.cs.Target != "" {
		return h.cs.Target
	}
	return h.cs.Kind
}

func (h *hist) isThrottle() bool { return h.cs.Kind == "throttle" || h.cs.Target == "throttle" }

// addStore registers an offered store BEFORE the real call (a concurrent reader may see it at once).
func (h *hist) addStore(keyIdx int, k keySpec, o *op, sNs int64, tick int64) *rec {
	r := &rec{Key: keyIdx, OKey: oracleKey(h.cs, k), S: sNs, ID: o.ID, Body: mkBody(o.ID, o.Pad), Accepted: -1, CallTick: tick}
	if h.isThrottle() {
		r.Status = o.Status
		r.Headers = throttleHeaders(o)
		ns, ok := parseDecNs(o.RA)
		switch {
		case o.RA == "-":
			r.Judge, r.Exp = true, sNs // nothing says how long it may be served
		case !ok:
			r.Judge = false
		case h.cs.RAType == "absolute":
			r.Judge, r.Exp, r.RaNs = true, ns, ns
		default:
			r.Judge, r.Exp, r.RaNs = true, sNs+ns, ns
		}
	} else {
		r.Status = 200
		r.Headers = cacheHeaders(o.ID)
		r.Judge, r.Exp = true, sNs+o.TTLk*ttlUnitNs
	}
	h.mu.Lock()
	h.n++
	r.Idx = h.n
	for _, old := range h.recs {
		if old.OKey == r.OKey && old.Judge && old.Exp < sNs && old.Idx > h.n-64 {
			h.restores++
			break
		}
	}
	h.recs[o.ID] = r
	h.mu.Unlock()
	return r
}

// judge decides one replay observed at instant tNs for the script key k. sequential = exactness
// clauses (supersession) apply.
func (h *hist) judge(k keySpec, tNs int64, ht *hit, sequential bool, retTick int64) []viol {
	var out []viol
	ok := oracleKey(h.cs, k)
	id := bodyID(ht.Body)
	h.mu.Lock()
	r := h.recs[id]
	h.mu.Unlock()
	if r == nil {
		return []viol{{"C12/replay-unknown-body", fmt.Sprintf("replayed body id %q was never stored", id)}}
	}
	if r.OKey != ok {
		d := keyDiff(h.cs, keyOf(h.cs, r.Key), k)
		out = append(out, viol{"C12/replay-wrong-key/" + h.tname() + "-" + d,
			fmt.Sprintf("lookup for key %s was answered with body %q stored under key %s", ok, id, r.OKey)})
	}
	if retTick != 0 && r.CallTick > retTick {
		out = append(out, viol{"C12/replay-before-store", fmt.Sprintf("body %q replayed before its store was called", id)})
	}
	// Absolute-epoch retry-after values are float64 seconds since 1970: at today's magnitude their
	// resolution is 2.4e-7 s, so the instant is only defined to within a microsecond.
	slackNs := int64(0)
	if h.isThrottle() && h.cs.RAType == "absolute" {
		slackNs = 1000
	}
	if r.Judge && tNs > r.Exp+slackNs {
		kind := "cache-ttl"
		if h.isThrottle() {
			kind = "throttle-" + h.cs.RAType
			if x, _ := raOf(r.Headers); x == "" {
				kind = "throttle-no-retry-after"
			} else if h.cs.RAType != "absolute" && r.RaNs < 0 {
				kind += "-already-passed"
			}
		} else if h.cs.Kind == "raw" {
			kind = "raw-ttl"
		}
		over := "beyond-1s"
		if tNs-r.Exp <= 1e9 {
			over = "within-1s"
		}
		out = append(out, viol{"C12/replay-stale/" + kind + "/" + over,
			fmt.Sprintf("body %q stored at %d ns (allowed until %d ns) replayed at %d ns, %d ns after the allowed instant",
				id, r.S, r.Exp, tNs, tNs-r.Exp)})
	}
	if sequential {
		h.mu.Lock()
		if h.cs.Kind == "raw" {
			if l := h.latest[ok]; l != r {
				lid := "<none: deleted or never accepted>"
				if l != nil {
					lid = l.ID
				}
				out = append(out, viol{"C12/replay-not-latest/raw", fmt.Sprintf("Get returned %q, the latest accepted Set for the key is %s", id, lid)})
			}
		} else if r.OKey == ok {
			if h.lastSeen[ok] > r.Idx {
				out = append(out, viol{"C12/replay-superseded/" + h.tname(),
					fmt.Sprintf("store #%d (%q) replayed after the later store #%d of the same key had already been replayed", r.Idx, id, h.lastSeen[ok])})
			} else {
				h.lastSeen[ok] = r.Idx
			}
		}
		h.mu.Unlock()
	}
	if ht.Body != r.Body {
		out = append(out, viol{"C12/replay-altered/body", fmt.Sprintf("body of %q altered (len %d, stored %d)", id, len(ht.Body), len(r.Body))})
	}
	if h.cs.Kind == "raw" {
		return out
	}
	if ht.Status != r.Status {
		out = append(out, viol{"C12/replay-altered/status", fmt.Sprintf("stored status %d replayed as %d", r.Status, ht.Status)})
	}
	for hk, hv := range r.Headers {
		got, present := ht.Headers[hk]
		if strings.EqualFold(hk, raHeader) && h.isThrottle() {
			if !present {
				out = append(out, viol{"C12/retry-after/missing", "replayed throttling response lost its retry-after header"})
				continue
			}
			if h.cs.RAType == "absolute" {
				if got != hv {
					out = append(out, viol{"C12/retry-after/absolute-altered", fmt.Sprintf("absolute retry-after %q replayed as %q", hv, got)})
				}
				continue
			}
			if !r.Judge {
				continue
			}
			want := float64(r.RaNs-(tNs-r.S)) / 1e9
			f, err := strconv.ParseFloat(got, 64)
			if err != nil || math.IsNaN(f) || math.Abs(f-want) > 1e-6 {
				kind := "wrong-value"
				if got == hv && tNs != r.S {
					kind = "not-decremented"
				}
				out = append(out, viol{"C12/retry-after/" + kind,
					fmt.Sprintf("relative retry-after %q stored at %d ns replayed at %d ns (elapsed %d ns) as %q, expected %.9f", hv, r.S, tNs, tNs-r.S, got, want)})
			}
			continue
		}
		if !present || got != hv {
			out = append(out, viol{"C12/replay-altered/header", fmt.Sprintf("header %q stored %q replayed %q (present=%v)", hk, hv, got, present)})
		}
	}
	for hk := range ht.Headers {
		if _, okk := r.Headers[hk]; !okk {
			out = append(out, viol{"C12/replay-altered/header-added", fmt.Sprintf("replay carries header %q that was not stored", hk)})
		}
	}
	return out
}

// noteMiss counts misses; expMiss = a miss at an instant after some store of the key had expired.
func (h *hist) noteMiss(k keySpec, tNs int64) {
	ok := oracleKey(h.cs, k)
	h.mu.Lock()
	h.misses++
	for _, r := range h.recs {
		if r.OKey == ok && r.Judge && tNs > r.Exp && r.Exp >= r.S {
			h.expMiss++
			break
		}
	}
	h.mu.Unlock()
}

// ---------------------------------------------------------------- runner

type runner struct {
	v      *sim.Verdict
	args   sim.Args
	baseG  int
	dead   bool // settle watchdog fired: goroutine accounting is lost, stop the batch
	seenIL map[string]bool
}

// settle waits until every goroutine started by the code under test is either parked on the virtual
// clock or has exited: #goroutines == base + #registered sleepers. No sleeping, no deadline in a verdict.
func (rn *runner) settle(clk *stepClock) bool {
	start := time.Now()
	for i := 0; ; i++ {
		if runtime.NumGoroutine() == rn.baseG+len(clk.Pending()) {
			return true
		}
		runtime.Gosched()
		if i%1024 == 1023 && time.Since(start) > 30*time.Second {
			rn.dead = true
			return false
		}
	}
}

func (rn *runner) violate(cs *caseSpec, idx int, vs []viol, upto int) {
	for _, x := range vs {
		sp := *cs
		if upto >= 0 && upto+1 <= len(cs.Ops) {
			sp.Ops = append([]op{}, cs.Ops[:upto+1]...)
		}
		rn.v.Violate(x.sig, x.detail, replay{Seed: rn.args.Seed, Case: idx, Spec: sp})
	}
}

func keyOf(cs *caseSpec, i int) keySpec {
	if cs.Kind == "size" {
		return keySpec{Method: "GET", URL: fmt.Sprintf("a.com/s/%d", i), Params: map[string]string{"id": strconv.Itoa(i)}}
	}
	return cs.Keys[i]
}

// runCase executes one scripted case; returns the number of violations it produced.
func (rn *runner) runCase(idx int, cs *caseSpec) int {
	before := rn.v.NumViolations()
	base := t0.Add(time.Duration(cs.FracNs))
	clk := &stepClock{VClock: sim.NewVClock(base)}
	rn.baseG = runtime.NumGoroutine()
	h := newHist(cs)
	var tg target
	switch {
	case cs.Kind == "cache" || cs.Kind == "size" || cs.Target == "cache":
		tg = newCacheT(clk, cs)
	case cs.Kind == "throttle" || cs.Target == "throttle":
		tg = newThrottleT(clk, cs)
	default:
		tg = newRawT(clk, cs)
	}
	rn.v.Eval(1)
	staleFires, fires, sweeps, concAdmitted := 0, 0, 0, -1
	curMaxMB := cs.MaxMB // size cases: the configured maximum in force (changes with "setmax")
	// the maximum in force when an entry was offered, and the order of the offers: what a sweep finds is bounded by
	// the maximum in force when the LATEST of the entries it finds was stored (all the others were there already)
	limitAt, seqAt, seqN := map[string]float32{}, map[string]int{}, 0
	noteOffer := func(id string) {
		seqN++
		limitAt[id], seqAt[id] = curMaxMB, seqN
	}
	afterConc := false
	usedKeys := map[int]bool{}
	var tick atomic.Int64
	sig := "C12/panic/" + cs.Kind
	if cs.Target != "" {
		sig += "-" + cs.Target
	}

	doLookup := func(i int, o *op, key int, sequential bool) *hit {
		k := keyOf(cs, key)
		tNs := clk.Now().UnixNano()
		ht, err := tg.lookup(k)
		if err != nil {
			rn.violate(cs, idx, []viol{{"C12/error/" + cs.Kind, "OnRequest returned an error: " + err.Error()}}, i)
			return nil
		}
		if o != nil {
			o.TNs = tNs - base.UnixNano()
		}
		if ht == nil {
			h.noteMiss(k, tNs)
			if o != nil {
				o.Res = "miss"
			}
			return nil
		}
		h.mu.Lock()
		h.hits++
		h.mu.Unlock()
		if o != nil {
			o.Res = "hit:" + bodyID(ht.Body)
			if v, ok := raOf(ht.Headers); ok {
				o.Res += " ra=" + v
			}
		}
		rn.violate(cs, idx, h.judge(k, tNs, ht, sequential, 0), i)
		return ht
	}

	sweep := func(i int) {
		sweeps++
		keys := make([]int, 0, len(usedKeys))
		for k := range usedKeys {
			keys = append(keys, k)
		}
		sort.Ints(keys)
		total, served, conc := 0, 0, 0
		latestSeq, latestLimit := -1, curMaxMB
		seen := map[string]bool{}
		for _, k := range keys {
			ht := doLookup(i, nil, k, false)
			if ht == nil {
				continue
			}
			if id := bodyID(ht.Body); !seen[id] { // aliases of one entry are counted once
				seen[id] = true
				total += len(ht.Body)
				served++
				if sq, ok := seqAt[id]; ok && sq > latestSeq {
					latestSeq, latestLimit = sq, limitAt[id]
				}
				if strings.Contains(id, "-c") {
					conc++
				}
			}
		}
		if afterConc && concAdmitted < 0 {
			concAdmitted = conc
			rn.v.Count(fmt.Sprintf("concurrent_store_round_admitted_%02d", conc), 1)
			if os.Getenv("C12_DEBUG") != "" {
				for j := i - 1; j >= 0; j-- {
					if cs.Ops[j].K == "conc" {
						fmt.Printf("DEBUG case %d conc lockstep=%v res=%q pad=%d admitted=%d maxmb=%v\n", idx, cs.Ops[j].Lockstep, cs.Ops[j].Res, cs.Ops[j].Pad, conc, cs.MaxMB)
						break
					}
				}
			}
		}
		var max float64
		if cs.Kind == "size" {
			max = float64(latestLimit) * 1024 * 1024
		} else if cs.MaxRaw > 0 {
			max = float64(cs.MaxRaw)
		} else {
			return
		}
		cs.Ops[i].Res = fmt.Sprintf("served=%d bytes=%d max=%.0f", served, total, max)
		if float64(total) > max {
			phase := "sequential"
			if afterConc {
				phase = "concurrent-stores"
				for j := i - 1; j >= 0; j-- {
					if cs.Ops[j].K == "conc" {
						if !cs.Ops[j].Lockstep {
							rn.v.Count("free_running_rounds_that_exceeded_the_size", 1)
						}
						break
					}
				}
			}
			rn.violate(cs, idx, []viol{{"C12/size-exceeded/" + cs.Kind + "-" + phase,
				fmt.Sprintf("%d entries with %d body bytes in total are served at a quiescent sweep; configured maximum is %.0f bytes", served, total, max)}}, i)
		}
	}

	sim.Guard(rn.v, sig, replay{Seed: rn.args.Seed, Case: idx, Spec: *cs}, func() {
		for i := range cs.Ops {
			o := &cs.Ops[i]
			switch o.K {
			case "at":
				tt := base.Add(time.Duration(o.AtNs))
				if cs.Kind == "size" {
					afterConc, concAdmitted = false, -1
				}
				if o.Prompt {
					clk.AdvanceTo(tt, func(w sim.Waiter) { fires++; rn.settle(clk) })
				} else {
					clk.Set(tt)
				}
			case "fire":
				p := clk.Pending()
				now := clk.Now()
				if o.DueOnly {
					q := p[:0:0]
					for _, w := range p {
						if !w.Deadline.After(now) {
							q = append(q, w)
						}
					}
					p = q
				}
				if len(p) == 0 {
					o.Res = "none"
					break
				}
				w := p[o.Sel%len(p)]
				if w.Deadline.Before(now) {
					staleFires++
				}
				clk.Fire(w.ID)
				fires++
				o.Res = fmt.Sprintf("fired #%d due@%d", w.ID, w.Deadline.UnixNano()-base.UnixNano())
			case "store":
				k := keyOf(cs, o.Key)
				usedKeys[o.Key] = true
				noteOffer(o.ID)
				sNs := clk.Now().UnixNano()
				o.TNs = sNs - base.UnixNano()
				r := h.addStore(o.Key, k, o, sNs, 0)
				r.Accepted = tg.store(k, o)
				if cs.Kind == "raw" {
					if r.Accepted == 1 {
						h.latest[r.OKey] = r
						o.Res = "ok"
					} else {
						o.Res = "refused"
					}
				}
			case "gstore":
				// a store during which the stale clean-up sleepers run: the writer is parked in the clock read it
				// makes between its size pre-check and its write (a point where it can be descheduled), every due
				// sleeper is fired and finishes, then the writer goes on
				k := keyOf(cs, o.Key)
				usedKeys[o.Key] = true
				sNs := clk.VClock.Now().UnixNano()
				o.TNs = sNs - base.UnixNano()
				r := h.addStore(o.Key, k, o, sNs, 0)
				clk.VClock.ArmNowGateFor("MemoryCache")
				res := make(chan int, 1)
				go func() { res <- tg.store(k, o) }()
				parked := clk.VClock.WaitNowGateParked(2 * time.Second)
				firedHere := 0
				if parked {
					for _, w := range clk.Pending() {
						if !w.Deadline.After(time.Unix(0, sNs)) {
							clk.Fire(w.ID)
							fires++
							firedHere++
						}
					}
					// the sleepers have finished when only the parked writer is left besides the registered sleepers
					start := time.Now()
					for runtime.NumGoroutine() != rn.baseG+len(clk.Pending())+1 && time.Since(start) < 5*time.Second {
						runtime.Gosched()
					}
					rn.v.Count("stores_overtaken_by_their_key's_stale_sleeper", 1)
				}
				clk.VClock.OpenNowGate()
				r.Accepted = <-res
				o.Res = fmt.Sprintf("parked=%v sleepers_fired=%d accepted=%d", parked, firedHere, r.Accepted)
				if cs.Kind == "raw" && r.Accepted == 1 {
					h.latest[r.OKey] = r
				}
			case "del":
				k := keyOf(cs, o.Key)
				tg.(*rawT).c.Del(k.URL)
				h.latest[oracleKey(cs, k)] = nil
			case "has":
				k := keyOf(cs, o.Key)
				tNs := clk.Now().UnixNano()
				if tg.(*rawT).c.Has(k.URL) {
					o.Res = "true"
					l := h.latest[oracleKey(cs, k)]
					if l == nil {
						rn.violate(cs, idx, []viol{{"C12/has-without-entry/raw", "Has reports true for a key with no accepted, undeleted Set"}}, i)
					} else if tNs > l.Exp {
						rn.violate(cs, idx, []viol{{"C12/replay-stale/raw-has/" + map[bool]string{true: "within-1s", false: "beyond-1s"}[tNs-l.Exp <= 1e9],
							fmt.Sprintf("Has reports true %d ns after the entry's time-to-live passed", tNs-l.Exp)}}, i)
					}
				} else {
					o.Res = "false"
				}
			case "lookup":
				usedKeys[o.Key] = true
				doLookup(i, o, o.Key, true)
			case "setmax":
				// (entries stored before the change may still be served: a sweep is bounded by the maximum in force when
				// the latest entry it finds was stored)
				curMaxMB = o.MaxMB
				if ct, ok := tg.(*cacheT); ok {
					ct.cfg.MaxCacheSizeMegabytes = o.MaxMB
				}
				rn.v.Count("size_cases_max_cache_size_changed_between_epochs", 1)
			case "sweep":
				sweep(i)
			case "conc":
				afterConc = true
				var wg sync.WaitGroup
				var ready atomic.Int32
				sNs := clk.Now().UnixNano()
				o.TNs = sNs - base.UnixNano()
				var st *stepper
				if o.Lockstep {
					st = &stepper{n: o.N, ch: make(chan struct{})}
					clk.st.Store(st)
				}
				for j := 0; j < o.N; j++ {
					key := o.Key + j
					usedKeys[key] = true
					so := &op{K: "store", Key: key, ID: fmt.Sprintf("%s-c%d", o.ID, j), Pad: o.Pad, TTLk: o.TTLk}
					noteOffer(so.ID)
					k := keyOf(cs, key)
					h.addStore(key, k, so, sNs, 0)
					wg.Add(1)
					go func() {
						defer wg.Done()
						if st != nil {
							defer st.finish()
						} else {
							ready.Add(1)
							for n := 0; ready.Load() < int32(o.N); n++ { // start together
								if n%64 == 63 {
									runtime.Gosched()
								}
							}
						}
						tg.store(k, so)
					}()
				}
				wg.Wait()
				clk.st.Store(nil)
				if st != nil {
					o.Res = fmt.Sprintf("lockstep barriers=%d timeouts=%d", st.barriers, st.timeouts)
					rn.v.Count("lockstep_rounds", 1)
					rn.v.Count("lockstep_barrier_timeouts", st.timeouts)
				} else {
					rn.v.Count("free_running_concurrent_store_rounds", 1)
				}
			case "rw":
				rn.readersWriters(idx, cs, i, clk, tg, h, &tick)
			}
			if !rn.settle(clk) {
				rn.v.Inconclude(fmt.Sprintf("case %d: goroutines of the cache did not settle within the wall-clock watchdog", idx))
				return
			}
			if rn.v.NumViolations() > before+8 {
				return
			}
		}
	})
	if rn.dead {
		return rn.v.NumViolations() - before
	}
	// clean up: let every remaining sleeper run so that the next case starts from a known goroutine count
	clk.AdvanceTo(clk.Now().Add(1000*time.Hour), func(sim.Waiter) { rn.settle(clk) })
	rn.settle(clk)

	rn.v.Count("hits", h.hits)
	rn.v.Count("misses", h.misses)
	rn.v.Count("misses_after_expiry", h.expMiss)
	rn.v.Count("stores", h.n)
	rn.v.Count("restores_after_expiry", h.restores)
	rn.v.Count("sleepers_fired", fires)
	rn.v.Count("stale_sleepers_fired_late", staleFires)
	rn.v.Count("sweeps", sweeps)
	rn.v.Count("cases_"+cs.Kind, 1)
	if h.hits > 0 && (h.expMiss > 0 || cs.Kind == "size") {
		b := func(n int) int {
			switch {
			case n == 0:
				return 0
			case n < 3:
				return 1
			case n < 8:
				return 2
			}
			return 3
		}
		rn.v.Distinct(fmt.Sprintf("%s|%s|%s|%s|%v|k%d|sel%d|rs%d|sf%d|f%v|mb%v", cs.Kind, cs.Target, cs.Policy, cs.RAType,
			cs.Diffs, len(cs.Keys), len(cs.Selected), b(h.restores), b(staleFires), cs.FracNs == 0, cs.MaxMB))
	}
	if rn.v.NumViolations() == before {
		rn.v.Sample(map[string]any{"case": idx, "spec": trimSpec(cs)})
	}
	return rn.v.NumViolations() - before
}

func trimSpec(cs *caseSpec) caseSpec {
	sp := *cs
	if len(sp.Ops) > 24 {
		sp.Ops = sp.Ops[:24]
	}
	return sp
}

// readersWriters: clock frozen, writers store unique bodies, readers look up; every read must return
// a body offered under that key whose store call started before the read returned.
func (rn *runner) readersWriters(idx int, cs *caseSpec, i int, clk *stepClock, tg target, h *hist, tick *atomic.Int64) {
	o := &cs.Ops[i]
	var wg sync.WaitGroup
	gate := make(chan struct{})
	tNs := clk.Now().UnixNano()
	var vmu sync.Mutex
	var all []viol
	orders := make([]string, cs.Readers)
	for w := 0; w < cs.Writers; w++ {
		wg.Add(1)
		go func(w int) {
			defer wg.Done()
			<-gate
			for n := 0; n < 3; n++ {
				key := (w + n) % len(cs.Keys)
				so := &op{K: "store", Key: key, ID: fmt.Sprintf("%s-w%d-%d", o.ID, w, n), Pad: 3, TTLk: o.TTLk, RA: o.RA, Status: 429}
				h.addStore(key, cs.Keys[key], so, tNs, tick.Add(1))
				tg.store(cs.Keys[key], so)
				runtime.Gosched()
			}
		}(w)
	}
	for r := 0; r < cs.Readers; r++ {
		wg.Add(1)
		go func(r int) {
			defer wg.Done()
			<-gate
			var sb strings.Builder
			for n := 0; n < 6; n++ {
				key := (r + n) % len(cs.Keys)
				ht, err := tg.lookup(cs.Keys[key])
				ret := tick.Add(1)
				if err != nil {
					vmu.Lock()
					all = append(all, viol{"C12/error/" + cs.Kind, err.Error()})
					vmu.Unlock()
					continue
				}
				if ht == nil {
					h.noteMiss(cs.Keys[key], tNs)
					sb.WriteString("-")
					continue
				}
				h.mu.Lock()
				h.hits++
				h.mu.Unlock()
				sb.WriteString(bodyID(ht.Body) + ",")
				if vs := h.judge(cs.Keys[key], tNs, ht, false, ret); len(vs) > 0 {
					vmu.Lock()
					all = append(all, vs...)
					vmu.Unlock()
				}
				runtime.Gosched()
			}
			orders[r] = sb.String()
		}(r)
	}
	close(gate)
	wg.Wait()
	if il := strings.Join(orders, ";"); !rn.seenIL[il] {
		rn.seenIL[il] = true
		rn.v.Count("rw_interleavings_distinct_per_batch", 1)
	}
	rn.v.Count("concurrent_rw_rounds", 1)
	rn.violate(cs, idx, all, i)
}

// ---------------------------------------------------------------- generators

func policyOf(r *sim.Rand) string { return sim.Pick(r, []string{"prompt", "lazy", "mixed", "lazy"}) }

func fracOf(r *sim.Rand) int64 {
	switch r.Intn(5) {
	case 0:
		return 0
	case 1:
		return 300_000_000
	case 2:
		return 999_999_999
	default:
		return int64(r.Intn(1_000_000_000))
	}
}

type liveRec struct{ s, exp int64 }

// timeline helps the generators aim at expiry instants (offsets from the case base, ns).
type timeline struct {
	r      *sim.Rand
	policy string
	t      int64
	live   []liveRec
	ops    []op
	n      int
	pfx    string
}

func (tl *timeline) id() string { tl.n++; return fmt.Sprintf("%s-%d", tl.pfx, tl.n) }

func (tl *timeline) prompt() bool {
	switch tl.policy {
	case "prompt":
		return true
	case "lazy":
		return false
	}
	return tl.r.Bool()
}

func (tl *timeline) move() {
	r := tl.r
	cand := tl.t + int64(r.Intn(1_500_000_000))
	if len(tl.live) > 0 && r.Chance(4, 5) {
		l := tl.live[len(tl.live)-1-r.Intn(min(len(tl.live), 3))]
		cand = l.exp + sim.Pick(r, []int64{-1, 0, 1, 1, 2, -int64(r.Intn(400_000_000)), int64(r.Intn(900_000_000)), 999_999_999, 1_000_000_001})
	}
	if cand < tl.t {
		cand = tl.t + int64(r.Intn(3))
	}
	tl.t = cand
	tl.ops = append(tl.ops, op{K: "at", AtNs: cand, Prompt: tl.prompt()})
}

func (tl *timeline) fire() {
	if tl.policy == "prompt" {
		return
	}
	tl.ops = append(tl.ops, op{K: "fire", Sel: tl.r.Intn(64), DueOnly: tl.r.Chance(4, 5)})
}

var ttlChoices = []int64{512, 256, 1025, 2560, 1, 3}

func genCache(r *sim.Rand, idx int) caseSpec {
	cs := caseSpec{Kind: "cache", Policy: policyOf(r), FracNs: fracOf(r), MaxMB: 64}
	k0 := keySpec{Method: "GET", URL: "a.com/v1/u/7", Params: map[string]string{"id": "7", "org": "x", "ver": "1"}}
	// (a probe with path-parameter VALUES containing the separator characters of the key derivation
	// was dropped: the URL is part of the key and determines the path parameters, so two such
	// requests cannot differ in their parameters while sharing the URL - unreachable input)
	{
		cs.Selected = sim.Pick(r, [][]string{{"id"}, {"id", "org"}, {"org"}, {}, {"id", "id"}})
		cs.Keys = []keySpec{k0}
		variants := []string{"method", "url", "id", "org", "ver", "urlcase"}
		r.Shuffle(len(variants), func(i, j int) { variants[i], variants[j] = variants[j], variants[i] })
		for _, vr := range variants[:r.Range(1, 3)] {
			k := keySpec{Method: k0.Method, URL: k0.URL, Params: map[string]string{}}
			for a, b := range k0.Params {
				k.Params[a] = b
			}
			switch vr {
			case "method":
				k.Method = "POST"
			case "url":
				k.URL = "a.com/v1/u/8"
			case "urlcase": // the path of a URL is case-sensitive: another URL, same parameters
				k.URL = "a.com/V1/U/7"
			case "id":
				k.Params["id"] = "8"
			case "org":
				k.Params["org"] = "y"
			case "ver":
				k.Params["ver"] = "2"
			}
			cs.Keys = append(cs.Keys, k)
			cs.Diffs = append(cs.Diffs, vr)
		}
	}
	tl := &timeline{r: r, policy: cs.Policy, pfx: fmt.Sprintf("c%d", idx)}
	store := func(key int, ttlk int64) {
		tl.ops = append(tl.ops, op{K: "store", Key: key, ID: tl.id(), Pad: r.Intn(40), TTLk: ttlk})
		tl.live = append(tl.live, liveRec{tl.t, tl.t + ttlk*ttlUnitNs})
	}
	lookupAll := func() {
		for k := range cs.Keys {
			tl.ops = append(tl.ops, op{K: "lookup", Key: k})
		}
	}
	if r.Chance(1, 3) {
		// re-store right after expiry while the old entry's sleeper is still pending, then let it run
		ttlk := sim.Pick(r, ttlChoices)
		store(0, ttlk)
		lookupAll()
		tl.t = ttlk*ttlUnitNs + int64(r.Intn(3))
		tl.ops = append(tl.ops, op{K: "at", AtNs: tl.t, Prompt: false})
		lookupAll()
		store(0, ttlk)
		lookupAll()
		tl.ops = append(tl.ops, op{K: "fire", Sel: 0, DueOnly: true})
		lookupAll()
		store(r.Intn(len(cs.Keys)), ttlk)
		lookupAll()
	}
	n := r.Range(12, 36)
	for i := 0; i < n; i++ {
		x := r.Intn(100)
		switch {
		case x < 28:
			store(r.Intn(len(cs.Keys)), sim.Pick(r, ttlChoices))
		case x < 62:
			if r.Chance(1, 3) {
				lookupAll()
			} else {
				tl.ops = append(tl.ops, op{K: "lookup", Key: r.Intn(len(cs.Keys))})
			}
		case x < 90:
			tl.move()
			if r.Chance(1, 2) {
				lookupAll()
			}
		default:
			tl.fire()
		}
	}
	cs.Ops = tl.ops
	return cs
}

func genThrottle(r *sim.Rand, idx int) caseSpec {
	cs := caseSpec{Kind: "throttle", Policy: policyOf(r), FracNs: fracOf(r), RAType: sim.Pick(r, []string{"relative", "relative", "absolute"})}
	cs.NoRAHeader = r.Chance(1, 10)
	k0 := keySpec{Method: "GET", URL: "b.com/t/1"}
	cs.Keys = []keySpec{k0}
	for _, vr := range sim.Pick(r, [][]string{{"method"}, {"url"}, {"method", "url"}, {"urlcase"}, {"url", "urlcase"}}) {
		k := k0
		switch vr {
		case "method":
			k.Method = "PUT"
		case "urlcase":
			k.URL = "b.com/T/1"
		default:
			k.URL = "b.com/t/2"
		}
		cs.Keys = append(cs.Keys, k)
		cs.Diffs = append(cs.Diffs, vr)
	}
	baseSec := t0.Unix() // FracNs < 1 s, so floor(base) == t0
	tl := &timeline{r: r, policy: cs.Policy, pfx: fmt.Sprintf("t%d", idx)}
	store := func(key int) {
		o := op{K: "store", Key: key, ID: tl.id(), Pad: r.Intn(20), Status: sim.Pick(r, []int{429, 429, 429, 503, 200, 500})}
		if r.Chance(1, 8) {
			o.RAName = sim.Pick(r, []string{"retry-after", "RETRY-AFTER", "Retry-after"})
		}
		switch x := r.Intn(20); {
		case x == 0:
			o.RA = "-"
		case x == 1:
			o.RA = sim.Pick(r, []string{"soon", "", "NaN", "Inf", "-Inf", "1e1", "0x10", " 3"})
		default:
			var ns int64
			if cs.RAType == "relative" {
				ns = sim.Pick(r, []int64{1e9, 2_500_000_000, 750_000_000, 10e9, 1, 3600e9, 0, -1e9, 1_000_000_001, 86400e9})
				o.RA = fmtNs(ns)
				if o.Status == 429 || o.Status == 503 {
					tl.live = append(tl.live, liveRec{tl.t, tl.t + ns})
				}
			} else {
				at := tl.t/1e9 + int64(sim.Pick(r, []int{1, 2, 3, 10, 0, -1, 3600}))
				ns = (baseSec + at) * 1e9
				if r.Chance(1, 6) {
					ns += sim.Pick(r, []int64{250_000_000, 500_000_000})
				}
				o.RA = fmtNs(ns)
				if o.Status == 429 || o.Status == 503 {
					tl.live = append(tl.live, liveRec{tl.t, ns - baseSec*1e9 - cs.FracNs})
				}
			}
		}
		tl.ops = append(tl.ops, o)
	}
	lookupAll := func() {
		for k := range cs.Keys {
			tl.ops = append(tl.ops, op{K: "lookup", Key: k})
		}
	}
	n := r.Range(14, 40)
	for i := 0; i < n; i++ {
		x := r.Intn(100)
		switch {
		case x < 28:
			store(r.Intn(len(cs.Keys)))
			if r.Chance(1, 2) {
				lookupAll()
			}
		case x < 60:
			tl.ops = append(tl.ops, op{K: "lookup", Key: r.Intn(len(cs.Keys))})
		case x < 90:
			tl.move()
			lookupAll()
		default:
			tl.fire()
		}
	}
	cs.Ops = tl.ops
	return cs
}

func genRaw(r *sim.Rand, idx int) caseSpec {
	cs := caseSpec{Kind: "raw", Policy: policyOf(r), FracNs: fracOf(r)}
	if r.Chance(1, 2) {
		cs.MaxRaw = r.Range(60, 200)
	}
	for i := 0; i < r.Range(2, 4); i++ {
		cs.Keys = append(cs.Keys, keySpec{Method: "-", URL: fmt.Sprintf("k%d", i)})
	}
	tl := &timeline{r: r, policy: cs.Policy, pfx: fmt.Sprintf("r%d", idx)}
	n := r.Range(16, 48)
	for i := 0; i < n; i++ {
		key := r.Intn(len(cs.Keys))
		x := r.Intn(100)
		switch {
		case x < 30:
			ttlk := sim.Pick(r, ttlChoices)
			tl.ops = append(tl.ops, op{K: "store", Key: key, ID: tl.id(), Pad: r.Intn(70), TTLk: ttlk})
			tl.live = append(tl.live, liveRec{tl.t, tl.t + ttlk*ttlUnitNs})
		case x < 55:
			tl.ops = append(tl.ops, op{K: "lookup", Key: key})
		case x < 63:
			tl.ops = append(tl.ops, op{K: "has", Key: key})
		case x < 68:
			tl.ops = append(tl.ops, op{K: "del", Key: key})
		case x < 75:
			tl.ops = append(tl.ops, op{K: "sweep"})
		case x < 92:
			tl.move()
			for k := range cs.Keys {
				tl.ops = append(tl.ops, op{K: sim.Pick(r, []string{"lookup", "lookup", "has"}), Key: k})
			}
		default:
			tl.fire()
		}
	}
	tl.ops = append(tl.ops, op{K: "sweep"})
	cs.Ops = tl.ops
	return cs
}

// genOvertaken: a size-limited MemoryCache; a key expires, its clean-up sleeper is late, the key is stored again
// and the sleeper runs in the middle of that store; then distinct keys are stored until the cache refuses, and
// a sweep adds up what is served.
func genOvertaken(r *sim.Rand, idx int) caseSpec {
	cs := caseSpec{Kind: "raw", Policy: "lazy", FracNs: fracOf(r)}
	pad := r.Range(40, 90)
	pfx := fmt.Sprintf("o%d", idx)
	size := len(pfx) + 3 + 1 + pad // id "<pfx>-NN", '|', pad
	cs.MaxRaw = size*r.Range(2, 4) + r.Intn(size)
	for i := 0; i < 8; i++ {
		cs.Keys = append(cs.Keys, keySpec{Method: "-", URL: fmt.Sprintf("k%d", i)})
	}
	n := 0
	id := func() string { n++; return fmt.Sprintf("%s-%02d", pfx, n) }
	ttlShort, ttlLong := int64(512), int64(512*600)
	var ops []op
	ops = append(ops, op{K: "store", Key: 0, ID: id(), Pad: pad, TTLk: ttlShort})
	if r.Bool() {
		ops = append(ops, op{K: "store", Key: 1, ID: id(), Pad: pad, TTLk: ttlLong})
	}
	ops = append(ops, op{K: "at", AtNs: ttlShort*ttlUnitNs + int64(r.Range(1, 1000))*1_000_000}) // expired, sleeper not fired
	ops = append(ops, op{K: "gstore", Key: 0, ID: id(), Pad: pad + r.Intn(2)*r.Range(1, 30), TTLk: ttlLong})
	for k := 2; k < 8; k++ {
		ops = append(ops, op{K: "store", Key: k, ID: id(), Pad: pad, TTLk: ttlLong})
	}
	ops = append(ops, op{K: "sweep"})
	cs.Ops = ops
	return cs
}

func genSize(r *sim.Rand, idx int) caseSpec {
	cs := caseSpec{Kind: "size", Policy: "prompt", FracNs: fracOf(r), MaxMB: sim.Pick(r, []float32{1, 0.5, 0.25}), Selected: []string{"id"}}
	maxB := int(float64(cs.MaxMB) * 1024 * 1024)
	tl := &timeline{r: r, policy: "prompt", pfx: fmt.Sprintf("s%d", idx)}
	const ttlk = 5120
	key := 0
	store := func(pad int) {
		if pad < 0 {
			pad = 0
		}
		k := key
		if key > 0 && r.Chance(1, 4) {
			k = r.Intn(key) // store again under a key used in an earlier epoch (its sleeper may still be pending)
		} else {
			key++
		}
		tl.ops = append(tl.ops, op{K: "store", Key: k, ID: tl.id(), Pad: pad, TTLk: ttlk})
	}
	epochs := r.Range(2, 6)
	for e := 0; e < epochs; e++ {
		if e > 0 && r.Chance(1, 3) {
			// the policies are reloaded with another (mostly smaller) maximum; the plugin instance stays
			nm := sim.Pick(r, []float32{0.25, 0.125, 0.0625, 0.5})
			tl.ops = append(tl.ops, op{K: "setmax", MaxMB: nm})
			maxB = int(float64(nm) * 1024 * 1024)
		}
		if r.Chance(2, 3) {
			// concurrent stores at the limit: room for exactly one of them
			b := maxB / sim.Pick(r, []int{8, 16, 64})
			p := maxB - b - b/2
			parts := r.Range(1, 3)
			for j := 0; j < parts; j++ {
				store(p/parts - 8)
			}
			tl.ops = append(tl.ops, op{K: "sweep"})
			tl.ops = append(tl.ops, op{K: "conc", Key: key, N: 16, ID: tl.id(), Pad: b - 8, TTLk: ttlk, Lockstep: r.Chance(2, 3)})
			key += 16
			tl.ops = append(tl.ops, op{K: "sweep"})
		} else {
			sum := 0
			for j := 0; j < r.Range(4, 12); j++ {
				pad := sim.Pick(r, []int{maxB / 16, maxB / 5, maxB / 3, maxB - sum - r.Intn(400), maxB - sum + 1, r.Intn(2000)})
				if pad > maxB+1 {
					pad = maxB + 1
				}
				store(pad)
				if pad > 0 {
					sum += pad
				}
				if sum > maxB {
					sum = maxB
				}
				if r.Chance(1, 2) {
					tl.ops = append(tl.ops, op{K: "sweep"})
				}
			}
			tl.ops = append(tl.ops, op{K: "sweep"})
		}
		tl.t += ttlk*ttlUnitNs + 1 + int64(r.Intn(5))
		lazy := r.Chance(1, 3)
		tl.ops = append(tl.ops, op{K: "at", AtNs: tl.t, Prompt: !lazy})
		tl.ops = append(tl.ops, op{K: "sweep"})
		if lazy && key > 0 && r.Chance(1, 2) {
			// keys of the expired epoch are stored again with large bodies while their old clean-up sleepers are still
			// pending; then every due sleeper runs; then the cache is filled up to its maximum
			n := r.Range(1, 3)
			for j := 0; j < n; j++ {
				tl.ops = append(tl.ops, op{K: "store", Key: r.Intn(key), ID: tl.id(), Pad: maxB/4 - 8 - r.Intn(100), TTLk: ttlk})
			}
			for j := 0; j < 48; j++ {
				tl.ops = append(tl.ops, op{K: "fire", Sel: 0, DueOnly: true})
			}
			tl.ops = append(tl.ops, op{K: "sweep"})
			for j := 0; j < 6; j++ {
				store(maxB/4 - 8 - r.Intn(100))
			}
			tl.ops = append(tl.ops, op{K: "sweep"})
		}
		if lazy { // some of the expired entries' sleepers run late, in a chosen order, between later stores
			for j := r.Intn(4); j > 0; j-- {
				store(r.Intn(3000))
				tl.ops = append(tl.ops, op{K: "fire", Sel: r.Intn(64), DueOnly: true})
			}
			tl.ops = append(tl.ops, op{K: "sweep"})
		}
	}
	cs.Ops = tl.ops
	return cs
}

func genConc(r *sim.Rand, idx int) caseSpec {
	cs := caseSpec{Kind: "conc", Target: sim.Pick(r, []string{"cache", "throttle"}), Policy: "lazy", FracNs: fracOf(r),
		RAType: "relative", Writers: r.Range(3, 8), Readers: r.Range(3, 8), Selected: []string{"id"}, MaxMB: 64}
	cs.Keys = []keySpec{{Method: "GET", URL: "c.com/r/1", Params: map[string]string{"id": "1"}},
		{Method: "POST", URL: "c.com/r/1", Params: map[string]string{"id": "1"}}}
	if r.Bool() {
		cs.Keys = append(cs.Keys, keySpec{Method: "GET", URL: "c.com/r/1", Params: map[string]string{"id": "2"}})
		if cs.Target == "throttle" {
			cs.Keys[2].URL = "c.com/r/2"
		}
	}
	pfx := fmt.Sprintf("x%d", idx)
	var ops []op
	t := int64(0)
	for round := 0; round < r.Range(1, 3); round++ {
		ops = append(ops, op{K: "rw", ID: fmt.Sprintf("%s-%d", pfx, round), TTLk: 512, RA: "1"})
		for k := range cs.Keys {
			ops = append(ops, op{K: "lookup", Key: k})
		}
		t += 1e9
		ops = append(ops, op{K: "at", AtNs: t, Prompt: false})
		for k := range cs.Keys {
			ops = append(ops, op{K: "lookup", Key: k})
		}
		t++
		ops = append(ops, op{K: "at", AtNs: t, Prompt: r.Bool()})
		for k := range cs.Keys {
			ops = append(ops, op{K: "lookup", Key: k})
		}
	}
	cs.Ops = ops
	return cs
}

func genCase(r *sim.Rand, idx int) caseSpec {
	switch x := idx % 16; {
	case x < 6:
		return genCache(r, idx)
	case x < 11:
		return genThrottle(r, idx)
	case x < 13:
		return genRaw(r, idx)
	case x < 15:
		return genSize(r, idx)
	default:
		return genConc(r, idx)
	}
}

// ---------------------------------------------------------------- main

func main() {
	args := sim.ParseArgs()
	sim.Quiet()
	v := sim.NewVerdict("C12", args.Seed, args.Tier, args.Batch, args.Out)
	v.Rule = "case = scripted history (stores with unique body ids, lookups, clock moves aimed at expiry-1ns/expiry/expiry+1ns, chosen sleeper firings, sweeps, 16 concurrent stores at the size limit, frozen-clock reader/writer rounds) against the real CachingPlugin / ResponseBasedThrottlingPlugin / MemoryCache on a virtual clock; non-trivial iff it contains at least one replay and one miss after an expiry (size cases: at least one replay); distinct by <target, sleeper policy, retry-after type, key variants, #keys, #selected params, re-stores after expiry, late sleeper firings, whole-second base, max size> plus the distinct reader/writer interleavings observed"
	v.Assumptions = []string{
		"a replay at the expiry instant itself is accepted (inclusive convention); misses are never violations",
		"the configured TTL is the float32 value of CachingConfig.TTLSeconds (multiples of 1/512 s are used, exact in float32 and in ns)",
		"size of an entry is under-approximated by the length of its body; configured size = MaxCacheSizeMegabytes * 2^20 bytes",
		"plugin level: acceptance of a store is not observable, so only 'never an older store after a newer one was replayed' is demanded; MemoryCache level: a hit must be the latest accepted, undeleted Set",
		"an absolute retry-after E allows replay at instants <= E; a response without a parsable retry-after is not judged for freshness (absent header: no replay after the store instant)",
		"quiescence = #goroutines equals base + #sleepers parked on the virtual clock (no wall-clock sleeps)",
	}
	rn := &runner{v: v, args: args, seenIL: map[string]bool{}}
	if args.Replay != "" {
		runReplay(rn)
		os.Exit(v.Write())
	}
	total := args.Pick(1600, 24000)
	lo, hi := args.Share(total)
	for i := lo; i < hi && !rn.dead; i++ {
		cs := genCase(args.CaseRand(i), i)
		if cs.Kind == "size" || cs.Kind == "conc" {
			fmt.Printf("case %d kind=%s\n", i, cs.Kind)
		}
		rn.runCase(i, &cs)
	}
	olo, ohi := args.Share(args.Pick(64, 1200))
	for i := olo; i < ohi && !rn.dead; i++ {
		cs := genOvertaken(args.CaseRand(8_000_000+i), 8_000_000+i)
		rn.runCase(8_000_000+i, &cs)
	}
	if v.Counters["hits"] == 0 || v.Counters["misses_after_expiry"] == 0 {
		v.Inconclude("no replay or no miss after an expiry observed in this batch")
	}
	os.Exit(v.Write())
}

func runReplay(rn *runner) {
	data, err := os.ReadFile(rn.args.Replay)
	if err != nil {
		rn.v.Inconclude("cannot read replay file: " + err.Error())
		return
	}
	var wrap struct {
		Replay *replay `json:"replay"`
	}
	var rp replay
	if err := json.Unmarshal(data, &wrap); err == nil && wrap.Replay != nil {
		rp = *wrap.Replay
	} else if err := json.Unmarshal(data, &rp); err != nil {
		rn.v.Inconclude("cannot parse replay file: " + err.Error())
		return
	}
	rn.args.Seed = rp.Seed
	rounds := 1
	for _, o := range rp.Spec.Ops {
		if o.K == "conc" || o.K == "rw" {
			rounds = 400 // schedule-dependent: repeat the same case until it shows again
		}
	}
	for i := 0; i < rounds && !rn.dead; i++ {
		cs := rp.Spec
		cs.Ops = append([]op{}, rp.Spec.Ops...)
		if rn.runCase(rp.Case, &cs) > 0 {
			rn.v.Count("replay_rounds_needed", i+1)
			return
		}
	}
}
