// C13 - endpoint policies apply only to requests matching their declared endpoint; the most specific
// declared pattern wins; the outcome does not depend on the declaration order.
//
// Real config.BuildEndpointPolicyTree + EndpointPolicyTree.Lookup + selection by method (the four
// lines of runner.getRemedies), and an end-to-end slice through runner.DispatchOnRequest with one
// fixed_response remedy per endpoint whose status code names the endpoint. Every generated set of
// endpoint declarations is built in all n! orders (n <= 4, 24 sampled orders above) and probed with
// URLs derived from its own patterns. Oracle: the independent matcher sim.ParsePattern/Match/
// MoreSpecific/PathParams written from the statement.
package main

import (
	"encoding/json"
	"fmt"
	"os"
	"sort"
	"strings"
	"sync"
	"time"

	"github.com/negasus/haproxy-spoe-go/action"

	"lunar/engine/config"
	lunarMessages "lunar/engine/messages"
	"lunar/engine/runner"
	"lunar/engine/services"
	sharedConfig "lunar/shared-model/config"
	"lunar/toolkit-core/urltree"

	"verif/harness/sim"
)

// ---------------------------------------------------------------- case model

type ep struct {
	Method string `json:"method"`
	URL    string `json:"url"`
	Kind   int    `json:"remedy_kind"` // index into remedyKinds
}

func (e ep) name() string { return e.Method + " " + e.URL }

type probe struct {
	Method string `json:"method"`
	URL    string `json:"url"`
}

type caseT struct {
	Part      string `json:"part"` // "exhaustive" | "random"
	Eps       []ep   `json:"endpoints"`
	OrderSeed uint64 `json:"order_seed"`
	E2E       bool   `json:"e2e"`
}

type replayT struct {
	Seed  uint64 `json:"seed"`
	Case  int    `json:"case"`
	C     caseT  `json:"config"`
	Probe *probe `json:"probe,omitempty"`
	// human-readable witness: declaration order(s) and what was observed
	OrderA   []string `json:"order_a,omitempty"`
	OutcomeA string   `json:"outcome_a,omitempty"`
	OrderB   []string `json:"order_b,omitempty"`
	OutcomeB string   `json:"outcome_b,omitempty"`
}

var remedyKinds = []string{"fixed_response", "caching", "retry", "authentication", "response_based_throttling", "account_orchestration"}

func remedyFor(e ep, status int) sharedConfig.Remedy {
	r := sharedConfig.Remedy{Enabled: true, Name: e.name()}
	switch remedyKinds[e.Kind%len(remedyKinds)] {
	case "fixed_response":
		r.Config.FixedResponse = &sharedConfig.FixedResponseConfig{StatusCode: status}
	case "caching":
		r.Config.Caching = &sharedConfig.CachingConfig{}
	case "retry":
		r.Config.Retry = &sharedConfig.RetryConfig{}
	case "authentication":
		r.Config.Authentication = &sharedConfig.AuthConfig{}
	case "response_based_throttling":
		r.Config.ResponseBasedThrottling = &sharedConfig.ResponseBasedThrottlingConfig{}
	case "account_orchestration":
		r.Config.AccountOrchestration = &sharedConfig.AccountOrchestrationConfig{}
	}
	return r
}

const statusBase = 201

func declarations(c caseT, order []int) []sharedConfig.EndpointConfig {
	out := make([]sharedConfig.EndpointConfig, 0, len(order))
	for _, i := range order {
		e := c.Eps[i]
		ec := sharedConfig.EndpointConfig{
			URL: e.URL, Method: e.Method,
			Remedies: []sharedConfig.Remedy{remedyFor(e, statusBase+i)},
		}
		if !c.E2E { // a diagnosis too (not subject to the builder's conflict check)
			ec.Diagnosis = []sharedConfig.Diagnosis{{
				Enabled: true, Name: e.name(), Export: "file",
				Config: sharedConfig.DiagnosisConfig{Void: &sharedConfig.VoidConfig{}},
			}}
		}
		out = append(out, ec)
	}
	return out
}

// ---------------------------------------------------------------- generators

var (
	hostsAll = []string{"a.com", "b.a.com", "api.x.io"}
	segsAll  = []string{"x", "y", "z", "{p}", "{q}"}
	methods  = []string{"GET", "POST", "PUT"}
)

func patternsUpTo(hosts, segs []string, depth int) []string {
	var out []string
	var rec func(prefix string, d int)
	rec = func(prefix string, d int) {
		out = append(out, prefix, prefix+"/*")
		if d == depth {
			return
		}
		for _, s := range segs {
			rec(prefix+"/"+s, d+1)
		}
	}
	for _, h := range hosts {
		rec(h, 0)
	}
	return out
}

// exhaustive part: every set of 1 or 2 distinct (method, pattern) declarations over the bounded
// alphabet; every pair twice: with one remedy type (exercises the builder's conflict rejection and
// the dispatcher slice) and with two different types.
type exhSpace struct {
	eps   []ep
	bound string
}

func exhaustiveSpace(thorough bool) exhSpace {
	hosts, segs, ms := []string{"a.com"}, []string{"x", "y", "{p}", "{q}"}, []string{"GET", "POST"}
	if thorough {
		hosts, segs, ms = []string{"a.com", "b.a.com"}, segsAll, methods
	}
	var s exhSpace
	for _, p := range patternsUpTo(hosts, segs, 2) {
		for _, m := range ms {
			s.eps = append(s.eps, ep{Method: m, URL: p})
		}
	}
	s.bound = fmt.Sprintf("all sets of <=2 distinct declarations over hosts %v, segments %v, path depth <=2, optional trailing *, methods %v (%d declarations), each pair with equal and with different remedy types, both orders, all derived probes", hosts, segs, ms, len(s.eps))
	return s
}

func (s exhSpace) count() int { m := len(s.eps); return m + m*(m-1) }

func (s exhSpace) at(i int) caseT {
	m := len(s.eps)
	if i < m {
		return caseT{Part: "exhaustive", Eps: []ep{s.eps[i]}}
	}
	i -= m
	sameType := i%2 == 1 // every pair once with two different remedy types, once with one type
	i /= 2
	// pair index -> (a,b), a<b
	a := 0
	for i >= m-1-a {
		i -= m - 1 - a
		a++
	}
	b := a + 1 + i
	c := caseT{Part: "exhaustive", Eps: []ep{s.eps[a], s.eps[b]}}
	if sameType {
		c.E2E = true
	} else {
		c.Eps[1].Kind = 1
	}
	return c
}

func genPattern(r *sim.Rand, famHost string, famPath []string) string {
	host := famHost
	if r.Chance(1, 5) {
		host = sim.Pick(r, hostsAll)
	}
	depth := r.Intn(4)
	segW := []string{"x", "x", "x", "y", "y", "y", "z", "{p}", "{p}", "{p}", "{q}"}
	var segs []string
	for d := 0; d < depth; d++ {
		if d < len(famPath) && r.Chance(1, 2) {
			segs = append(segs, famPath[d]) // stay on the family prefix: overlapping declarations
		} else {
			segs = append(segs, sim.Pick(r, segW))
		}
	}
	p := host
	if len(segs) > 0 {
		p += "/" + strings.Join(segs, "/")
	}
	if r.Chance(7, 20) {
		p += "/*"
	}
	return p
}

// manySiblings: 51-58 endpoints that differ in one literal segment under a common parent (a catalogue of
// resources declared one by one), plus now and then a parametric and a wildcard sibling.
func manySiblings(r *sim.Rand) caseT {
	c := caseT{Part: "random", OrderSeed: r.U64()}
	n := r.Range(51, 58)
	for i := 0; i < n; i++ {
		c.Eps = append(c.Eps, ep{Method: "GET", URL: fmt.Sprintf("crowd.com/items/item%03d", i), Kind: 0})
	}
	if r.Chance(1, 3) {
		c.Eps = append(c.Eps, ep{Method: "GET", URL: "crowd.com/items/{id}/details", Kind: 0})
	}
	if r.Chance(1, 3) {
		c.Eps = append(c.Eps, ep{Method: "POST", URL: "crowd.com/*", Kind: 0})
	}
	return c
}

func genCase(r *sim.Rand) caseT {
	n := r.Range(2, 6)
	if r.Chance(1, 2) {
		n = r.Range(2, 4)
	}
	c := caseT{Part: "random", OrderSeed: r.U64(), E2E: r.Chance(2, 5)}
	famHost := sim.Pick(r, []string{"a.com", "a.com", "a.com", "b.a.com", "api.x.io"})
	famPath := []string{sim.Pick(r, []string{"x", "y", "{p}"}), sim.Pick(r, []string{"x", "y", "{p}"}), sim.Pick(r, []string{"x", "y", "{p}"})}
	mW := []string{"GET", "GET", "GET", "POST", "POST", "PUT"}
	if c.E2E && r.Chance(1, 2) { // one method, one remedy type: a "pure" set
		mW = []string{sim.Pick(r, mW)}
	}
	seen := map[string]bool{}
	for tries := 0; len(c.Eps) < n && tries < 100; tries++ {
		e := ep{Method: sim.Pick(r, mW), URL: genPattern(r, famHost, famPath)}
		if seen[e.name()] {
			continue
		}
		seen[e.name()] = true
		if !c.E2E {
			e.Kind = len(c.Eps)
		}
		c.Eps = append(c.Eps, e)
	}
	// one pattern declared twice under two accepted spellings (the tree trims a trailing '/'), with
	// different methods: both declarations belong to the same endpoint
	if r.Chance(1, 4) {
		base := c.Eps[r.Intn(len(c.Eps))]
		if !strings.HasSuffix(base.URL, "*") {
			for _, m := range []string{"GET", "POST", "PUT", "DELETE"} {
				e := ep{Method: m, URL: base.URL + "/"}
				if m != base.Method && !seen[m+" "+base.URL] && !seen[e.name()] {
					seen[e.name()] = true
					if !c.E2E {
						e.Kind = len(c.Eps)
					}
					c.Eps = append(c.Eps, e)
					break
				}
			}
		}
	}
	return c
}

// probesFor derives request URLs from every declared pattern.
func probesFor(c caseT) []probe {
	urls := []string{}
	seen := map[string]bool{}
	add := func(u string) {
		u = strings.Trim(u, "/")
		if u == "" || seen[u] || strings.Contains(u, "//") {
			return
		}
		seen[u] = true
		urls = append(urls, u)
	}
	for _, e := range c.Eps {
		segs := strings.Split(strings.Trim(e.URL, "/"), "/")
		host, path := segs[0], segs[1:]
		wild := len(path) > 0 && path[len(path)-1] == "*"
		if wild {
			path = path[:len(path)-1]
		}
		for _, pv := range []string{"v7", "x", "y", "X"} { // a parameter value may equal a sibling literal (or differ from it by case only)
			conc := make([]string, len(path))
			for i, s := range path {
				if strings.HasPrefix(s, "{") {
					conc[i] = pv
					if pv == "v7" { // positionally distinct values
						conc[i] = fmt.Sprintf("v%d", 7+i)
					}
				} else {
					conc[i] = s
				}
			}
			base := strings.Join(append([]string{host}, conc...), "/")
			add(base)        // exact / wildcard with zero remaining segments
			add(base + "/w") // one extra trailing segment
			if pv == "v7" {
				add(base + "/w/x") // two extra
				add(base + "/y")
				if len(conc) > 0 {
					add(strings.Join(append([]string{host}, conc[:len(conc)-1]...), "/")) // last segment missing
					sib := append([]string{}, conc...)
					sib[len(sib)-1] = "zzz" // sibling literal
					add(strings.Join(append([]string{host}, sib...), "/"))
					up := append([]string{}, conc...) // same path, last segment in upper case: another URL
					up[len(up)-1] = strings.ToUpper(up[len(up)-1])
					add(strings.Join(append([]string{host}, up...), "/"))
					if len(conc) > 1 {
						sib2 := append([]string{}, conc...)
						sib2[0] = "zzz"
						add(strings.Join(append([]string{host}, sib2...), "/"))
					}
				}
				add(host)                                                         // host only
				add(strings.Join(append([]string{"other.org"}, conc...), "/"))    // other host
				add(strings.Join(append([]string{host + ".evil"}, conc...), "/")) // host with an extra label
				add(strings.Join(append([]string{host + ".evil", "w"}, conc...), "/"))
				add(strings.Join(append([]string{"evil." + host}, conc...), "/"))
				if len(conc) > 0 { // first path segment presented as a host label
					add(strings.Join(append([]string{host + "." + conc[0]}, conc[1:]...), "/"))
				}
			}
		}
	}
	if len(urls) > 48 {
		urls = urls[:48]
	}
	ms := map[string]bool{}
	for _, e := range c.Eps {
		ms[e.Method] = true
	}
	var mlist []string
	for _, m := range methods {
		if ms[m] {
			mlist = append(mlist, m)
		}
	}
	for _, m := range append(methods, "DELETE") { // one method nobody declared
		if !ms[m] {
			mlist = append(mlist, m)
			break
		}
	}
	var out []probe
	for _, u := range urls {
		for _, m := range mlist {
			out = append(out, probe{Method: m, URL: u})
		}
	}
	return out
}

func ordersFor(c caseT) [][]int {
	n := len(c.Eps)
	id := make([]int, n)
	for i := range id {
		id[i] = i
	}
	if n <= 4 {
		var out [][]int
		var rec func(k int)
		rec = func(k int) {
			if k == n {
				out = append(out, append([]int{}, id...))
				return
			}
			for i := k; i < n; i++ {
				id[k], id[i] = id[i], id[k]
				rec(k + 1)
				id[k], id[i] = id[i], id[k]
			}
		}
		rec(0)
		return out
	}
	r := sim.NewRand(c.OrderSeed)
	out := [][]int{append([]int{}, id...)}
	rev := make([]int, n)
	for i := range rev {
		rev[i] = n - 1 - i
	}
	out = append(out, rev)
	seen := map[string]bool{fmt.Sprint(id): true, fmt.Sprint(rev): true}
	for tries := 0; len(out) < 24 && tries < 500; tries++ {
		p := append([]int{}, id...)
		r.Shuffle(n, func(i, j int) { p[i], p[j] = p[j], p[i] })
		if k := fmt.Sprint(p); !seen[k] {
			seen[k] = true
			out = append(out, p)
		}
	}
	return out
}

// ---------------------------------------------------------------- observation

type outcome struct {
	Sel      int // index into c.Eps of the endpoint whose remedy was selected; -1 none; -2 unknown name
	SelName  string
	NodeHit  bool // Lookup reported a match (whatever the method)
	Norm     string
	Params   map[string]string
	DiagName string
}

func (o outcome) key() string {
	if o.Sel == -1 {
		return "none"
	}
	ks := sim.SortedKeys(o.Params)
	var sb strings.Builder
	fmt.Fprintf(&sb, "%s | normalized=%s | params=", o.SelName, o.Norm)
	for _, k := range ks {
		fmt.Fprintf(&sb, "%s=%s,", k, o.Params[k])
	}
	if o.DiagName != o.SelName {
		fmt.Fprintf(&sb, " | diagnosis=%s", o.DiagName)
	}
	return sb.String()
}

// observe performs the selection exactly as runner.getRemedies / getDiagnoses do: Lookup(url), then
// the entry of the looked-up map for the request's method; normalised URL and path parameters of the
// lookup are attached to the selected remedies.
func observe(tree *config.EndpointPolicyTree, idx map[string]int, m, u string, withDiag bool) outcome {
	res := tree.Lookup(u)
	o := outcome{Sel: -1, NodeHit: res.Match, Norm: res.NormalizedURL, Params: res.PathParams}
	if res.Value == nil {
		return o
	}
	pol, found := (*res.Value)[urltree.Method(m)]
	if !found {
		return o
	}
	for _, rem := range pol.Remedies {
		if rem.Enabled {
			o.SelName = rem.Name
			if i, ok := idx[rem.Name]; ok {
				o.Sel = i
			} else {
				o.Sel = -2
			}
			break
		}
	}
	o.DiagName = o.SelName
	if withDiag {
		o.DiagName = ""
		for _, d := range pol.Diagnosis {
			if d.Enabled {
				o.DiagName = d.Name
				break
			}
		}
	}
	return o
}

// ---------------------------------------------------------------- oracle (from the statement)

type decl struct {
	ep
	pat sim.Pattern
}

func class(p sim.Pattern) string {
	if p.Wildcard {
		return "wildcard"
	}
	for _, x := range p.Parts {
		if x.IsParam() {
			return "param"
		}
	}
	return "literal"
}

func hostLabels(ps []sim.Part) int {
	n := 0
	for _, p := range ps {
		if p.Host {
			n++
		}
	}
	return n
}

type finding struct{ sig, detail string }

// ownNode: the lookup reports the selected endpoint's own pattern as the normalised URL (also in the
// two renderings the engine uses for a wildcard hit: without the "/*" when zero segments remain, and
// with a host delimiter when the wildcard swallowed a host label). Otherwise the policy was served
// from the node of a different pattern ("foreign node").
func ownNode(ds []decl, e decl, norm string) bool {
	u := strings.Trim(e.URL, "./")
	if norm == u {
		return true
	}
	if declared(ds, norm) {
		return false // the node of another declared pattern
	}
	if e.pat.Wildcard {
		stem := strings.TrimSuffix(u, "/*")
		// zero remaining segments: "<stem>"; wildcard fallback after a deeper descent: "<stem>/<segments
		// walked>[/*]"; a swallowed host label: "<stem>.*"
		return norm == stem || strings.HasPrefix(norm, stem+"/") || strings.HasPrefix(norm, stem+".")
	}
	return false
}

func zeroSegForm(ds []decl, norm string) bool {
	for _, d := range ds {
		if d.pat.Wildcard && strings.TrimSuffix(strings.Trim(d.URL, "./"), "/*") == norm {
			return true
		}
	}
	return false
}

// divertedBySibling: a declared pattern shares a prefix with best, is of a strictly higher kind at
// the next position and matches the URL there, so a greedy descent leaves best's branch.
func divertedBySibling(ds []decl, best decl, url string) bool {
	up := sim.SplitURL(url)
	kind := func(p sim.Pattern, i int) int {
		if i < len(p.Parts) {
			if p.Parts[i].IsParam() {
				return 2
			}
			return 3
		}
		if p.Wildcard {
			return 1
		}
		return 0
	}
	for _, d := range ds {
		if d.URL == best.URL {
			continue
		}
		for i := 0; i < len(d.pat.Parts) && i < len(up); i++ {
			kd, kb := kind(d.pat, i), kind(best.pat, i)
			if kd == kb && (kd != 3 || d.pat.Parts[i].Val == best.pat.Parts[i].Val) {
				if kd == 3 && d.pat.Parts[i].Val != up[i].Val {
					break
				}
				continue
			}
			if kd > kb && (kd == 2 || d.pat.Parts[i].Val == up[i].Val) && d.pat.Parts[i].Host == up[i].Host {
				return true
			}
			break
		}
	}
	return false
}

func judge(ds []decl, pr probe, o outcome, pure bool) []finding {
	var fs []finding
	ulen := len(sim.SplitURL(pr.URL))
	var yes []decl
	for _, d := range ds {
		if d.Method == pr.Method && d.pat.Match(pr.URL) == sim.Yes {
			yes = append(yes, d)
		}
	}
	if o.Sel == -1 {
		if len(yes) == 0 {
			return nil
		}
		// the most specific declared pattern must win: some endpoint has to be selected
		best := yes[0]
		for _, d := range yes[1:] {
			if sim.MoreSpecific(d.pat, best.pat, ulen) {
				best = d
			}
		}
		var how string
		switch {
		case o.NodeHit:
			how = "method-absent-at-matched-node"
		case divertedBySibling(ds, best, pr.URL):
			how = "lookup-miss/diverted-by-more-specific-sibling"
		default:
			how = "lookup-miss/" + class(best.pat) + "-pattern"
		}
		fs = append(fs, finding{
			sig:    "C13/dropped/" + how,
			detail: fmt.Sprintf("%s %s: declared endpoint %q matches but no endpoint policy was selected (lookup matched a node=%v, normalized=%q)", pr.Method, pr.URL, best.name(), o.NodeHit, o.Norm),
		})
		return fs
	}
	if o.Sel == -2 {
		return []finding{{sig: "C13/harness/unknown-remedy-name", detail: o.SelName}}
	}
	e := ds[o.Sel]
	normPat := sim.ParsePattern(o.Norm)
	own := ownNode(ds, e, o.Norm)
	foreign := !own && !pure
	wrong := false
	if e.Method != pr.Method {
		wrong = true
		fs = append(fs, finding{sig: "C13/wrong-endpoint/method-mismatch",
			detail: fmt.Sprintf("%s %s received the policy declared for %q", pr.Method, pr.URL, e.name())})
	}
	if e.pat.Match(pr.URL) == sim.No {
		wrong = true
		var k string
		switch {
		case foreign:
			k = "policy-served-from-foreign-node"
		case e.pat.Wildcard && !e.pat.WildHost && hostLabels(sim.SplitURL(pr.URL)) > hostLabels(e.pat.Parts):
			k = "path-wildcard-crosses-host-boundary"
		default:
			k = class(e.pat) + "-pattern-does-not-match"
		}
		fs = append(fs, finding{sig: "C13/wrong-endpoint/" + k,
			detail: fmt.Sprintf("%s %s received the policy declared for %q, whose pattern does not match the URL (normalized=%q)", pr.Method, pr.URL, e.name(), o.Norm)})
	} else {
		zero := e.pat.Match(pr.URL) == sim.DontCare
		for _, d := range yes {
			k := ""
			switch {
			case sim.MoreSpecific(d.pat, e.pat, ulen):
				k = class(e.pat) + "-over-" + class(d.pat)
			case zero && !sim.MoreSpecific(e.pat, d.pat, ulen):
				// d matches exactly; e only under the "wildcard matches zero segments" convention, under
				// which the exact pattern is the more specific one; under the other convention e does not match
				k = "zero-segment-wildcard-over-exact-pattern"
			default:
				continue
			}
			if foreign {
				k = "policy-served-from-foreign-node"
			} else if divertedBySibling(ds, d, pr.URL) {
				k = "diverted-by-more-specific-sibling"
			}
			fs = append(fs, finding{sig: "C13/not-most-specific/" + k,
				detail: fmt.Sprintf("%s %s received the policy of %q although the more specific %q is declared and matches (normalized=%q)", pr.Method, pr.URL, e.name(), d.name(), o.Norm)})
			break
		}
		// A wildcard with zero remaining segments: the statement leaves open whether it matches, but matching is
		// a relation between one pattern and the URL. If the engine applies d's policy to this URL when d is
		// declared alone, d matches by the engine's own convention, and a less specific pattern must not win
		// over it because other patterns are declared too.
		if len(fs) == 0 {
			for _, d := range ds {
				if d.Method != pr.Method || d.pat.Match(pr.URL) != sim.DontCare || !sim.MoreSpecific(d.pat, e.pat, ulen) {
					continue
				}
				if !appliesAlone(d, pr) {
					continue
				}
				k := class(e.pat) + "-over-wildcard-with-zero-segments"
				if foreign {
					k = "policy-served-from-foreign-node"
				} else if divertedBySibling(ds, d, pr.URL) {
					k = "diverted-by-more-specific-sibling"
				}
				fs = append(fs, finding{sig: "C13/not-most-specific/" + k,
					detail: fmt.Sprintf("%s %s received the policy of %q although the more specific %q is declared and, declared alone, is applied to this URL (normalized=%q)", pr.Method, pr.URL, e.name(), d.name(), o.Norm)})
				break
			}
		}
	}
	// normalised URL: a declared pattern (of any method) that matches the request. Not judged again
	// when the selection itself is already refuted on this probe.
	if !wrong {
		if !declared(ds, o.Norm) {
			k := "other"
			if zeroSegForm(ds, o.Norm) {
				k = "wildcard-zero-segments-reported-without-wildcard"
			} else if own && e.pat.Wildcard {
				k = "wildcard-fallback-reported-as-walked-path"
			} else if foreign {
				k = "policy-served-from-foreign-node"
			}
			fs = append(fs, finding{sig: "C13/normalized-url/not-a-declared-pattern/" + k,
				detail: fmt.Sprintf("%s %s: normalized URL %q is not among the declared patterns (selected %q)", pr.Method, pr.URL, o.Norm, e.name())})
			// no declared pattern was reported: the parameter positions are those of the selected pattern
			if own && !paramsOK(e.pat, pr.URL, o.Params) {
				pk := "differ-from-request-segments"
				if e.pat.Wildcard && o.Norm != strings.TrimSuffix(strings.Trim(e.URL, "./"), "/*") {
					// the wildcard was reached by falling back from (or through) a longer walked path
					pk = "walked-path-parameters-reported-with-wildcard-policy"
				}
				fs = append(fs, finding{sig: "C13/path-params/" + pk,
					detail: fmt.Sprintf("%s %s: selected %q (normalized %q) but path parameters %v; the request's segments at that pattern's parameter positions are %v", pr.Method, pr.URL, e.name(), o.Norm, o.Params, e.pat.PathParams(pr.URL))})
			}
		} else if normPat.Match(pr.URL) == sim.No {
			fs = append(fs, finding{sig: fmt.Sprintf("C13/normalized-url/does-not-match-request/%s", class(normPat)),
				detail: fmt.Sprintf("%s %s: normalized URL %q is declared but does not match the request (selected %q)", pr.Method, pr.URL, o.Norm, e.name())})
		} else {
			want := normPat.PathParams(pr.URL)
			if !paramsOK(normPat, pr.URL, o.Params) {
				fs = append(fs, finding{sig: "C13/path-params/differ-from-request-segments",
					detail: fmt.Sprintf("%s %s: normalized %q, path parameters %v, the request's segments at the parameter positions are %v", pr.Method, pr.URL, o.Norm, o.Params, want)})
			}
		}
	}
	if o.DiagName != o.SelName {
		fs = append(fs, finding{sig: "C13/wrong-endpoint/diagnosis-and-remedy-of-different-endpoints",
			detail: fmt.Sprintf("%s %s: remedy of %q, diagnosis of %q", pr.Method, pr.URL, o.SelName, o.DiagName)})
	}
	return fs
}

var aloneMemo sync.Map

// appliesAlone: the endpoint declared alone is selected for the probe by the real tree.
func appliesAlone(d decl, pr probe) bool {
	key := fmt.Sprintf("%s %s %v <- %s", d.Method, d.URL, d.Kind, pr.URL)
	if x, ok := aloneMemo.Load(key); ok {
		return x.(bool)
	}
	res := false
	func() {
		defer func() { _ = recover() }()
		c := caseT{Eps: []ep{d.ep}}
		tree, err := config.BuildEndpointPolicyTree(declarations(c, []int{0}))
		if err != nil || tree == nil {
			return
		}
		res = observe(tree, map[string]int{d.ep.name(): 0}, pr.Method, pr.URL, false).Sel == 0
	}()
	aloneMemo.Store(key, res)
	return res
}

func declared(ds []decl, norm string) bool {
	for _, d := range ds {
		if strings.Trim(d.URL, "./") == norm {
			return true
		}
	}
	return false
}

// paramsOK: exactly the parameter names of the pattern, each bound to the request's segment at a
// position carrying that name (a name used at several positions may report any of them).
func paramsOK(p sim.Pattern, url string, got map[string]string) bool {
	up := sim.SplitURL(url)
	allowed := map[string]map[string]bool{}
	for i, pp := range p.Parts {
		if pp.IsParam() && i < len(up) {
			n := strings.Trim(pp.Val, "{}")
			if allowed[n] == nil {
				allowed[n] = map[string]bool{}
			}
			allowed[n][up[i].Val] = true
		}
	}
	if len(allowed) != len(got) {
		return false
	}
	for n, v := range got {
		if !allowed[n][v] {
			return false
		}
	}
	return true
}

// ---------------------------------------------------------------- end-to-end slice

type mockWriter struct{}

func (mockWriter) Write(b []byte) (int, error) { return len(b), nil }
func (mockWriter) Close() error                { return nil }

type e2eEnv struct {
	svc    *services.PoliciesServices
	worker *runner.DiagnosisWorker
	n      int
}

func newE2E() (*e2eEnv, error) {
	svc, err := services.Initialize(mockWriter{}, 15*time.Second, sharedConfig.Exporters{})
	if err != nil {
		return nil, err
	}
	return &e2eEnv{svc: svc, worker: runner.NewDiagnosisWorker()}, nil
}

var t0 = time.Date(2026, 3, 1, 12, 0, 0, 0, time.UTC)

// dispatch returns the index of the endpoint whose fixed_response answered (-1: no early response).
func (e *e2eEnv) dispatch(tree *config.EndpointPolicyTree, pr probe) (int, error) {
	e.n++
	id := fmt.Sprintf("c13-%d", e.n)
	path := "/"
	if i := strings.Index(pr.URL, "/"); i >= 0 {
		path = pr.URL[i:]
	}
	req := lunarMessages.OnRequest{
		ID: id, SequenceID: id, Method: pr.Method, Scheme: "https", URL: pr.URL, Path: path,
		Headers: map[string]string{"host": strings.SplitN(pr.URL, "/", 2)[0], "early-response": "true"},
		Time:    t0,
	}
	pc := &sharedConfig.PoliciesConfig{}
	acts, err := runner.DispatchOnRequest(req, tree, pc, e.svc, e.worker)
	if err != nil {
		return -1, err
	}
	return statusOf(acts), nil
}

func statusOf(acts action.Actions) int {
	for _, a := range acts {
		if a.Name == "status_code" {
			switch x := a.Value.(type) {
			case int:
				return x - statusBase
			case int64:
				return int(x) - statusBase
			case int32:
				return int(x) - statusBase
			}
		}
	}
	return -1
}

// ---------------------------------------------------------------- case execution

func names(c caseT, order []int) []string {
	out := make([]string, len(order))
	for i, k := range order {
		out[i] = c.Eps[k].name()
	}
	return out
}

func runCase(idx int, args sim.Args, c caseT, v *sim.Verdict, env *e2eEnv) {
	v.Eval(1)
	v.Count("cases:"+c.Part, 1)
	ds := make([]decl, len(c.Eps))
	byName := map[string]int{}
	for i, e := range c.Eps {
		ds[i] = decl{ep: e, pat: sim.ParsePattern(e.URL)}
		byName[e.name()] = i
	}
	probes := probesFor(c)
	orders := ordersFor(c)
	base := replayT{Seed: args.Seed, Case: idx, C: c}

	type built struct {
		order []int
		outs  []outcome
	}
	var acc []built
	rejected := 0
	selected, overlapProbes := 0, 0
	for _, ord := range orders {
		var tree *config.EndpointPolicyTree
		var err error
		rp := base
		rp.OrderA = names(c, ord)
		if sim.Guard(v, "C13/panic/build", rp, func() { tree, err = config.BuildEndpointPolicyTree(declarations(c, ord)) }) {
			return
		}
		v.Count("orders_built", 1)
		if err != nil || tree == nil {
			rejected++
			continue
		}
		b := built{order: ord, outs: make([]outcome, len(probes))}
		panicked := sim.Guard(v, "C13/panic/lookup", rp, func() {
			for k, pr := range probes {
				b.outs[k] = observe(tree, byName, pr.Method, pr.URL, !c.E2E)
			}
		})
		if panicked {
			return
		}
		v.Count("lookups", len(probes))
		for k, pr := range probes {
			o := b.outs[k]
			if o.Sel >= 0 {
				selected++
				v.Count("selected:"+class(ds[o.Sel].pat), 1)
				if ds[o.Sel].pat.Match(pr.URL) == sim.DontCare {
					v.Count("selected:wildcard-with-zero-remaining-segments(open convention)", 1)
				}
			} else {
				v.Count("selected:none", 1)
			}
		}
		// dispatcher slice: the real DispatchOnRequest must apply the same endpoint's remedy
		if c.E2E && env != nil && len(acc) == 0 {
			sim.Guard(v, "C13/panic/dispatch", rp, func() {
				for k, pr := range probes {
					got, derr := env.dispatch(tree, pr)
					v.Count("e2e_dispatches", 1)
					if derr != nil {
						w := rp
						w.Probe = &probes[k]
						v.Violate("C13/e2e/dispatch-error", derr.Error(), w)
						continue
					}
					if got >= 0 {
						v.Count("e2e_early_responses", 1)
					}
					if got != b.outs[k].Sel {
						w := rp
						w.Probe = &probes[k]
						w.OutcomeA = b.outs[k].key()
						w.OutcomeB = fmt.Sprintf("dispatcher answered with the status code of endpoint index %d", got)
						v.Violate("C13/e2e/dispatcher-applies-a-different-endpoint-than-lookup-plus-method",
							fmt.Sprintf("%s %s: lookup+method selects %q, DispatchOnRequest answered with endpoint index %d", pr.Method, pr.URL, b.outs[k].key(), got), w)
					}
				}
			})
		}
		acc = append(acc, b)
	}
	v.Count("orders_rejected_by_builder", rejected)
	v.Count("probes", len(probes))
	switch {
	case len(acc) == 0:
		v.Count("sets_rejected_in_every_order", 1)
	case rejected > 0:
		v.Count("sets_accepted_in_some_orders_only(not flagged)", 1)
	default:
		v.Count("sets_accepted_in_every_order", 1)
	}
	if len(acc) == 0 {
		return
	}
	// per-order oracle. "pure": one method and one remedy type in the whole set. The builder rejects
	// every declaration whose URL already resolves to a policy of that method and type, so no accepted
	// order of a pure set can have two nodes sharing one method map; a policy reported under another
	// pattern's normalised URL is then a lookup failure and is named by pattern classes, not as
	// "served from a foreign node". Only the NAME of a violation depends on this, never its existence.
	pure := true
	for _, d := range ds[1:] {
		if d.Method != ds[0].Method || d.Kind != ds[0].Kind {
			pure = false
		}
	}
	for _, b := range acc {
		for k, pr := range probes {
			for _, f := range judge(ds, pr, b.outs[k], pure) {
				w := base
				w.OrderA = names(c, b.order)
				w.Probe = &probes[k]
				w.OutcomeA = b.outs[k].key()
				if strings.HasPrefix(f.sig, "C13/dropped/") {
					// The statement is an only-if ("applied ... only if"): a matching endpoint that is
					// not selected at all (greedy lookup without backtracking, method absent at the
					// matched node) does not contradict it. Reported as a counter, never as a violation.
					v.Count("info:"+f.sig, 1)
					continue
				}
				v.Violate(f.sig, fmt.Sprintf("declared in this order: %q\n%s", w.OrderA, f.detail), w)
			}
		}
	}
	// order independence among the accepted orders
	if len(acc) > 1 {
		v.Count("order_comparisons", (len(acc)-1)*len(probes))
		for k, pr := range probes {
			a := acc[0].outs[k]
			for _, b := range acc[1:] {
				o := b.outs[k]
				if o.key() == a.key() {
					continue
				}
				kind := "different-endpoints"
				if a.Sel == o.Sel {
					kind = "same-endpoint-other-normalized-url-or-params"
				} else if a.Sel == -1 || o.Sel == -1 {
					kind = "selected-vs-none"
				}
				w := base
				w.Probe = &probes[k]
				w.OrderA, w.OutcomeA = names(c, acc[0].order), a.key()
				w.OrderB, w.OutcomeB = names(c, b.order), o.key()
				v.Violate("C13/order-dependent/"+kind,
					fmt.Sprintf("%s %s\n declared as %q -> %s\n declared as %q -> %s", pr.Method, pr.URL, w.OrderA, w.OutcomeA, w.OrderB, w.OutcomeB), w)
				break
			}
		}
	}
	// non-trivial: some endpoint selected, and a probe on which >= 2 declared patterns compete
	for _, pr := range probes {
		n := 0
		for _, d := range ds {
			if d.pat.Match(pr.URL) != sim.No {
				n++
			}
		}
		if n >= 2 {
			overlapProbes++
		}
	}
	v.Count("probes_with_competing_patterns", overlapProbes)
	if selected > 0 && (overlapProbes > 0 || len(ds) == 1) {
		var cl []string
		ms := map[string]bool{}
		for _, d := range ds {
			cl = append(cl, fmt.Sprintf("%s%d", class(d.pat), len(d.pat.Parts)))
			ms[d.Method] = true
		}
		sort.Strings(cl)
		v.Distinct(fmt.Sprintf("%v|methods=%d|rejected=%v|e2e=%v", cl, len(ms), rejected > 0, c.E2E))
		if c.Part == "random" && idx%97 == 0 {
			v.Sample(map[string]any{"case": idx, "endpoints": names(c, acc[0].order), "orders_accepted": len(acc), "orders_rejected": rejected,
				"probes": len(probes), "example_probe": probes[len(probes)/2], "example_outcome": acc[0].outs[len(probes)/2].key()})
		}
	}
}

func main() {
	args := sim.ParseArgs()
	sim.BaseEnv()
	v := sim.NewVerdict("C13", args.Seed, args.Tier, args.Batch, args.Out)
	v.Rule = "case = set of distinct (method, pattern) endpoint declarations, built with the real BuildEndpointPolicyTree in every order (n<=4) or 24 sampled orders, probed with URLs derived from its own patterns (exact, parameter values incl. sibling literals, extra/missing trailing segments, sibling literal, host only, foreign and label-extended hosts) x declared methods + one undeclared; non-trivial iff some order was accepted, some probe selected an endpoint and (for n>=2) some probe has >=2 competing declared patterns; distinct by <sorted pattern class+length list, #methods, partially rejected?, dispatcher slice?>"
	v.Assumptions = []string{
		"matching reference = sim.ParsePattern/Match (literal equality, {p} = one non-empty segment, trailing * = remaining segments, host labels never matched against path segments); a trailing wildcard with ZERO remaining segments is an open convention: selecting or not selecting such an endpoint is accepted",
		"most specific = segment-wise from the left, literal > parameter > wildcard, among declared patterns of the request's method that match",
		"'most specific declared pattern wins' is read as: when a declared (method, pattern) definitely matches, SOME endpoint policy is selected (C13/dropped/*); the pure only-if clauses have their own signatures (C13/wrong-endpoint/*, C13/not-most-specific/*)",
		"selection is observed as: remedy/diagnosis name in the entry for the request method of the map returned by EndpointPolicyTree.Lookup (the code of runner.getRemedies/getDiagnoses), cross-checked against runner.DispatchOnRequest on fixed_response sets",
		"declaration orders rejected by the builder (conflict of equal remedy types, parameter-name clash) are counted, never flagged; exact duplicate (method, pattern) declarations are not generated",
	}
	clk := sim.NewVClock(t0)
	sim.UseClock(clk)
	env, err := newE2E()
	if err != nil {
		v.Inconclude("services.Initialize failed, dispatcher slice not run: " + err.Error())
	}

	if args.Replay != "" {
		runReplay(args, v, env)
		os.Exit(v.Write())
	}
	space := exhaustiveSpace(args.Thorough())
	nExh := space.count()
	nRand := args.Pick(6000, 120000)
	total := nExh + nRand
	lo, hi := args.Share(total)
	v.Extra["exhaustive_part"] = map[string]any{"bound": space.bound, "sets": nExh, "complete": true}
	for i := lo; i < hi; i++ {
		var c caseT
		if i < nExh {
			c = space.at(i)
		} else if i%199 == 0 {
			c = manySiblings(args.CaseRand(i))
			v.Count("cases_with_more_than_50_literal_siblings", 1)
		} else {
			c = genCase(args.CaseRand(i))
		}
		runCase(i, args, c, v, env)
	}
	sel := 0
	for k, n := range v.Counters {
		if strings.HasPrefix(k, "selected:") && k != "selected:none" {
			sel += n
		}
	}
	if hi > lo && (sel == 0 || v.Counters["selected:none"] == 0) {
		v.Inconclude("no endpoint selected or no unselected probe in this batch")
	}
	os.Exit(v.Write())
}

func runReplay(args sim.Args, v *sim.Verdict, env *e2eEnv) {
	data, err := os.ReadFile(args.Replay)
	if err != nil {
		v.Inconclude("cannot read replay file: " + err.Error())
		return
	}
	var wrap struct {
		Replay *replayT `json:"replay"`
	}
	var rp replayT
	if err := json.Unmarshal(data, &wrap); err == nil && wrap.Replay != nil && len(wrap.Replay.C.Eps) > 0 {
		rp = *wrap.Replay
	} else if err := json.Unmarshal(data, &rp); err != nil || len(rp.C.Eps) == 0 {
		v.Inconclude("cannot parse replay file")
		return
	}
	fmt.Printf("replaying case %d: %+v\n", rp.Case, rp.C)
	runCase(rp.Case, args, rp.C, v, env)
}
