// C14 - traffic a flow or policy must see is always registered as managed.
//
// Differential monitor between two parts of the real code:
//
//	(1) the engine's own matching verdict: flows mode = a real streams.Stream built from generated
//	    flow YAML, request run through Stream.ExecuteFlow, the user flows that ran are read from
//	    Stream.GetFlowInvocations(); policy mode = config.BuildEndpointPolicyTree(..).Lookup(url) and
//	    the per-method map entry the runner would take.
//	(2) the expressions the engine registers with HAProxy: policy mode = the real
//	    config.BuildHAProxyEndpointsRequest; flows mode = config.HaproxyEndpointFormat for every
//	    filters[0].GetSupportedMethods() of every Stream.GetSupportedFilters() group and
//	    manage_all iff some filter IsAnyURLAccepted() (the loop of the unexported
//	    routing.buildHAProxyFlowsEndpointsRequest, transliterated - see notes).
//
// Oracle (one direction only): engine selects a flow / endpoint for (m,u)  =>  manage_all was
// registered OR some registered expression matches "m:::u" as an unanchored regular expression
// (haproxy.cfg: capture.req.method,concat(":::",txn.url),map_reg(endpoints.map) -m found).
// An expression that does not compile matches nothing.
package main

import (
	"encoding/json"
	"fmt"
	"os"
	"regexp"
	"sort"
	"strings"

	"lunar/engine/config"
	streamtypes "lunar/engine/streams/types"
	sharedconfig "lunar/shared-model/config"
	"lunar/toolkit-core/urltree"

	"verif/harness/sim"
)

type flowSpec struct {
	Name    string   `json:"name"`
	URL     string   `json:"url"`
	Methods []string `json:"methods"`
}

type epSpec struct {
	Method string `json:"method"`
	URL    string `json:"url"`
}

type reqSpec struct {
	Method string `json:"method"`
	URL    string `json:"url"`
	Kind   string `json:"kind"` // how the URL was derived
	Of     string `json:"of"`   // pattern it was derived from
}

type c14case struct {
	Mode         string     `json:"mode"` // "flows" | "policy"
	Flows        []flowSpec `json:"flows,omitempty"`
	Endpoints    []epSpec   `json:"endpoints,omitempty"`
	GlobalRemedy bool       `json:"global_remedy,omitempty"`
	Reqs         []reqSpec  `json:"reqs"`
}

type replay struct {
	Case     int      `json:"case"`
	Seed     uint64   `json:"seed"`
	Spec     c14case  `json:"spec"`
	Request  *reqSpec `json:"request,omitempty"`
	Selected []string `json:"engine_selected,omitempty"`
	Exprs    []string `json:"registered,omitempty"`
}

var allMethods = []string{"GET", "POST", "PUT", "DELETE", "PATCH", "HEAD", "OPTIONS"}

// ---- generators --------------------------------------------------------------------------------

var (
	hostLabels = []string{"api", "v2", "my-svc", "example", "internal", "eu-west-1", "x_y", "graph", "cdn", "Files"}
	tlds       = []string{"com", "io", "co.uk", "org", "local"}
	plainSegs  = []string{"users", "v1", "items", "orders", "a", "health", "me", "posts", "Accounts", "V4", "getUser"}
	dotSegs    = []string{"v1.0", "file.json", "a.b.c", "index.html", "Messages.json"}
	// characters special to regular expressions that are legal (or at least accepted by HAProxy) in a
	// request path. '?' and '#' cannot occur in txn.url (query / fragment are cut off) and are left
	// out; "++" "*+" "(?" are left out because RE2 and PCRE read them differently.
	metaSegs   = []string{"a+b", "c+", "$metadata", "$batch", "report(1)", "(x)", "x|y", "[0]", "^up", "x{2}", "a*b", "p$q", "+1", "{}"}
	paramNames = []string{"id", "user_id", "user-id", "p1", "Key", "x"}
	oddParams  = []string{"a.b", "user.id", "v1.x"}
	paramVals  = []string{"42", "abc", "a.b", "x+y", "v(1)", "a-b_c", "%20", "@me", "0", "J.R.R", "$x"}
	extraSegs  = []string{"more", "x.y", "1", "deep", "a+b", "z"}
)

type patInfo struct {
	URL       string
	Host      []string // labels ("{t}" for a host parameter)
	Path      []string
	Wild      string // "", "path" (/*), "host" (.*), "all" (*)
	HostParam bool
	OddParam  bool
	Meta      bool
	Dots      int
	Params    int
}

func isParam(s string) bool {
	return strings.HasPrefix(s, "{") && strings.HasSuffix(s, "}")
}

func (p patInfo) render() string {
	if p.Wild == "all" {
		return "*"
	}
	u := strings.Join(p.Host, ".")
	if p.Wild == "host" {
		return u + ".*"
	}
	for _, s := range p.Path {
		u += "/" + s
	}
	if p.Wild == "path" {
		u += "/*"
	}
	return u
}

func genPattern(r *sim.Rand) patInfo {
	var p patInfo
	if r.Chance(1, 30) {
		p.Wild = "all"
		p.URL = "*"
		return p
	}
	n := r.Range(1, 3)
	for i := 0; i < n; i++ {
		p.Host = append(p.Host, sim.Pick(r, hostLabels))
	}
	p.Host = append(p.Host, strings.Split(sim.Pick(r, tlds), ".")...)
	if r.Chance(1, 25) {
		p.Host[0] = "{tenant}"
		p.HostParam = true
	}
	p.Dots = len(p.Host) - 1
	if r.Chance(1, 30) {
		p.Wild = "host"
		p.Host = p.Host[:len(p.Host)-1]
		p.URL = p.render()
		return p
	}
	hostile := r.Intn(10) // one hostile feature per pattern most of the time
	nseg := r.Range(0, 4)
	used := map[string]bool{}
	for i := 0; i < nseg; i++ {
		switch k := r.Intn(10); {
		case k < 4:
			p.Path = append(p.Path, sim.Pick(r, plainSegs))
		case k < 5:
			p.Path = append(p.Path, sim.Pick(r, dotSegs))
			p.Dots++
		case k < 8:
			name := sim.Pick(r, paramNames)
			if hostile == 0 && !p.OddParam {
				name = sim.Pick(r, oddParams)
				p.OddParam = true
			}
			if used[name] {
				p.Path = append(p.Path, sim.Pick(r, plainSegs))
				continue
			}
			used[name] = true
			p.Path = append(p.Path, "{"+name+"}")
			p.Params++
		default:
			if hostile >= 1 && hostile <= 4 {
				p.Path = append(p.Path, sim.Pick(r, metaSegs))
				p.Meta = true
			} else {
				p.Path = append(p.Path, sim.Pick(r, plainSegs))
			}
		}
	}
	if r.Chance(7, 20) {
		p.Wild = "path"
	}
	p.URL = p.render()
	return p
}

func genMethods(r *sim.Rand) []string {
	switch r.Intn(10) {
	case 0, 1, 2, 3:
		return nil
	case 4:
		return []string{"GET"}
	case 5:
		return []string{"GET", "POST"}
	case 6:
		return []string{sim.Pick(r, []string{"HEAD", "OPTIONS", "PATCH"})}
	case 7:
		return []string{"OPTIONS", "PATCH", "HEAD"}
	}
	var out []string
	for _, m := range allMethods {
		if r.Chance(1, 3) {
			out = append(out, m)
		}
	}
	return out
}

// sibling derives an overlapping pattern from p (same prefix, other tail / wildcard / same URL).
func sibling(r *sim.Rand, p patInfo) patInfo {
	q := p
	q.Host = append([]string{}, p.Host...)
	q.Path = append([]string{}, p.Path...)
	if p.Wild == "all" || p.Wild == "host" {
		return genPattern(r)
	}
	switch r.Intn(4) {
	case 0: // same URL (other methods)
	case 1:
		if q.Wild == "path" {
			q.Wild = ""
		} else {
			q.Wild = "path"
		}
	case 2:
		if len(q.Path) > 0 {
			q.Path = q.Path[:len(q.Path)-1]
		}
		q.Wild = "path"
	case 3:
		q.Path = append(q.Path, sim.Pick(r, plainSegs))
	}
	q.URL = q.render()
	return q
}

func genRequests(r *sim.Rand, p patInfo, methods []string, n int) []reqSpec {
	var out []reqSpec
	pickMethod := func() string {
		if len(methods) > 0 && r.Chance(3, 5) {
			return sim.Pick(r, methods)
		}
		return sim.Pick(r, allMethods)
	}
	concrete := func() string {
		if p.Wild == "all" {
			return sim.Pick(r, hostLabels) + ".com/" + sim.Pick(r, plainSegs)
		}
		host := append([]string{}, p.Host...)
		for i, h := range host {
			if isParam(h) {
				host[i] = sim.Pick(r, []string{"acme", "t-1", "corp"})
			}
		}
		u := strings.Join(host, ".")
		if p.Wild == "host" {
			return u + "." + sim.Pick(r, []string{"com", "io", "co.uk"})
		}
		for _, s := range p.Path {
			if isParam(s) {
				s = sim.Pick(r, paramVals)
			}
			u += "/" + s
		}
		return u
	}
	for i := 0; i < n; i++ {
		u := concrete()
		kind := "exact"
		switch k := r.Intn(16); {
		case k < 5:
		case k < 8 && p.Wild != "":
			m := r.Range(1, 3)
			for j := 0; j < m; j++ {
				u += "/" + sim.Pick(r, extraSegs)
			}
			kind = "under-wildcard"
		case k < 8:
			u += "/" + sim.Pick(r, extraSegs)
			kind = "extra-segment"
		case k == 8:
			u += "/"
			kind = "trailing-slash"
		case k == 9 && p.Wild == "path" && len(p.Path) == 0:
			kind = "host-only"
		case k == 10:
			if j := strings.LastIndex(u, "/"); j > 0 {
				u = u[:j]
			}
			kind = "one-segment-short"
		case k == 11:
			u = strings.Replace(u, "/", ".evil/", 1)
			kind = "host-suffix"
		case k == 12:
			u += "x"
			kind = "last-segment-longer"
		case k == 13:
			// the Host header as some clients send it: other letter case in the host part only
			if j := strings.Index(u, "/"); j > 0 {
				u = strings.ToUpper(u[:1]) + u[1:j] + u[j:]
			} else if len(u) > 0 {
				u = strings.ToUpper(u[:1]) + u[1:]
			}
			kind = "host-letter-case"
		}
		out = append(out, reqSpec{Method: pickMethod(), URL: u, Kind: kind, Of: p.URL})
	}
	return out
}

func genCase(r *sim.Rand, policy bool) c14case {
	var c c14case
	n := 1
	if r.Chance(2, 5) {
		n = r.Range(2, 3)
	}
	var pats []patInfo
	for i := 0; i < n; i++ {
		if i > 0 && r.Chance(2, 3) {
			pats = append(pats, sibling(r, pats[r.Intn(len(pats))]))
		} else {
			pats = append(pats, genPattern(r))
		}
	}
	perPat := r.Range(10, 18)
	if policy {
		c.Mode = "policy"
		c.GlobalRemedy = r.Chance(1, 20)
		for _, p := range pats {
			m := sim.Pick(r, allMethods)
			c.Endpoints = append(c.Endpoints, epSpec{Method: m, URL: p.URL})
			c.Reqs = append(c.Reqs, genRequests(r, p, []string{m}, perPat)...)
		}
		return c
	}
	c.Mode = "flows"
	for i, p := range pats {
		ms := genMethods(r)
		c.Flows = append(c.Flows, flowSpec{Name: fmt.Sprintf("f%d", i), URL: p.URL, Methods: ms})
		c.Reqs = append(c.Reqs, genRequests(r, p, ms, perPat)...)
	}
	return c
}

func flowYAML(f flowSpec) string {
	var sb strings.Builder
	fmt.Fprintf(&sb, "name: %s\nfilter:\n  url: '%s'\n", f.Name, strings.ReplaceAll(f.URL, "'", "''"))
	if len(f.Methods) > 0 {
		fmt.Fprintf(&sb, "  method: [%s]\n", strings.Join(f.Methods, ", "))
	}
	sb.WriteString(`processors:
  P:
    processor: VerifProbe
  R:
    processor: VerifProbe
flow:
  request:
    - from:
        stream:
          name: globalStream
          at: start
      to:
        processor:
          name: P
    - from:
        processor:
          name: P
      to:
        stream:
          name: globalStream
          at: end
  response:
    - from:
        stream:
          name: globalStream
          at: start
      to:
        processor:
          name: R
    - from:
        processor:
          name: R
      to:
        stream:
          name: globalStream
          at: end
`)
	return sb.String()
}

// ---- registered side ---------------------------------------------------------------------------

type registration struct {
	ManageAll bool
	Exprs     []string
	compiled  []*regexp.Regexp // nil entry = does not compile
}

func (g *registration) compile() {
	sort.Strings(g.Exprs)
	g.compiled = make([]*regexp.Regexp, len(g.Exprs))
	for i, e := range g.Exprs {
		g.compiled[i], _ = regexp.Compile(e)
	}
}

// managed evaluates haproxy.cfg's is_managed acl for the sample "METHOD:::URL".
func (g *registration) managed(sample string) bool {
	if g.ManageAll {
		return true
	}
	for _, re := range g.compiled {
		if re != nil && re.MatchString(sample) {
			return true
		}
	}
	return false
}

// flowsRegistration mirrors the loop of routing.(*HandlingDataManager).buildHAProxyFlowsEndpointsRequest
// over the real Stream.GetSupportedFilters(), calling the real HaproxyEndpointFormat,
// GetSupportedMethods and IsAnyURLAccepted.
func flowsRegistration(env *sim.StreamEnv) *registration {
	g := &registration{}
	for _, filters := range env.Stream.GetSupportedFilters() {
		if len(filters) == 0 {
			continue
		}
		for _, f := range filters {
			g.ManageAll = g.ManageAll || f.IsAnyURLAccepted()
		}
		for _, m := range filters[0].GetSupportedMethods() {
			d := config.HaproxyEndpointFormat(m, filters[0].GetURL(), &streamtypes.ProcessorRequirement{})
			g.Exprs = append(g.Exprs, d.Endpoint)
		}
	}
	g.compile()
	return g
}

// ---- classification of a refutation ------------------------------------------------------------

var okParamName = regexp.MustCompile(`^[A-Za-z0-9_-]+$`)

func patternFeatures(pat string) (hostParam, hostWild, oddParam, meta bool) {
	host, path, _ := strings.Cut(pat, "/")
	labels := strings.Split(host, ".")
	for i, l := range labels {
		if isParam(l) {
			hostParam = true
		}
		if l == "*" && i == len(labels)-1 && len(labels) > 1 && path == "" {
			hostWild = true
		}
	}
	segs := []string{}
	if path != "" {
		segs = strings.Split(path, "/")
	}
	for i, s := range segs {
		if isParam(s) {
			if !okParamName.MatchString(strings.Trim(s, "{}")) {
				oddParam = true
			}
			continue
		}
		if s == "*" && i == len(segs)-1 {
			continue
		}
		if strings.ContainsAny(s, `+?()[]|$^{}*\`) {
			meta = true
		}
	}
	return
}

// classify names the cause of "engine matched pattern pat for (m,u) but nothing registered matches".
func classify(g *registration, pat string, filterMethods []string, flows bool, m, u string) string {
	ref := sim.ParsePattern(pat).Match(u)
	if ref == sim.No {
		return "engine-overmatch/url"
	}
	if len(filterMethods) > 0 && !contains(filterMethods, m) {
		return "engine-overmatch/method"
	}
	own := config.HaproxyEndpointFormat(m, pat, &streamtypes.ProcessorRequirement{}).Endpoint
	if !contains(g.Exprs, own) {
		if flows && len(filterMethods) == 0 {
			return "method-not-registered/methodless-filter/" + m
		}
		return "method-not-registered/listed-method"
	}
	ownRe, err := regexp.Compile(own)
	if err != nil {
		return "expression-does-not-compile"
	}
	if t := strings.Trim(u, "./"); t != u && ownRe.MatchString(m+":::"+t) {
		return "untrimmed-url/trailing-slash"
	}
	if pat == "*" || pat == ".*" {
		if flows {
			return "catch-all-url-not-manage-all/flows"
		}
		return "catch-all-url-not-manage-all/policy"
	}
	hostParam, hostWild, oddParam, meta := patternFeatures(pat)
	switch {
	case hostParam:
		return "host-param-not-translated"
	case hostWild:
		return "host-wildcard-not-translated"
	case oddParam:
		return "param-name-not-translated"
	case meta:
		return "unescaped-metachar-in-literal"
	}
	shape := "plain"
	if strings.HasSuffix(pat, "/*") {
		shape = "wildcard"
	}
	if strings.Contains(pat, "{") {
		shape += "+param"
	}
	return "other/" + shape
}

func contains(xs []string, x string) bool {
	for _, y := range xs {
		if y == x {
			return true
		}
	}
	return false
}

// ---- one case -----------------------------------------------------------------------------------

type runner struct {
	v    *sim.Verdict
	args sim.Args
	root string
}

func shapeKey(mode, pat string, methods []string, kind string) string {
	hostParam, hostWild, oddParam, meta := patternFeatures(pat)
	dots := strings.Count(strings.SplitN(pat, "/", 2)[0], ".")
	if dots > 3 {
		dots = 3
	}
	params := strings.Count(pat, "/{")
	if params > 2 {
		params = 2
	}
	wild := "none"
	switch {
	case pat == "*":
		wild = "all"
	case strings.HasSuffix(pat, "/*"):
		wild = "path"
	case hostWild:
		wild = "host"
	}
	ms := "listed"
	if len(methods) == 0 {
		ms = "any"
	}
	return fmt.Sprintf("%s/d%d/p%d/w%s/hp%v/op%v/m%v/%s/%s", mode, dots, params, wild, hostParam, oddParam, meta, ms, kind)
}

func (rn *runner) runCase(idx int, c c14case) {
	v := rn.v
	v.Eval(1)
	rp := replay{Case: idx, Seed: rn.args.Seed, Spec: c}
	if c.Mode == "policy" {
		sim.Guard(v, "C14/panic/policy", rp, func() { rn.runPolicy(idx, c) })
		return
	}
	sim.Guard(v, "C14/panic/flows", rp, func() { rn.runFlows(idx, c) })
}

func (rn *runner) report(idx int, c c14case, g *registration, rq reqSpec, selected []string, pat string, fm []string) {
	kind := classify(g, pat, fm, c.Mode == "flows", rq.Method, rq.URL)
	exprs := g.Exprs
	if len(exprs) > 12 {
		exprs = exprs[:12]
	}
	r := rq
	rn.v.Count("unmanaged:"+c.Mode+":"+kind+":"+rq.Kind, 1)
	if os.Getenv("C14_TRACE") != "" {
		fmt.Printf("UNMANAGED %s %s sel=%v pat=%q %s %s [%s of %q]\n", c.Mode, kind, selected, pat, rq.Method, rq.URL, rq.Kind, rq.Of)
	}
	rn.v.Violate("C14/unmanaged/"+kind,
		fmt.Sprintf("%s mode: engine selects %v (pattern %q, methods %v) for %s %s [%s], but manage_all is not registered and none of the %d registered expressions matches %q",
			c.Mode, selected, pat, fm, rq.Method, rq.URL, rq.Kind, len(g.Exprs), rq.Method+":::"+rq.URL),
		replay{Case: idx, Seed: rn.args.Seed, Spec: c, Request: &r, Selected: selected, Exprs: exprs})
}

func (rn *runner) runFlows(idx int, c c14case) {
	v := rn.v
	cfg := sim.Config{Flows: map[string]string{}, Quotas: map[string]string{}}
	byName := map[string]flowSpec{}
	for _, f := range c.Flows {
		cfg.Flows[f.Name+".yaml"] = flowYAML(f)
		byName[f.Name] = f
	}
	env, err := sim.NewStreamEnv(rn.root, cfg)
	if env != nil {
		defer os.RemoveAll(env.FlowsDir + "/..")
	}
	if err != nil {
		v.Count("flows_config_rejected", 1)
		return
	}
	loaded := 0
	for range env.Stream.GetSupportedFilters() {
		loaded++
	}
	if loaded == 0 {
		v.Count("flows_config_rejected", 1)
		return
	}
	g := flowsRegistration(env)
	v.Count("flow_sets", 1)
	v.Count("expressions_registered", len(g.Exprs))
	for i := range g.Exprs {
		if g.compiled[i] == nil {
			v.Count("expressions_not_compiling", 1)
		}
	}
	if g.ManageAll {
		v.Count("manage_all_sets", 1)
	}
	for k, rq := range c.Reqs {
		before := env.Stream.GetFlowInvocations()
		res := env.OnRequest(sim.Txn{ID: fmt.Sprintf("c%d-%d", idx, k), Method: rq.Method, URL: rq.URL})
		if res.Err != nil {
			v.Count("engine_errors", 1)
			continue
		}
		after := env.Stream.GetFlowInvocations()
		var selected []string
		for name, n := range after {
			if n > before[name] {
				selected = append(selected, name)
			}
		}
		sort.Strings(selected)
		v.Count("requests", 1)
		if len(selected) == 0 {
			v.Count("engine_no_match", 1)
			continue
		}
		v.Count("engine_matched", 1)
		sample := rq.Method + ":::" + rq.URL
		f := byName[selected[0]]
		for _, name := range selected { // prefer a flow that the statement itself says must see (m,u)
			c := byName[name]
			if sim.ParsePattern(c.URL).Match(rq.URL) != sim.No && (len(c.Methods) == 0 || contains(c.Methods, rq.Method)) {
				f = c
				break
			}
		}
		if g.managed(sample) {
			v.Count("managed", 1)
			if g.ManageAll {
				v.Count("managed_by_manage_all", 1)
			} else {
				own := false
				for _, name := range selected {
					d := config.HaproxyEndpointFormat(rq.Method, byName[name].URL, &streamtypes.ProcessorRequirement{})
					if re, e := regexp.Compile(d.Endpoint); e == nil && re.MatchString(sample) {
						own = true
					}
				}
				if !own {
					v.Count("managed_only_by_another_filter", 1)
				}
			}
			v.Distinct(shapeKey("flows", f.URL, f.Methods, rq.Kind))
			continue
		}
		v.Distinct(shapeKey("flows", f.URL, f.Methods, rq.Kind))
		rn.report(idx, c, g, rq, selected, f.URL, f.Methods)
	}
	if idx%211 == 0 {
		v.Sample(map[string]any{"case": idx, "flows": c.Flows, "registered": g.Exprs, "manage_all": g.ManageAll, "requests": len(c.Reqs)})
	}
}

func (rn *runner) runPolicy(idx int, c c14case) {
	v := rn.v
	pc := &sharedconfig.PoliciesConfig{}
	for _, e := range c.Endpoints {
		pc.Endpoints = append(pc.Endpoints, sharedconfig.EndpointConfig{
			URL: e.URL, Method: e.Method,
			Remedies: []sharedconfig.Remedy{{Enabled: true, Name: "r-" + e.Method}},
		})
	}
	if c.GlobalRemedy {
		pc.Global.Remedies = []sharedconfig.Remedy{{Enabled: true, Name: "g"}}
	}
	tree, err := config.BuildEndpointPolicyTree(pc.Endpoints)
	if err != nil || tree == nil {
		v.Count("policy_config_rejected", 1)
		return
	}
	hreq := config.BuildHAProxyEndpointsRequest(pc)
	g := &registration{ManageAll: hreq.ManageAll}
	for _, d := range hreq.ManagedEndpoints {
		g.Exprs = append(g.Exprs, d.Endpoint)
	}
	g.compile()
	v.Count("policy_sets", 1)
	v.Count("expressions_registered", len(g.Exprs))
	if g.ManageAll {
		v.Count("manage_all_sets", 1)
	}
	for _, rq := range c.Reqs {
		v.Count("requests", 1)
		lr := tree.Lookup(rq.URL)
		if lr.Value == nil {
			v.Count("engine_no_match", 1)
			continue
		}
		pol, found := (*lr.Value)[urltree.Method(rq.Method)]
		if !found || len(pol.Remedies) == 0 {
			v.Count("engine_no_match", 1)
			continue
		}
		v.Count("engine_matched", 1)
		v.Distinct(shapeKey("policy", pol.URL, []string{rq.Method}, rq.Kind))
		if g.managed(rq.Method + ":::" + rq.URL) {
			v.Count("managed", 1)
			if g.ManageAll {
				v.Count("managed_by_manage_all", 1)
			}
			continue
		}
		rn.report(idx, c, g, rq, []string{rq.Method + " " + pol.URL}, pol.URL, []string{rq.Method})
	}
	if idx%211 == 0 {
		v.Sample(map[string]any{"case": idx, "endpoints": c.Endpoints, "registered": g.Exprs, "manage_all": g.ManageAll, "requests": len(c.Reqs)})
	}
}

func main() {
	args := sim.ParseArgs()
	sim.BaseEnv() // also silences the engine's logger (VERIF_LOG=1 keeps it)
	v := sim.NewVerdict("C14", args.Seed, args.Tier, args.Batch, args.Out)
	v.Rule = "case = 1-3 generated filters/endpoints (host with 1-4 dots, {param} names incl. - _ ., literal segments with regex metacharacters, trailing /*, host.*, '*', method lists incl. empty and HEAD/OPTIONS/PATCH) loaded into the real engine matcher + 10-18 requests derived from each pattern (exact, parameter values with dots/metacharacters, segments under a wildcard, trailing slash, host-only, near misses) x 7 methods; a request is non-trivial iff the ENGINE selected a flow/endpoint for it (only then the oracle has something to demand); distinct by <mode, host dots, #params, wildcard kind, host-param, odd param name, metachar literal, method list empty?, request derivation>"
	v.Assumptions = []string{
		"Go regexp (RE2) stands in for HAProxy's PCRE map_reg on the fragment the translator emits (literals, \\., /[^/]+, (/.*)?, $) and on the un-escaped literals generated here; sequences RE2 and PCRE read differently (++, *+, (?) are not generated",
		"is_managed = manage_all OR unanchored regex search of any endpoints.map key in 'METHOD:::host/path' (haproxy.cfg acl is_managed ... map_reg ... -m found); txn.url is host+path without query, so '?' never occurs in it",
		"flows mode: the set of registered expressions is obtained by running the loop of the unexported routing.buildHAProxyFlowsEndpointsRequest over the real Stream.GetSupportedFilters() with the real HaproxyEndpointFormat / GetSupportedMethods / IsAnyURLAccepted; the unexported wrapper itself and the HTTP PUTs are not exercised (L1 slice pending)",
		"weaker-than-statement acceptance: a matched request is accepted when ANY registered expression of the configuration matches, not only the selected filter's own",
		"engine verdict: flows = user flows whose invocation counter moved during Stream.ExecuteFlow; policy = EndpointPolicyTree.Lookup(url).Value[method] present with an enabled remedy (what runner.getRemedies does)",
	}
	rn := &runner{v: v, args: args, root: sim.ScratchRoot("c14")}
	defer os.RemoveAll(rn.root)

	if args.Replay != "" {
		data, err := os.ReadFile(args.Replay)
		if err != nil {
			v.Inconclude("cannot read replay file: " + err.Error())
			os.Exit(v.Write())
		}
		var wrap struct {
			Replay replay `json:"replay"`
		}
		if err := json.Unmarshal(data, &wrap); err != nil || wrap.Replay.Spec.Mode == "" {
			var rp replay
			if err2 := json.Unmarshal(data, &rp); err2 != nil || rp.Spec.Mode == "" {
				v.Inconclude("cannot parse replay file")
				os.Exit(v.Write())
			}
			wrap.Replay = rp
		}
		spec := wrap.Replay.Spec
		if wrap.Replay.Request != nil {
			spec.Reqs = []reqSpec{*wrap.Replay.Request}
		}
		fmt.Printf("replay case %d\n", wrap.Replay.Case)
		rn.runCase(wrap.Replay.Case, spec)
		os.Exit(v.Write())
	}

	total := args.Pick(2400, 100000) // even case index = flows mode, odd = policy mode
	lo, hi := args.Share(total)
	for i := lo; i < hi; i++ {
		r := args.CaseRand(i)
		c := genCase(r, i%2 == 1)
		rn.runCase(i, c)
	}
	if v.Counters["engine_matched"] == 0 {
		v.Inconclude("the engine matched no request in this batch: nothing to demand")
	}
	os.Exit(v.Write())
}
