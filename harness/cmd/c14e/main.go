// C14 (L1 slice) - what the real engine registers with the (fake) HAProxy for a loaded flow set
// covers every METHOD:::URL the same engine matches to one of those flows.
//
// The real HandlingDataManager loads generated flow files (POST /load_flows); the fake HAProxy
// records every PUT /managed_endpoint body and PUT /manage_all the engine sends (this exercises the
// unexported buildHAProxyFlowsEndpointsRequest); requests are then pushed through routing.Handler and
// the flows that ran are read from the processor-executed hook events.
package main

import (
	"fmt"
	"os"
	"regexp"
	"strings"
	"time"

	"verif/harness/sim"
)

type flowSpec struct {
	Name    string   `json:"name"`
	URL     string   `json:"url"`
	Methods []string `json:"methods,omitempty"`
}

type replay struct {
	Case       int        `json:"case"`
	Seed       uint64     `json:"seed"`
	Flows      []flowSpec `json:"flows"`
	Method     string     `json:"method,omitempty"`
	URL        string     `json:"url,omitempty"`
	Registered []string   `json:"registered,omitempty"`
	Ran        []string   `json:"flows_that_ran,omitempty"`
}

var hosts = []string{"api.com", "a.b-c.io", "graph.cdn.com"}
var lits = []string{"users", "v1", "$batch", "report(1)", "a+b", "x.y", "items[0]", "q|r", "me", "Accounts", "Messages.json", "V4"}

func genFlows(r *sim.Rand) []flowSpec {
	n := r.Range(1, 3)
	var out []flowSpec
	used := map[string]bool{}
	for i := 0; i < n; i++ {
		parts := []string{sim.Pick(r, hosts)}
		d := r.Range(0, 3)
		for j := 0; j < d; j++ {
			if r.Chance(1, 4) {
				parts = append(parts, []string{"{id}", "{user_id}", "{k}"}[j%3])
			} else {
				parts = append(parts, sim.Pick(r, lits))
			}
		}
		if r.Chance(1, 3) {
			parts = append(parts, "*")
		}
		u := strings.Join(parts, "/")
		if r.Chance(1, 25) {
			u = "*"
		}
		if r.Chance(1, 3) && len(out) > 0 {
			u = out[r.Intn(len(out))].URL // several flows on one URL (other method list): one filter group each
		}
		used[u] = true
		f := flowSpec{Name: fmt.Sprintf("f%d", i), URL: u}
		if r.Chance(1, 2) {
			f.Methods = [][]string{{"GET"}, {"POST", "PUT"}, {"HEAD"}, {"GET", "DELETE", "PATCH"}}[r.Intn(4)]
		}
		out = append(out, f)
	}
	return out
}

func flowYAML(f flowSpec) string {
	m := ""
	if len(f.Methods) > 0 {
		m = "  method: [" + strings.Join(f.Methods, ", ") + "]\n"
	}
	return fmt.Sprintf(`name: %[1]s
filter:
  url: "%[2]s"
%[3]sprocessors:
  p_%[1]s:
    processor: VerifProbe
flow:
  request:
    - from:
        stream:
          name: globalStream
          at: start
      to:
        processor:
          name: p_%[1]s
    - from:
        processor:
          name: p_%[1]s
      to:
        stream:
          name: globalStream
          at: end
  response:
    - from:
        stream:
          name: globalStream
          at: start
      to:
        stream:
          name: globalStream
          at: end
`, f.Name, f.URL, m)
}

func urlsFor(f flowSpec) []string {
	if f.URL == "*" {
		return []string{"any.org/x", "api.com"}
	}
	segs := strings.Split(f.URL, "/")
	wild := segs[len(segs)-1] == "*"
	if wild {
		segs = segs[:len(segs)-1]
	}
	var conc []string
	for _, s := range segs {
		if strings.HasPrefix(s, "{") {
			conc = append(conc, "v.7")
		} else {
			conc = append(conc, s)
		}
	}
	base := strings.Join(conc, "/")
	out := []string{base}
	if wild {
		out = append(out, base+"/z", base+"/z/w")
	}
	return out
}

func main() {
	sim.ReexecWithEngineEnv(true)
	args := sim.ParseArgs()
	v := sim.NewVerdict("C14", args.Seed, args.Tier, args.Batch, args.Out)
	v.Rule = "L1 slice: case = 1-3 generated flow files (hosts with dots/dashes, literal segments with regex metacharacters, {parameters}, trailing wildcard, '*', method lists or none) loaded into the real engine through POST /load_flows; requests derived from every pattern x the standard methods; non-trivial iff the engine ran a flow for the request; distinct by <pattern kinds, method list?, #registered expressions>"
	v.Assumptions = []string{
		"registered expressions are evaluated with Go regexp as an unanchored search on METHOD:::URL (stand-in for HAProxy's PCRE map_reg)",
		"HEAD/OPTIONS on method-less filters and URLs with a trailing slash are left to the L2 part (open findings there)",
	}
	eng, err := sim.BootEngine(sim.Config{Flows: map[string]string{}, Quotas: map[string]string{}})
	if err != nil {
		v.Inconclude("engine did not boot: " + err.Error())
		os.Exit(v.Write())
	}
	// from here on the engine's clock is virtual: the sleepers that un-register endpoints after the retention
	// period (30 s) only run when this program fires them, never in the middle of a later case
	vclk := sim.NewVClock(time.Now())
	sim.UseClock(vclk)
	total := args.Pick(160, 2400)
	lo, hi := args.Share(total)
	for i := lo; i < hi; i++ {
		r := args.CaseRand(i + 50000)
		flows := genFlows(r)
		cfg := sim.Config{Flows: map[string]string{}, Quotas: map[string]string{}}
		for _, f := range flows {
			cfg.Flows[f.Name+".yaml"] = flowYAML(f)
		}
		v.Eval(1)
		sim.WriteConfDir(cfg)
		eng.HAProxy.Reset()
		if i%5 == 2 {
			// HAProxy refuses one registration during this load: if the load still reports success, everything
			// the engine runs flows for must be registered all the same
			eng.HAProxy.FailOnce("PUT /managed_endpoint", r.Intn(3))
			v.Count("loads_with_one_refused_registration", 1)
		}
		code, body := eng.Admin("POST", "/load_flows", nil)
		eng.HAProxy.FailOnce("", 0)
		if code != 200 {
			v.Count("configs_rejected", 1)
			_ = body
			// leave a loadable configuration behind for the next case
			sim.WriteConfDir(sim.Config{Flows: map[string]string{}, Quotas: map[string]string{}})
			eng.Admin("POST", "/load_flows", nil)
			continue
		}
		manageAll := false
		var exprs []string
		var res []*regexp.Regexp
		for _, q := range eng.HAProxy.Snapshot() {
			switch {
			case strings.HasPrefix(q, "PUT /manage_all"):
				manageAll = true
			case strings.HasPrefix(q, "PUT /managed_endpoint "):
				e := strings.TrimPrefix(q, "PUT /managed_endpoint ")
				exprs = append(exprs, e)
				if re, err := regexp.Compile(e); err == nil {
					res = append(res, re)
				} else {
					v.Count("registered_expressions_not_compiling", 1)
				}
			}
		}
		v.Count("registered_expressions", len(exprs))
		if manageAll {
			v.Count("manage_all_registered", 1)
		}
		for _, f := range flows {
			for _, u := range urlsFor(f) {
				for _, m := range []string{"GET", "POST", "PUT", "DELETE", "PATCH"} {
					sim.GlobalSink.Drain()
					eng.SendRequest(sim.Txn{ID: fmt.Sprintf("c%d-%s-%s", i, m, u), Method: m, URL: u, Headers: map[string]string{}})
					ran := map[string]bool{}
					for _, e := range sim.GlobalSink.Drain() {
						if e.Kind == "proc" {
							ran[e.Args[0]] = true
						}
					}
					v.Count("requests", 1)
					if len(ran) == 0 {
						continue
					}
					v.Count("engine_matched", 1)
					ok := manageAll
					for _, re := range res {
						if re.MatchString(m + ":::" + u) {
							ok = true
							break
						}
					}
					if !ok {
						kind := "literal"
						if strings.Contains(f.URL, "{") {
							kind = "param"
						}
						if strings.HasSuffix(f.URL, "*") {
							kind += "+wildcard"
						}
						ml := "methodless"
						if len(f.Methods) > 0 {
							ml = "method-list"
						}
						v.Violate(fmt.Sprintf("C14/l1/unmanaged/%s/%s", kind, ml),
							fmt.Sprintf("the engine ran %v for %s %s, but it registered neither manage_all nor an expression matching %q (registered: %v)", sim.SortedKeys(ran), m, u, m+":::"+u, exprs),
							replay{Case: i, Seed: args.Seed, Flows: flows, Method: m, URL: u, Registered: exprs, Ran: sim.SortedKeys(ran)})
					}
				}
			}
		}
		// ---- the same flows loaded again (an ordinary reload), then the retention period passes: what the
		// engine schedules for un-registration must not include expressions the loaded flows still need
		if i%3 == 0 {
			// sleepers scheduled by the switch from the previous case's flows to this case's are dropped: only the
			// reload of the SAME flows is under test here
			for _, p := range vclk.Pending() {
				vclk.Drop(p.ID)
			}
			variant := "same-flows-again"
			if i%6 == 3 && len(flows) > 0 {
				// an endpoint is taken out and put back within the retention period: flows without f0, then all flows again
				variant = "a-flow-removed-and-restored-within-the-retention-period"
				cfg2 := sim.Config{Flows: map[string]string{}, Quotas: map[string]string{}}
				for _, f := range flows[1:] {
					cfg2.Flows[f.Name+".yaml"] = flowYAML(f)
				}
				sim.WriteConfDir(cfg2)
				eng.Admin("POST", "/load_flows", nil)
				sim.WriteConfDir(cfg)
			}
			code, _ := eng.Admin("POST", "/load_flows", nil)
			if code == 200 {
				time.Sleep(3 * time.Millisecond) // the sleepers are started as goroutines by the reload
				for _, p := range vclk.Pending() {
					vclk.Fire(p.ID)
				}
				// the sleepers issue their DELETEs over loopback HTTP: wait until the request log is stable
				stable, last := 0, -1
				for w := 0; w < 400 && stable < 10; w++ {
					n := len(eng.HAProxy.Snapshot())
					if n == last {
						stable++
					} else {
						stable, last = 0, n
					}
					time.Sleep(500 * time.Microsecond)
				}
				registered := map[string]bool{}
				all := false
				deleted := 0
				for _, q := range eng.HAProxy.Snapshot() {
					switch {
					case strings.HasPrefix(q, "PUT /manage_all"):
						all = true
					case strings.Contains(q, " /unmanage_all"), strings.Contains(q, " /unmanage_global"):
						all = false
					case strings.HasPrefix(q, "PUT /managed_endpoint "):
						registered[strings.TrimPrefix(q, "PUT /managed_endpoint ")] = true
					case strings.HasPrefix(q, "DELETE /managed_endpoint "):
						delete(registered, strings.TrimPrefix(q, "DELETE /managed_endpoint "))
						deleted++
					}
				}
				v.Count("reloads_followed_by_the_retention_period:"+variant, 1)
				v.Count("expressions_unregistered_after_retention", deleted)
				var res2 []*regexp.Regexp
				for e := range registered {
					if re, err := regexp.Compile(e); err == nil {
						res2 = append(res2, re)
					}
				}
			recheck:
				for _, f := range flows {
					for _, u := range urlsFor(f) {
						for _, m := range []string{"GET", "POST", "PUT", "DELETE", "PATCH"} {
							sim.GlobalSink.Drain()
							eng.SendRequest(sim.Txn{ID: fmt.Sprintf("c%d-again-%s-%s", i, m, u), Method: m, URL: u, Headers: map[string]string{}})
							ran := map[string]bool{}
							for _, e := range sim.GlobalSink.Drain() {
								if e.Kind == "proc" {
									ran[e.Args[0]] = true
								}
							}
							if len(ran) == 0 {
								continue
							}
							ok := all
							for _, re := range res2 {
								if re.MatchString(m + ":::" + u) {
									ok = true
									break
								}
							}
							if !ok {
								v.Violate("C14/l1/unmanaged/after-reload-and-retention-period/"+variant,
									fmt.Sprintf("reload variant %s; when the retention period had passed the engine un-registered %d expressions, among them the ones %s %s needs: the engine still runs %v for it, but nothing registered matches %q any more (left: %v)", variant, deleted, m, u, sim.SortedKeys(ran), m+":::"+u, sim.SortedKeys(registered)),
									replay{Case: i, Seed: args.Seed, Flows: flows, Method: m, URL: u, Registered: sim.SortedKeys(registered), Ran: sim.SortedKeys(ran)})
								break recheck
							}
						}
					}
				}
			}
		}
		kinds := map[string]bool{}
		for _, f := range flows {
			k := "lit"
			if strings.Contains(f.URL, "{") {
				k = "param"
			}
			if strings.HasSuffix(f.URL, "*") {
				k += "+w"
			}
			if len(f.Methods) > 0 {
				k += "+m"
			}
			kinds[k] = true
		}
		v.Distinct(fmt.Sprintf("l1/%v/e%d/all=%v", sim.SortedKeys(kinds), len(exprs), manageAll))
		if i%41 == 0 {
			v.Sample(replay{Case: i, Seed: args.Seed, Flows: flows, Registered: exprs})
		}
	}
	if v.Counters["engine_matched"] == 0 {
		v.Inconclude("the engine never matched a request in this batch")
	}
	os.Exit(v.Write())
}
