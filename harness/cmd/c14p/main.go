// C14 (policy mode, histories of updates) - what the CURRENT policies need stays registered with HAProxy through
// any history of successful updates, updates rejected by HAProxy's management API, and retention periods.
//
// Real config.TxnPoliciesAccessor on a virtual clock against the fake management API. Every policies version
// declares a subset of five endpoints. An update that drops an endpoint schedules its un-registration 30 s
// later; endpoints may come back before that, and an update may be rejected in between (one PUT refused, or the
// API down). After every operation - and after every sleeper that came due - each endpoint of the policies that
// are current must be matched by an expression the management API accepted and has not been asked to delete.
package main

import (
	"fmt"
	"os"
	"regexp"
	"sort"
	"strings"
	"time"

	"lunar/engine/config"
	sharedConfig "lunar/shared-model/config"

	"verif/harness/sim"
)

const tick = 5 * time.Second

var t0 = time.Date(2030, 1, 1, 0, 0, 0, 0, time.UTC)

type op struct {
	K   string `json:"k"` // upd | updF (one PUT refused) | updD (API down) | adv
	Set []int  `json:"endpoints,omitempty"`
	D   int64  `json:"d_ms,omitempty"`
}

type replay struct {
	Case int      `json:"case"`
	Seed uint64   `json:"seed"`
	Ops  []op     `json:"ops"`
	Log  []string `json:"log,omitempty"`
}

// urlOf: hosts are private to a case, so nothing a previous case left in the engine's package-level bookkeeping
// can stand in for (or against) this case's endpoints.
var caseTag = "c0"

func urlOf(i int) string {
	if i == star {
		return "*" // an endpoint on every URL: the proxy is told to manage all traffic
	}
	return fmt.Sprintf("p%d-%s.com/v1/x", i, caseTag)
}

const star = 5

func policies(set []int) *config.PoliciesData {
	c := &sharedConfig.PoliciesConfig{}
	for _, i := range set {
		c.Endpoints = append(c.Endpoints, sharedConfig.EndpointConfig{URL: urlOf(i), Method: "GET",
			Remedies: []sharedConfig.Remedy{{Name: fmt.Sprintf("r%d", i), Enabled: true,
				Config: sharedConfig.RemedyConfig{FixedResponse: &sharedConfig.FixedResponseConfig{StatusCode: 418}}}}})
	}
	d, err := config.BuildPolicyData(c, false)
	if err != nil {
		panic(err)
	}
	return d
}

func main() {
	sim.ReexecWithEngineEnv(false)
	args := sim.ParseArgs()
	sim.Quiet()
	v := sim.NewVerdict("C14", args.Seed, args.Tier, args.Batch, args.Out)
	v.Rule = "policy-mode slice: case = history of policy updates over subsets of five endpoints (successful, rejected because one PUT is refused, rejected because the management API is down) and virtual clock advances across the 30 s retention period, against the real TxnPoliciesAccessor and a fake management API; after every step each endpoint of the current policies must be matched by an accepted, not deleted expression; non-trivial iff an endpoint was dropped and restored within a retention period; distinct by <#rejected, restored-within-retention?, rejected-between?>"
	v.Assumptions = []string{"registered = expressions the fake management API answered 200 for (PUT) and was not asked to DELETE since; an update is rejected iff UpdatePoliciesData returns an error"}
	ha := sim.StartFakeHAProxy()
	total := args.Pick(160, 3000)
	lo, hi := args.Share(total)
	for i := lo; i < hi; i++ {
		r := args.CaseRand(8_000_000 + i)
		subset := func() []int {
			var s []int
			for e := 0; e < 5; e++ {
				if r.Chance(3, 5) {
					s = append(s, e)
				}
			}
			if r.Chance(1, 5) {
				s = append(s, star)
			}
			if len(s) == 0 {
				s = []int{r.Intn(5)}
			}
			return s
		}
		var ops []op
		n := r.Range(5, 12)
		for k := 0; k < n; k++ {
			switch x := r.Intn(10); {
			case x < 4:
				ops = append(ops, op{K: "upd", Set: subset()})
			case x < 6:
				ops = append(ops, op{K: sim.Pick(r, []string{"updF", "updF", "updD"}), Set: subset()})
			default:
				ops = append(ops, op{K: "adv", D: sim.Pick(r, []int64{1000, 6000, 12000, 24000, 29000, 31000, 45000})})
			}
		}
		if i%2 == 0 {
			// the scripted shape: e0 dropped, restored within the retention period, then a rejected update without
			// it, then the retention period of the first drop runs out
			ops = append(ops, op{K: "upd", Set: []int{0, 1}}, op{K: "upd", Set: []int{1}}, op{K: "adv", D: int64(r.Range(1, 20)) * 1000},
				op{K: "upd", Set: []int{0, 1}}, op{K: sim.Pick(r, []string{"updF", "updD"}), Set: []int{1, 2, 3}}, op{K: "adv", D: 31000})
		}
		runCase(v, ha, replay{Case: i, Seed: args.Seed, Ops: ops})
	}
	if v.Counters["endpoints_restored_within_the_retention_period"] == 0 {
		v.Inconclude("no endpoint was restored within a retention period in this batch")
	}
	os.Exit(v.Write())
}

func registered(ha *sim.FakeHAProxy) (map[string]bool, bool) {
	reg, all := map[string]bool{}, false
	for _, q := range ha.Snapshot() {
		switch {
		case strings.HasPrefix(q, "PUT /manage_all"):
			all = true
		case strings.Contains(q, " /unmanage_all"), strings.Contains(q, " /unmanage_global"):
			all = false
		case strings.HasPrefix(q, "PUT /managed_endpoint "):
			reg[strings.TrimPrefix(q, "PUT /managed_endpoint ")] = true
		case strings.HasPrefix(q, "DELETE /managed_endpoint "):
			delete(reg, strings.TrimPrefix(q, "DELETE /managed_endpoint "))
		}
	}
	return reg, all
}

// settle waits until the fake API's request log has been stable for a short while (the un-registration sleepers
// issue their requests from their own goroutines over loopback HTTP). Waiting too short can only hide a DELETE.
func settle(ha *sim.FakeHAProxy) {
	stable, last := 0, -1
	for w := 0; w < 400 && stable < 12; w++ {
		n := len(ha.Snapshot())
		if n == last {
			stable++
		} else {
			stable, last = 0, n
		}
		time.Sleep(400 * time.Microsecond)
	}
}

func runCase(v *sim.Verdict, ha *sim.FakeHAProxy, rp replay) {
	v.Eval(1)
	caseTag = fmt.Sprintf("c%d", rp.Case)
	clk := sim.NewVClock(t0)
	sim.UseClock(clk)
	ha.FailWith(0)
	ha.FailOnce("", 0)
	ha.Reset()
	cur := []int{0}
	acc := config.NewTxnPoliciesAccessor(policies(nil))
	if err := acc.UpdatePoliciesData(policies(cur), false); err != nil {
		v.Inconclude("harness: the first update was rejected: " + err.Error())
		return
	}
	logf := func(f string, a ...any) {
		rp.Log = append(rp.Log, fmt.Sprintf("%7.1fs ", clk.Now().Sub(t0).Seconds())+fmt.Sprintf(f, a...))
	}
	droppedAt := map[int]time.Time{}
	rejected, restored, rejectedBetween := 0, 0, false
	pendingRestore := false
	check := func(when string) bool {
		settle(ha)
		reg, all := registered(ha)
		if all {
			return true
		}
		var res []*regexp.Regexp
		for e := range reg {
			if re, err := regexp.Compile(e); err == nil {
				res = append(res, re)
			}
		}
		for _, e := range cur {
			if e == star {
				continue // nothing individual to register for it
			}
			ok := false
			for _, re := range res {
				if re.MatchString("GET:::" + urlOf(e)) {
					ok = true
					break
				}
			}
			if !ok {
				kind := "other"
				switch {
				case rejectedBetween:
					kind = "restored-within-retention-then-a-rejected-update"
				case restored > 0:
					kind = "restored-within-retention"
				case rejected > 0:
					kind = "after-a-rejected-update"
				}
				left := make([]string, 0, len(reg))
				for x := range reg {
					left = append(left, x)
				}
				sort.Strings(left)
				v.Violate("C14/policy-mode/unmanaged/"+kind, fmt.Sprintf("%s: the current policies declare GET %s but no registered expression matches it any more (registered: %v)", when, urlOf(e), left), rp)
				return false
			}
		}
		return true
	}
	advance := func(d time.Duration) bool {
		target := clk.Now().Add(d)
		for {
			pend := clk.Pending()
			if len(pend) == 0 || pend[0].Deadline.After(target) {
				break
			}
			p := pend[0]
			clk.Set(p.Deadline)
			before := clk.Armed(tick)
			clk.Fire(p.ID)
			if p.D == tick {
				if !clk.WaitArmed(tick, before+1, 8*time.Second) {
					v.Inconclude(fmt.Sprintf("case %d: a vacuum loop did not re-arm", rp.Case))
					return false
				}
				continue
			}
			logf("a sleeper of %v came due", p.D)
			if !check(fmt.Sprintf("after the un-registration scheduled %v earlier came due", p.D)) {
				return false
			}
		}
		clk.Set(target)
		return true
	}
	sim.Guard(v, "C14/panic/policy-mode", rp, func() {
		for _, o := range rp.Ops {
			switch o.K {
			case "adv":
				if !advance(time.Duration(o.D) * time.Millisecond) {
					return
				}
				logf("advanced %d ms", o.D)
			default:
				switch o.K {
				case "updF":
					ha.FailOnce("PUT /managed_endpoint", 0)
				case "updD":
					ha.FailWith(503)
				}
				err := acc.UpdatePoliciesData(policies(o.Set), false)
				ha.FailWith(0)
				ha.FailOnce("", 0)
				if err != nil {
					rejected++
					if pendingRestore {
						rejectedBetween = true
					}
					logf("update to %v rejected: %.50v", o.Set, err)
				} else {
					in := map[int]bool{}
					for _, e := range o.Set {
						in[e] = true
						if at, ok := droppedAt[e]; ok && clk.Now().Sub(at) < 30*time.Second {
							restored++
							pendingRestore = true
							v.Count("endpoints_restored_within_the_retention_period", 1)
						}
						delete(droppedAt, e)
					}
					for _, e := range cur {
						if !in[e] {
							droppedAt[e] = clk.Now()
						}
					}
					cur = o.Set
					logf("update to %v installed", o.Set)
				}
				// let the goroutines the update started reach their sleep
				time.Sleep(300 * time.Microsecond)
			}
			if !check("after " + o.K) {
				return
			}
		}
	})
	v.Count("rejected_updates", rejected)
	if restored > 0 {
		v.Distinct(fmt.Sprintf("rej%d/restored/between=%v", min(rejected, 3), rejectedBetween))
	}
	if rp.Case%97 == 0 {
		v.Sample(rp)
	}
}
