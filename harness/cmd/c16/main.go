// C16 - obfuscation hides every value that is not explicitly excluded.
//
// The real obfuscation.Obfuscator.ObfuscateJSON (cursor notation ".a.b", ".arr[].x", "" = root) and
// the real HARCollector processor (notation "$.request.body<cursor>" / "$.response.body<cursor>",
// captured through a file exporter) are run on generated documents x exclusion sets. Oracle: an
// independent walker written from the statement. A path is a list of components (key | "[]"); an
// exclusion covers a leaf iff its component list is a prefix of the leaf's component list.
package main

import (
	"bytes"
	"crypto/md5"
	"encoding/hex"
	"encoding/json"
	"fmt"
	"os"
	"path/filepath"
	"strconv"
	"strings"
	"sync"
	"sync/atomic"

	"lunar/engine/formats/har"
	harcollector "lunar/engine/streams/processors/har-collector"
	publictypes "lunar/engine/streams/public-types"
	testutils "lunar/engine/streams/test-utils"
	streamtypes "lunar/engine/streams/types"
	"lunar/engine/utils/obfuscation"
	contextmanager "lunar/toolkit-core/context-manager"

	"verif/harness/sim"
)

// ---- paths ------------------------------------------------------------------------------------

const arr = "[]" // the array-element component; keys are generated without '.', '[', ']'

type path []string

func (p path) cursor() string {
	var sb strings.Builder
	for _, c := range p {
		if c == arr || strings.HasPrefix(c, "[") {
			sb.WriteString(c) // "[]" = every element; "[0]", "[*]", ... are written as given and denote no element
		} else {
			sb.WriteString("." + c)
		}
	}
	return sb.String()
}

func (p path) isPrefixOf(q path) bool {
	if len(p) > len(q) {
		return false
	}
	for i := range p {
		if p[i] != q[i] {
			return false
		}
	}
	return true
}

func (p path) isProperSuffixOf(q path) bool {
	if len(p) >= len(q) || len(p) == 0 {
		return false
	}
	off := len(q) - len(p)
	for i := range p {
		if p[i] != q[off+i] {
			return false
		}
	}
	return true
}

func lastKey(p path) string {
	for i := len(p) - 1; i >= 0; i-- {
		if p[i] != arr {
			return p[i]
		}
	}
	return ""
}

func clonePath(p path, extra ...string) path {
	out := make(path, 0, len(p)+len(extra))
	out = append(out, p...)
	return append(out, extra...)
}

// ---- case -------------------------------------------------------------------------------------

type replay struct {
	Case     int      `json:"case"`
	Seed     uint64   `json:"seed"`
	Part     string   `json:"part"`     // random | exhaustive
	Notation string   `json:"notation"` // cursor | har
	Doc      string   `json:"doc"`
	Excl     []path   `json:"exclusions"`                // judged body (cursor: the only one; har: request body)
	ExclResp []path   `json:"exclusions_resp,omitempty"` // har: exclusions given for the response body
	Rendered []string `json:"rendered,omitempty"`
	Output   string   `json:"output,omitempty"`
	Where    string   `json:"where,omitempty"`
}

// ---- oracle -----------------------------------------------------------------------------------

type judge struct {
	v        *sim.Verdict
	rp       replay
	excl     []path              // exclusions that apply to the body under judgement
	other    []path              // har: exclusions of the other body (must not apply)
	harPref  path                // har: components the notation puts in front ("$","request","body")
	rendered []string            // exclusions exactly as handed to the code under test
	hashes   map[string]struct{} // cursor mode: outputs the hasher produced during this call
	seen     map[string]bool     // one violation per signature per body
	hidden   int
	kept     int
	nulls    int
	collide  int // non-excluded leaves whose path (or an ancestor's) is a proper suffix of an exclusion
	types    map[string]bool
}

func (j *judge) violate(sig, detail string, at path) {
	if j.seen[sig] {
		return
	}
	j.seen[sig] = true
	rp := j.rp
	rp.Where = at.cursor()
	j.v.Violate(sig, detail, rp)
}

func covering(excl []path, p path) (path, bool) {
	for _, e := range excl {
		if e.isPrefixOf(p) {
			return e, true
		}
	}
	return nil, false
}

func typeOf(x any) string {
	switch x.(type) {
	case map[string]any:
		return "object"
	case []any:
		return "array"
	case string:
		return "string"
	case json.Number:
		return "number"
	case bool:
		return "boolean"
	case nil:
		return "null"
	}
	return fmt.Sprintf("%T", x)
}

func sameNumber(a, b json.Number) bool {
	if a.String() == b.String() {
		return true
	}
	fa, ea := strconv.ParseFloat(a.String(), 64)
	fb, eb := strconv.ParseFloat(b.String(), 64)
	return ea == nil && eb == nil && fa == fb
}

func verbatimLeaf(in, out any) bool {
	switch x := in.(type) {
	case string:
		y, ok := out.(string)
		return ok && x == y
	case json.Number:
		y, ok := out.(json.Number)
		return ok && sameNumber(x, y)
	case bool:
		y, ok := out.(bool)
		return ok && x == y
	}
	return false
}

func md5hex(b []byte) string {
	h := md5.Sum(b)
	return hex.EncodeToString(h[:])
}

func isHex32(s string) bool {
	if len(s) != 32 {
		return false
	}
	for _, c := range s {
		if !(c >= '0' && c <= '9' || c >= 'a' && c <= 'f') {
			return false
		}
	}
	return true
}

// kept: the subtree lies on or under exclusion e and must be verbatim.
func (j *judge) keptWalk(in, out any, p path, e path) {
	how := "leaf"
	switch {
	case len(e) == 0:
		how = "root-" + j.rp.Notation
	case strings.Contains(e.cursor(), arr):
		how = "array-element"
	case len(e) < len(p):
		how = "subtree"
	}
	switch x := in.(type) {
	case map[string]any:
		y, ok := out.(map[string]any)
		if !ok {
			j.violate("C16/structure-changed/type-under-exclusion", fmt.Sprintf("%s: object became %s", p.cursor(), typeOf(out)), p)
			return
		}
		if len(x) != len(y) {
			j.violate("C16/structure-changed/keys-under-exclusion", fmt.Sprintf("%s: %d keys became %d", p.cursor(), len(x), len(y)), p)
			return
		}
		for _, k := range sim.SortedKeys(x) {
			o, ok := y[k]
			if !ok {
				j.violate("C16/structure-changed/keys-under-exclusion", fmt.Sprintf("%s: key %q missing", p.cursor(), k), p)
				return
			}
			j.keptWalk(x[k], o, clonePath(p, k), e)
		}
	case []any:
		y, ok := out.([]any)
		if !ok {
			j.violate("C16/structure-changed/type-under-exclusion", fmt.Sprintf("%s: array became %s", p.cursor(), typeOf(out)), p)
			return
		}
		if len(x) != len(y) {
			j.violate("C16/structure-changed/array-length", fmt.Sprintf("%s: length %d became %d", p.cursor(), len(x), len(y)), p)
			return
		}
		for i := range x {
			j.keptWalk(x[i], y[i], clonePath(p, arr), e)
		}
	case nil:
		j.nulls++
	default:
		j.kept++
		j.types[typeOf(in)] = true
		if !verbatimLeaf(in, out) {
			j.violate("C16/excluded-value-hashed/"+how,
				fmt.Sprintf("%s %s is covered by exclusion %q (given as %v) but %v became %v", typeOf(in), p.cursor(), e.cursor(), j.rendered, in, out), p)
		}
	}
}

func (j *judge) walk(in, out any, p path) {
	if e, ok := covering(j.excl, p); ok {
		j.keptWalk(in, out, p, e)
		return
	}
	switch x := in.(type) {
	case map[string]any:
		y, ok := out.(map[string]any)
		if !ok {
			j.violate("C16/structure-changed/type", fmt.Sprintf("%s: object became %s", p.cursor(), typeOf(out)), p)
			return
		}
		for _, k := range sim.SortedKeys(x) {
			if _, ok := y[k]; !ok {
				j.violate("C16/structure-changed/missing-key", fmt.Sprintf("%s: key %q missing in the output", p.cursor(), k), p)
				return
			}
		}
		for _, k := range sim.SortedKeys(y) {
			if _, ok := x[k]; !ok {
				j.violate("C16/structure-changed/extra-key", fmt.Sprintf("%s: key %q only in the output", p.cursor(), k), p)
				return
			}
		}
		for _, k := range sim.SortedKeys(x) {
			j.walk(x[k], y[k], clonePath(p, k))
		}
	case []any:
		y, ok := out.([]any)
		if !ok {
			j.violate("C16/structure-changed/type", fmt.Sprintf("%s: array became %s", p.cursor(), typeOf(out)), p)
			return
		}
		if len(x) != len(y) {
			j.violate("C16/structure-changed/array-length", fmt.Sprintf("%s: length %d became %d", p.cursor(), len(x), len(y)), p)
			return
		}
		for i := range x {
			j.walk(x[i], y[i], clonePath(p, arr))
		}
	case nil:
		j.nulls++ // not judged, except that it must stay a leaf
		if t := typeOf(out); t == "object" || t == "array" {
			j.violate("C16/structure-changed/type", fmt.Sprintf("%s: null became %s", p.cursor(), t), p)
		}
	default:
		j.hiddenLeaf(in, out, p)
	}
}

// suffixCollision: p or an ancestor-or-self path of p is a proper component suffix of an exclusion
// (as written in the notation, i.e. including the har prefix components).
func (j *judge) suffixCollision(p path) (path, bool) {
	for _, e := range j.excl {
		full := append(clonePath(j.harPref), e...)
		for n := 1; n <= len(p); n++ {
			if path(p[:n]).isProperSuffixOf(full) {
				return e, true
			}
		}
	}
	return nil, false
}

func (j *judge) hiddenLeaf(in, out any, p path) {
	t := typeOf(in)
	j.hidden++
	j.types[t] = true
	_, coll := j.suffixCollision(p)
	if coll {
		j.collide++
	}
	if ot := typeOf(out); ot == "object" || ot == "array" {
		j.violate("C16/structure-changed/type", fmt.Sprintf("%s: %s became %s", p.cursor(), t, ot), p)
		return
	}
	if verbatimLeaf(in, out) {
		detail := fmt.Sprintf("%s %s = %v is in clear although no exclusion denotes its path or an ancestor's (exclusions given: %v)", t, p.cursor(), in, j.rendered)
		if e, ok := j.suffixCollision(p); ok {
			j.violate("C16/exposed/suffix-match-other-path", detail+fmt.Sprintf("; exclusion %q merely ends with the components of this path", e.cursor()), p)
			return
		}
		for _, e := range j.excl {
			if lk := lastKey(e); lk != "" && lk == lastKey(p) {
				j.violate("C16/exposed/same-name-elsewhere", detail+fmt.Sprintf("; exclusion %q ends in the same field name", e.cursor()), p)
				return
			}
		}
		if _, ok := covering(j.other, p); ok {
			j.violate("C16/exposed/other-body-exclusion", detail+"; an exclusion of the other body (request/response) covers this path", p)
			return
		}
		for _, r := range j.rendered {
			for n := 1; n <= len(p); n++ {
				if c := path(p[:n]).cursor(); strings.Contains(r, c) {
					j.violate("C16/exposed/substring-match-other-path", detail+fmt.Sprintf("; %q occurs inside exclusion %q", c, r), p)
					return
				}
			}
		}
		j.violate("C16/exposed/no-matching-exclusion/"+t, detail, p)
		return
	}
	s, ok := out.(string)
	if !ok {
		j.violate("C16/hidden-leaf-not-hash/"+t, fmt.Sprintf("%s %s = %v became %v (%s), not a hash", t, p.cursor(), in, out, typeOf(out)), p)
		return
	}
	if str, isStr := in.(string); isStr {
		if want := md5hex([]byte(str)); s != want {
			j.violate("C16/hash-mismatch/string", fmt.Sprintf("string %s = %q became %q, the hasher gives %q", p.cursor(), str, s, want), p)
		}
		return
	}
	// numbers and booleans: which textual form is hashed is left open; it must be a hasher output
	if j.hashes != nil {
		if _, ok := j.hashes[s]; !ok {
			j.violate("C16/hidden-leaf-not-hash/"+t, fmt.Sprintf("%s %s = %v became %q which the hasher never produced", t, p.cursor(), in, s), p)
		}
	} else if !isHex32(s) {
		j.violate("C16/hidden-leaf-not-hash/"+t, fmt.Sprintf("%s %s = %v became %q which is not an MD5 hex digest", t, p.cursor(), in, s), p)
	}
}

func decode(s string) (any, error) {
	d := json.NewDecoder(strings.NewReader(s))
	d.UseNumber()
	var x any
	if err := d.Decode(&x); err != nil {
		return nil, err
	}
	return x, nil
}

// ---- code under test --------------------------------------------------------------------------

type recHasher struct{ out map[string]struct{} }

func (h *recHasher) HashBytes(raw []byte) string {
	s := md5hex(raw)
	h.out[s] = struct{}{}
	return s
}

type capture struct{ last []byte }

func (c *capture) Write(b []byte) (int, error) {
	c.last = append(c.last[:0], b...)
	return len(b), nil
}
func (c *capture) Close() error { return nil }

var exporter = &capture{}

// runHAR: the last of `transactions` identical transactions through ONE processor instance is returned.
func runHAR(reqBody, respBody string, exclusions []string, transactions int) (string, string, error) {
	exclusions = append([]string{}, exclusions...)
	params := map[string]streamtypes.ProcessorParam{
		"exporter_id":                {Name: "exporter_id", Value: publictypes.NewParamValue("verif")},
		"transaction_max_size_bytes": {Name: "transaction_max_size_bytes", Value: publictypes.NewParamValue(1 << 30)},
		"obfuscate_enabled":          {Name: "obfuscate_enabled", Value: publictypes.NewParamValue(true)},
		"obfuscate_exclusions":       {Name: "obfuscate_exclusions", Value: publictypes.NewParamValue(exclusions)},
	}
	proc, err := harcollector.NewProcessor(&streamtypes.ProcessorMetaData{Name: "har", Parameters: params})
	if err != nil {
		return "", "", fmt.Errorf("NewProcessor: %w", err)
	}
	stream := testutils.NewMockAPIStreamFull(publictypes.StreamTypeResponse, "POST", "https://a.com/x",
		map[string]string{"content-type": "application/json"}, map[string]string{"content-type": "application/json"},
		reqBody, respBody, 200)
	for t := 0; t < transactions; t++ {
		exporter.last = exporter.last[:0]
		if _, err := proc.Execute("flow", stream); err != nil {
			return "", "", fmt.Errorf("Execute: %w", err)
		}
	}
	i := bytes.IndexByte(exporter.last, ' ')
	if len(exporter.last) == 0 || i < 0 {
		return "", "", fmt.Errorf("nothing was exported")
	}
	var h har.HAR
	if err := json.Unmarshal(exporter.last[i+1:], &h); err != nil || len(h.Log.Entries) != 1 {
		return "", "", fmt.Errorf("exported record is not a HAR with one entry: %v", err)
	}
	rq, ok1 := h.Log.Entries[0].Request.Body.(string)
	rs, ok2 := h.Log.Entries[0].Response.Content.(string)
	if !ok1 || !ok2 {
		return "", "", fmt.Errorf("exported bodies are not strings")
	}
	return rq, rs, nil
}

func render(excl []path, prefix string) []string {
	out := make([]string, 0, len(excl))
	for _, e := range excl {
		out = append(out, prefix+e.cursor())
	}
	return out
}

type stats struct {
	hidden, kept, collide, nulls int
	types                        map[string]bool
}

func judgeBody(v *sim.Verdict, rp replay, doc any, outStr string, excl, other []path, harPref path, rendered []string, hashes map[string]struct{}) stats {
	rp.Output = outStr
	rp.Rendered = rendered
	j := &judge{v: v, rp: rp, excl: excl, other: other, harPref: harPref, rendered: rendered, hashes: hashes,
		seen: map[string]bool{}, types: map[string]bool{}}
	out, err := decode(outStr)
	if err != nil {
		j.violate("C16/structure-changed/output-not-json", fmt.Sprintf("output %q does not parse: %v", outStr, err), nil)
		return stats{types: j.types}
	}
	j.walk(doc, out, nil)
	return stats{j.hidden, j.kept, j.collide, j.nulls, j.types}
}

// runCase executes one (document, exclusions) pair in the given notation and judges it.
func runCase(v *sim.Verdict, rp replay) {
	v.Eval(1)
	doc, err := decode(rp.Doc)
	if err != nil {
		v.Inconclude("generator produced an unparsable document: " + err.Error())
		return
	}
	var st stats
	sim.Guard(v, "C16/panic/"+rp.Notation, rp, func() {
		switch rp.Notation {
		case "cursor":
			h := &recHasher{out: map[string]struct{}{}}
			rendered := render(rp.Excl, "")
			out, err := obfuscation.Obfuscator{Hasher: h}.ObfuscateJSON(rp.Doc, rendered)
			if err != nil {
				v.Violate("C16/error/valid-json-rejected", fmt.Sprintf("ObfuscateJSON(%q) = %v", rp.Doc, err), rp)
				return
			}
			st = judgeBody(v, rp, doc, out, rp.Excl, nil, nil, rendered, h.out)
		case "har":
			reqR := render(rp.Excl, "$.request.body")
			respR := render(rp.ExclResp, "$.response.body")
			// the order in which the exclusions are listed and the number of transactions the one processor has
			// already exported are the user's and the traffic's business: both vary with the case
			hdr := []string{`$.request.headers["x-keep"]`}
			var all []string
			switch len(rp.Doc) % 4 {
			case 0:
				all = append(append(append(all, reqR...), respR...), hdr...)
			case 1:
				all = append(append(append(all, respR...), reqR...), hdr...)
			case 2:
				all = append(append(append(all, hdr...), respR...), reqR...)
			default:
				for i := 0; i < len(reqR) || i < len(respR); i++ {
					if i < len(respR) {
						all = append(all, respR[i])
					}
					if i < len(reqR) {
						all = append(all, reqR[i])
					}
				}
				all = append(all, hdr...)
			}
			transactions := 1 + (len(rp.Doc)/4)%3
			v.Count(fmt.Sprintf("har_exports_judged_as_transaction_%d_of_one_processor", transactions), 1)
			rq, rs, err := runHAR(rp.Doc, rp.Doc, all, transactions)
			if err != nil {
				v.Violate("C16/har/no-export", err.Error(), rp)
				return
			}
			st = judgeBody(v, rp, doc, rq, rp.Excl, rp.ExclResp, path{"$", "request", "body"}, all, nil)
			rp2 := rp
			rp2.Where = "response body"
			s2 := judgeBody(v, rp2, doc, rs, rp.ExclResp, rp.Excl, path{"$", "response", "body"}, all, nil)
			st.hidden += s2.hidden
			st.kept += s2.kept
			st.collide += s2.collide
			for t := range s2.types {
				st.types[t] = true
			}
			v.Count("har_exports", 1)
		}
	})
	if st.types == nil {
		return
	}
	v.Count("leaves_hidden", st.hidden)
	v.Count("leaves_kept_verbatim", st.kept)
	v.Count("leaves_null_not_judged", st.nulls)
	v.Count("suffix_collision_leaves", st.collide)
	v.Count("cases_"+rp.Notation, 1)
	if st.hidden > 0 && st.kept > 0 {
		ts := sim.SortedKeys(st.types)
		arrExcl, deepExcl := false, false
		all := append(append([]path{}, rp.Excl...), rp.ExclResp...)
		for _, e := range all {
			arrExcl = arrExcl || strings.Contains(e.cursor(), arr)
			deepExcl = deepExcl || len(e) >= 3
		}
		v.Distinct(fmt.Sprintf("%s/%s/depth%d/arrays%d/excl%d/arr%v/deep%v/coll%v/%v", rp.Part, rp.Notation, depthOf(doc), bucket(countArrays(doc)),
			bucket(len(all)), arrExcl, deepExcl, st.collide > 0, ts))
	}
}

func bucket(n int) int {
	if n > 3 {
		return 3
	}
	return n
}

func depthOf(x any) int {
	d := 0
	switch t := x.(type) {
	case map[string]any:
		for _, c := range t {
			if k := depthOf(c) + 1; k > d {
				d = k
			}
		}
		if d == 0 {
			d = 1
		}
	case []any:
		for _, c := range t {
			if k := depthOf(c) + 1; k > d {
				d = k
			}
		}
		if d == 0 {
			d = 1
		}
	}
	return d
}

func countArrays(x any) int {
	n := 0
	switch t := x.(type) {
	case map[string]any:
		for _, c := range t {
			n += countArrays(c)
		}
	case []any:
		n = 1
		for _, c := range t {
			n += countArrays(c)
		}
	}
	return n
}

// ---- random workload --------------------------------------------------------------------------

var keyPool = []string{"a", "b", "id", "user", "A", "name", "items", "body", "request", "x", "ID"}

var strPool = []string{"", "s", "Alice", "12345", "héllo wörld", "日本語", "emoji 😀", "a\"quote\\back", "line\nbreak\ttab", "<tag>&amp;",
	".a.b", "$.request.body.id", "true", "null", "d41d8cd98f00b204e9800998ecf8427e", " sep", "\x00nul"}

var numPool = []string{"0", "1", "-1", "7", "10", "10.9", "10.999", "-0.0", "1e3", "1E-7", "3.14159265358979", "1e308", "-1.5e300",
	"12345678901234567890", "123456789012345678901234567890", "9007199254740993", "0.1", "2.50", "100"}

func genScalar(r *sim.Rand) any {
	switch r.Intn(10) {
	case 0, 1, 2, 3:
		if r.Chance(1, 3) {
			return fmt.Sprintf("v%d", r.Intn(1000))
		}
		return sim.Pick(r, strPool)
	case 4, 5, 6:
		return json.Number(sim.Pick(r, numPool))
	case 7, 8:
		return r.Bool()
	}
	return nil
}

func genDoc(r *sim.Rand, depth int, keys []string) any {
	if depth == 0 || r.Chance(1, 4) {
		return genScalar(r)
	}
	if r.Chance(1, 3) {
		n := r.Intn(4)
		a := make([]any, 0, n)
		homog := r.Bool()
		var first any
		for i := 0; i < n; i++ {
			if homog && i > 0 {
				// same shape with fresh scalars: elements sharing field names
				a = append(a, reshuffle(r, first))
				continue
			}
			first = genDoc(r, depth-1, keys)
			a = append(a, first)
		}
		return a
	}
	n := r.Intn(4)
	if r.Chance(1, 12) {
		n = 0
	}
	o := map[string]any{}
	for i := 0; i < n; i++ {
		o[sim.Pick(r, keys)] = genDoc(r, depth-1, keys)
	}
	return o
}

func reshuffle(r *sim.Rand, x any) any {
	switch t := x.(type) {
	case map[string]any:
		o := map[string]any{}
		for _, k := range sim.SortedKeys(t) {
			o[k] = reshuffle(r, t[k])
		}
		return o
	case []any:
		a := make([]any, len(t))
		for i := range t {
			a[i] = reshuffle(r, t[i])
		}
		return a
	}
	return genScalar(r)
}

// allPaths lists every node path of the document (containers and leaves), deduplicated.
func allPaths(x any, p path, out map[string]path) {
	out[p.cursor()] = clonePath(p)
	switch t := x.(type) {
	case map[string]any:
		for _, k := range sim.SortedKeys(t) {
			allPaths(t[k], clonePath(p, k), out)
		}
	case []any:
		for _, c := range t {
			allPaths(c, clonePath(p, arr), out)
		}
	}
}

func genExclusions(r *sim.Rand, doc any, keys []string) []path {
	m := map[string]path{}
	allPaths(doc, nil, m)
	var nodes []path
	for _, k := range sim.SortedKeys(m) {
		if len(m[k]) > 0 {
			nodes = append(nodes, m[k])
		}
	}
	n := r.Intn(5)
	var out []path
	for i := 0; i < n; i++ {
		kind := r.Intn(12)
		if len(nodes) == 0 && kind < 10 {
			kind = 10
		}
		switch kind {
		case 0, 1, 2, 3: // an existing node: leaf, subtree, array element or its field
			out = append(out, sim.Pick(r, nodes))
		case 4, 5, 6: // last k components equal another node's full path
			p := sim.Pick(r, nodes)
			pre := path{sim.Pick(r, keys)}
			if r.Chance(1, 3) {
				pre = append(pre, arr)
			}
			if r.Chance(1, 4) {
				pre = append(path{sim.Pick(r, keys)}, pre...)
			}
			out = append(out, append(pre, p...))
		case 7, 8: // a deep path with its first component(s) dropped / replaced
			p := sim.Pick(r, nodes)
			if len(p) > 1 {
				out = append(out, clonePath(p[1:]))
			} else {
				out = append(out, path{sim.Pick(r, keys), p[0]})
			}
		case 9: // sibling that does not exist
			p := clonePath(sim.Pick(r, nodes))
			p[len(p)-1] = "zz"
			out = append(out, p)
		case 10: // arbitrary
			k := r.Range(1, 3)
			var p path
			for c := 0; c < k; c++ {
				if r.Chance(1, 4) {
					p = append(p, arr)
				} else {
					p = append(p, sim.Pick(r, keys))
				}
			}
			out = append(out, p)
		case 11: // the whole document (rare)
			if r.Chance(1, 4) {
				out = append(out, path{})
			} else {
				out = append(out, sim.Pick(r, append(nodes, path{"a"})))
			}
		}
	}
	// bracket notations other than "[]": an index, a JSONPath wildcard, a quoted member. The exclusion notation
	// knows "[]" only, so such a component matches no path at all - in particular it does not stand for
	// "every element", which would expose the other elements
	for i := range out {
		if r.Chance(1, 5) {
			for j, c := range out[i] {
				if c == arr {
					q := clonePath(out[i])
					q[j] = sim.Pick(r, []string{"[0]", "[1]", "[*]", "[17]"})
					out[i] = q
					break
				}
			}
		}
	}
	return out
}

func marshalDoc(r *sim.Rand, doc any) string {
	var b []byte
	if r != nil && r.Chance(1, 5) {
		b, _ = json.MarshalIndent(doc, "", "  ")
	} else {
		b, _ = json.Marshal(doc)
	}
	return string(b)
}

func randomCase(args sim.Args, i int) replay {
	r := args.CaseRand(i)
	nk := r.Range(2, len(keyPool))
	keys := keyPool[:nk]
	var doc any
	switch r.Intn(10) {
	case 0:
		doc = genScalar(r)
		if doc == nil {
			doc = "top"
		}
	case 1:
		doc = []any{genDoc(r, 2, keys), genDoc(r, 2, keys)}
	default:
		o := map[string]any{}
		for k := r.Range(1, 4); k > 0; k-- {
			o[sim.Pick(r, keys)] = genDoc(r, r.Range(1, 4), keys)
		}
		doc = o
	}
	rp := replay{Case: i, Seed: args.Seed, Part: "random", Notation: "cursor", Doc: marshalDoc(r, doc)}
	rp.Excl = genExclusions(r, doc, keys)
	if i%2 == 1 {
		rp.Notation = "har"
		rp.ExclResp = genExclusions(r, doc, keys)
	}
	return rp
}

// bigCase: a large document (many keys, long strings) with a few exclusions on existing paths.
func bigCase(args sim.Args, idx, worker, call int) replay {
	r := args.CaseRand(idx*1000 + worker*100 + call)
	keys := keyPool[:r.Range(3, len(keyPool))]
	o := map[string]any{}
	n := r.Range(8, 24)
	for k := 0; k < n; k++ {
		key := fmt.Sprintf("%s%d", sim.Pick(r, keys), k)
		switch r.Intn(3) {
		case 0:
			o[key] = strings.Repeat(fmt.Sprintf("w%d-c%d-%s-", worker, call, key), r.Range(10, 120))
		case 1:
			o[key] = genDoc(r, r.Range(1, 3), keys)
		default:
			o[key] = map[string]any{"id": fmt.Sprintf("secret-w%d-c%d-%d", worker, call, k), "note": strings.Repeat("n", r.Range(50, 800)), "n": k}
		}
	}
	rp := replay{Case: idx, Seed: args.Seed, Part: "concurrent", Notation: "cursor", Doc: marshalDoc(r, o)}
	all := map[string]path{}
	allPaths(o, nil, all)
	ks := sim.SortedKeys(all)
	for e := r.Range(1, 4); e > 0 && len(ks) > 0; e-- {
		rp.Excl = append(rp.Excl, all[sim.Pick(r, ks)])
	}
	return rp
}

func concurrentRound(args sim.Args, v *sim.Verdict, idx int) {
	const workers, calls = 8, 12
	type result struct {
		rp       replay
		out      string
		err      error
		hashes   map[string]struct{}
		rendered []string
		panicked any
	}
	res := make([][]result, workers)
	var wg sync.WaitGroup
	var ready atomic.Int64
	gate := make(chan struct{})
	for w := 0; w < workers; w++ {
		res[w] = make([]result, calls)
		for c := 0; c < calls; c++ {
			res[w][c].rp = bigCase(args, idx, w, c)
		}
		wg.Add(1)
		go func(w int) {
			defer wg.Done()
			if ready.Add(1) == workers {
				close(gate)
			}
			<-gate
			for c := 0; c < calls; c++ {
				x := &res[w][c]
				func() {
					defer func() { x.panicked = recover() }()
					h := &recHasher{out: map[string]struct{}{}}
					x.rendered = render(x.rp.Excl, "")
					x.out, x.err = obfuscation.Obfuscator{Hasher: h}.ObfuscateJSON(x.rp.Doc, x.rendered)
					x.hashes = h.out
				}()
			}
		}(w)
	}
	wg.Wait()
	v.Count("concurrent_rounds", 1)
	for w := range res {
		for c := range res[w] {
			x := res[w][c]
			v.Eval(1)
			v.Count("concurrent_calls_judged", 1)
			x.rp.Where = fmt.Sprintf("concurrent round: worker %d of %d, call %d", w, workers, c)
			if x.panicked != nil {
				v.Violate("C16/panic/concurrent", fmt.Sprint(x.panicked), x.rp)
				return
			}
			if x.err != nil {
				v.Violate("C16/error/valid-json-rejected", fmt.Sprintf("ObfuscateJSON = %v (concurrent calls)", x.err), x.rp)
				return
			}
			doc, err := decode(x.rp.Doc)
			if err != nil {
				continue
			}
			before := len(v.Violations)
			st := judgeBody(v, x.rp, doc, x.out, x.rp.Excl, nil, nil, x.rendered, x.hashes)
			if len(v.Violations) > before {
				return
			}
			v.Count("leaves_hidden", st.hidden)
			v.Count("leaves_kept_verbatim", st.kept)
		}
	}
	v.Distinct(fmt.Sprintf("concurrent/round%d", idx%16))
}

// ---- bounded-exhaustive workload --------------------------------------------------------------

type leafMark struct{}

type shaped struct {
	t      any
	arrays int
}

// enumDocs: documents of depth <= d over keys {a,b} with at most one array (length <= 2).
func enumDocs(d int) []shaped {
	out := []shaped{{leafMark{}, 0}}
	if d == 0 {
		return out
	}
	out = append(out, shaped{map[string]any{}, 0}, shaped{[]any{}, 1})
	sub := enumDocs(d - 1)
	for _, x := range sub {
		out = append(out, shaped{map[string]any{"a": x.t}, x.arrays}, shaped{map[string]any{"b": x.t}, x.arrays})
		for _, y := range sub {
			if x.arrays+y.arrays <= 1 {
				out = append(out, shaped{map[string]any{"a": x.t, "b": y.t}, x.arrays + y.arrays})
			}
		}
	}
	for _, x := range sub {
		if x.arrays > 0 {
			continue
		}
		out = append(out, shaped{[]any{x.t}, 1})
		for _, y := range sub {
			if y.arrays == 0 {
				out = append(out, shaped{[]any{x.t, y.t}, 1})
			}
		}
	}
	return out
}

// fill replaces the leaf marks, in depth-first order, by string / number / boolean values.
func fill(x any, n *int, rot int) any {
	switch t := x.(type) {
	case map[string]any:
		o := map[string]any{}
		for _, k := range sim.SortedKeys(t) {
			o[k] = fill(t[k], n, rot)
		}
		return o
	case []any:
		a := make([]any, len(t))
		for i := range t {
			a[i] = fill(t[i], n, rot)
		}
		return a
	}
	i := *n
	*n++
	switch (i + rot) % 3 {
	case 0:
		return fmt.Sprintf("s%d", i)
	case 1:
		return json.Number(fmt.Sprintf("%d.5", i+1))
	}
	return i%2 == 0
}

func enumPaths(maxLen int) []path {
	out := []path{{}}
	level := []path{{}}
	for l := 0; l < maxLen; l++ {
		var next []path
		for _, p := range level {
			for _, c := range []string{"a", "b", arr} {
				next = append(next, clonePath(p, c))
			}
		}
		out = append(out, next...)
		level = next
	}
	return out
}

func enumSets(paths []path) [][]path {
	sets := [][]path{{}}
	for i := range paths {
		sets = append(sets, []path{paths[i]})
	}
	for i := range paths {
		for k := i + 1; k < len(paths); k++ {
			sets = append(sets, []path{paths[i], paths[k]})
		}
	}
	return sets
}

// ---- main -------------------------------------------------------------------------------------

func main() {
	args := sim.ParseArgs()
	v := sim.NewVerdict("C16", args.Seed, args.Tier, args.Batch, args.Out)
	v.Rule = "case = JSON document x exclusion set x notation (cursor into Obfuscator.ObfuscateJSON with a recording MD5 hasher; '$.request.body..'/'$.response.body..' through the real HARCollector processor, both bodies judged). Part 1 bounded-exhaustive: every document of depth<=2 over keys {a,b} with <=1 array (length<=2), leaves string/number/boolean by position (x3 rotations in thorough), x every set of <=2 exclusion paths of <=3 components over {a,b,[]} (821 sets); cursor notation for all, har notation for every 4th (quick) / every 2nd (thorough). Part 2 random: depth<=5, 2-11 colliding key names (incl. case variants), nested arrays, top-level scalars/arrays, empty containers, unicode/escape strings, big numbers, 0-4 exclusions per body (existing node, suffix-collider, head-dropped, sibling, arbitrary, root). Non-trivial iff at least one leaf had to be hidden AND one had to stay verbatim; distinct by <part, notation, depth, #arrays (0-3+), #exclusions (0-3+), array exclusion?, exclusion of >=3 components?, suffix-collision present?, set of leaf types>"
	v.Assumptions = []string{
		"keys contain no '.', '[' or ']' (the notation cannot express them) and are unique per object",
		"cursor notation: '.key' per object step, '[]' per array step (all elements), '' = whole document; har notation = '$.request.body' or '$.response.body' followed by the cursor notation, as in the repository's tests",
		"an exclusion covers a leaf iff its component list is a prefix of the leaf's component list",
		"verbatim number = same literal or same float64 value; null leaves are not judged (must stay leaves)",
		"hidden string must equal MD5-hex of its bytes; hidden number/boolean must be a string the hasher produced in that call (cursor mode) or an MD5-hex shaped string (har mode): the hashed textual form is left open",
		"'$.request.body' alone is read as 'the whole request body' (reported under its own signature .../root-har)",
	}
	sim.Quiet()
	sim.BaseEnv()
	root := sim.ScratchRoot("c16")
	defer os.RemoveAll(root)
	cfgPath := filepath.Join(root, "gateway_config.yaml")
	if err := os.WriteFile(cfgPath, []byte("allowed_domains: []\n"), 0o644); err != nil {
		panic(err)
	}
	os.Setenv("LUNAR_PROXY_CONFIG", cfgPath)
	contextmanager.Get().WithFileExporter(exporter)

	if args.Replay != "" {
		data, err := os.ReadFile(args.Replay)
		var wrap struct {
			Replay replay `json:"replay"`
		}
		if err == nil {
			err = json.Unmarshal(data, &wrap)
		}
		if err != nil {
			v.Inconclude("cannot read replay file: " + err.Error())
		} else {
			fmt.Printf("replaying case %d (%s/%s) doc=%s\n", wrap.Replay.Case, wrap.Replay.Part, wrap.Replay.Notation, wrap.Replay.Doc)
			runCase(v, wrap.Replay)
		}
		os.Exit(v.Write())
	}

	// part 1: bounded exhaustive
	docs := enumDocs(2)
	sets := enumSets(enumPaths(3))
	rots := args.Pick(1, 3)
	harEvery := args.Pick(4, 2)
	nExh := len(docs) * len(sets) * rots
	lo, hi := args.Share(nExh)
	for i := lo; i < hi; i++ {
		rot := i / (len(docs) * len(sets))
		rem := i % (len(docs) * len(sets))
		di, si := rem/len(sets), rem%len(sets)
		n := 0
		doc := fill(docs[di].t, &n, rot)
		rp := replay{Case: i, Seed: args.Seed, Part: "exhaustive", Notation: "cursor", Doc: marshalDoc(nil, doc), Excl: sets[si]}
		runCase(v, rp)
		if i%harEvery == 0 {
			rp.Notation = "har"
			rp.ExclResp = sets[(si*7+3)%len(sets)]
			runCase(v, rp)
		}
		if i%40009 == 0 {
			v.Sample(rp)
		}
	}
	if args.Batch == 0 {
		v.Count("exhaustive_documents", len(docs))
		v.Count("exhaustive_exclusion_sets", len(sets))
	}
	v.Exhaustive = true
	v.Extra["exhaustive_bound"] = fmt.Sprintf("%d documents x %d exclusion sets x %d leaf-type rotations, cursor notation (har notation sampled 1/%d)", len(docs), len(sets), rots, harEvery)

	// part 2: random
	nRand := args.Pick(60000, 2400000)
	lo, hi = args.Share(nRand)
	for i := lo; i < hi; i++ {
		rp := randomCase(args, i)
		rp.Case = nExh + i
		runCase(v, rp)
		if i%1201 == 0 {
			v.Sample(rp)
		}
	}
	// part 3: concurrent calls (the obfuscator is shared by every transaction the gateway exports). Workers
	// obfuscate large documents of their own at the same time; each output is then judged alone, exactly
	// like a sequential one: what one call returns must not depend on what runs beside it.
	nConc := args.Pick(24, 400)
	lo, hi = args.Share(nConc)
	for i := lo; i < hi; i++ {
		concurrentRound(args, v, nExh+nRand+i)
	}
	if v.Counters["leaves_hidden"] == 0 || v.Counters["leaves_kept_verbatim"] == 0 {
		v.Inconclude("no leaf had to be hidden or none had to stay verbatim in this batch")
	}
	os.Exit(v.Write())
}
