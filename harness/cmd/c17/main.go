// C17 - retries are bounded by the configured number of attempts, per sequence.
//
// flows mode : real streams.Stream, response flow `start -> Filter(status_code_range) -hit-> Retry`,
//
//	observed through the "proc" hook condition and the RetryRequestAction returned.
//
// policy mode: real remedies.RetryPlugin on a virtual clock; retry marker = x-lunar-retry-after in a
//
//	ModifyResponseAction.
//
// Oracle: a per-sequence reference machine written from the statement (used retries / active), kept as
// a SET of admissible states under two conventions for "stray" attempts of a forgotten sequence; a
// history is violating only when no admissible state under any convention explains the observation.
package main

import (
	"encoding/json"
	"fmt"
	"os"
	"strings"
	"time"

	"lunar/engine/actions"
	lunarmsg "lunar/engine/messages"
	"lunar/engine/services/remedies"
	sharedcfg "lunar/shared-model/config"

	"verif/harness/sim"
)

// ---- case description --------------------------------------------------------------------------

type retryCfg struct {
	Mode      string   `json:"mode"` // flows | policy
	Attempts  int      `json:"attempts"`
	CooldownS int      `json:"cooldown_s"`
	Mult      float64  `json:"multiplier"`
	Ranges    [][2]int `json:"ranges"` // flows: exactly one
	// flows mode only: a SECOND Retry processor in the same flow, behind its own status filter (disjoint range)
	Range2    *[2]int `json:"second_processor_range,omitempty"`
	Attempts2 int     `json:"second_processor_attempts,omitempty"`
	// flows mode only: a second user flow with the same filter and the same processor names; both flows run on
	// every response and each Retry processor keeps its own count
	TwoFlows bool `json:"two_flows_with_equal_processor_names,omitempty"`
}

// second returns the configuration as the second processor sees it.
func (c retryCfg) second() retryCfg {
	d := c
	d.Ranges, d.Attempts, d.Range2 = [][2]int{*c.Range2}, c.Attempts2, nil
	return d
}

func (c retryCfg) matches(status int) bool {
	for _, r := range c.Ranges {
		if status >= r[0] && status <= r[1] {
			return true
		}
	}
	return false
}

func (c retryCfg) key() string {
	if c.TwoFlows {
		return fmt.Sprintf("%s/a%d/c%d/m%v/%v+two-flows", c.Mode, c.Attempts, c.CooldownS, c.Mult, c.Ranges)
	}
	if c.Range2 != nil {
		return fmt.Sprintf("%s/a%d/c%d/m%v/%v+second%v/a%d", c.Mode, c.Attempts, c.CooldownS, c.Mult, c.Ranges, *c.Range2, c.Attempts2)
	}
	return fmt.Sprintf("%s/a%d/c%d/m%v/%v", c.Mode, c.Attempts, c.CooldownS, c.Mult, c.Ranges)
}

type event struct {
	Seq    int  `json:"seq"`
	Status int  `json:"status"`
	Stray  bool `json:"stray,omitempty"` // new call of an ended sequence arrives with a fresh txn id
	// the client gives up the retry it was asked for; the id is used again by a new call (txn id == sequence id)
	Abandon bool `json:"abandon,omitempty"`
	GapS    int  `json:"gap_s,omitempty"`   // virtual seconds before this response (policy mode)
	TellS   bool `json:"as_told,omitempty"` // gap = the cool-down the gateway announced for this sequence
	// observations (filled while running)
	TxnID string `json:"txn_id,omitempty"`
	Retry bool   `json:"retry_requested"`
	Cond  string `json:"condition,omitempty"`
}

type replay struct {
	Case   int      `json:"case"`
	Seed   uint64   `json:"seed"`
	Cfg    retryCfg `json:"cfg"`
	Events []event  `json:"events"`
	Note   string   `json:"note,omitempty"`
}

var statuses = []int{200, 429, 500, 503}

var flowRanges = [][2]int{{500, 599}, {429, 429}, {429, 503}, {500, 500}}
var policyRanges = [][][2]int{{{500, 599}}, {{429, 429}, {500, 502}}, {{429, 503}}, {{500, 500}, {503, 503}}}

// ---- reference machine (from the statement) ------------------------------------------------------

// One admissible state of one sequence id.
type seqState struct {
	Active bool // a sequence is in progress (at least one retry was requested and it has not ended)
	Used   int  // retries requested since the sequence started
}

const (
	endNever = iota
	endFailure
	endNonMatching
)

type seqModel struct {
	// states[conv] = set of admissible states; conv 0: a stray attempt of a forgotten sequence starts a
	// fresh sequence; conv 1: a stray attempt of a forgotten sequence is ignored (no retry).
	states  [2]map[seqState]bool
	lastEnd int  // how the most recent sequence of this id ended (for signatures only)
	sinceNM bool // a non-matching response was seen for this id and no failure was observed since (signatures only)
	taintNM bool // a convention was eliminated while sinceNM held (signatures only)
	everRan bool
}

func newSeqModel() *seqModel {
	m := &seqModel{}
	for c := range m.states {
		m.states[c] = map[seqState]bool{{}: true}
	}
	return m
}

// mayForget adds "forgotten" as an admissible state (state expiry is outside the statement).
func (m *seqModel) mayForget() {
	for c := range m.states {
		if len(m.states[c]) > 0 {
			m.states[c][seqState{}] = true
		}
	}
}

// step consumes one observation. It returns "" when some admissible state explains it, otherwise a
// classification of the contradiction.
func (m *seqModel) step(cfg retryCfg, ev event, isNewCall bool) (kind string, stats string) {
	match := cfg.matches(ev.Status)
	wantRetryAll, wantNoRetryAll := true, true // over every admissible state of every convention
	anyState := false
	exhaustedSeen, midSeen, freshSeen := false, false, false
	// a retry was requested in this sequence and it has not ended: a count is being kept for it
	hadActive := false
	for c := range m.states {
		for s := range m.states[c] {
			hadActive = hadActive || s.Active
		}
	}
	var next [2]map[seqState]bool
	for c := range m.states {
		next[c] = map[seqState]bool{}
		for s := range m.states[c] {
			anyState = true
			var allowRetry, allowNoRetry bool
			var afterRetry, afterNoRetry seqState
			switch {
			case !match:
				// outside the conditions: never a retry, the sequence ends
				allowNoRetry, afterNoRetry = true, seqState{}
			case s.Active && s.Used < cfg.Attempts:
				allowRetry, afterRetry = true, seqState{Active: true, Used: s.Used + 1}
				midSeen = true
			case s.Active: // all configured retries were used: failure, sequence forgotten
				allowNoRetry, afterNoRetry = true, seqState{}
				exhaustedSeen = true
			default: // no sequence in progress
				freshSeen = true
				if isNewCall || c == 0 {
					allowRetry, afterRetry = true, seqState{Active: true, Used: 1}
				} else {
					allowNoRetry, afterNoRetry = true, seqState{}
				}
			}
			if !allowRetry {
				wantRetryAll = false
			}
			if !allowNoRetry {
				wantNoRetryAll = false
			}
			if ev.Retry && allowRetry {
				next[c][afterRetry] = true
			}
			if !ev.Retry && allowNoRetry {
				next[c][afterNoRetry] = true
			}
		}
	}
	ok := len(next[0])+len(next[1]) > 0
	for c := range next {
		if len(m.states[c]) > 0 && len(next[c]) == 0 && m.sinceNM {
			m.taintNM = true
		}
	}
	if ok {
		m.states = next
		m.everRan = true
		if !ev.Retry {
			if match {
				m.lastEnd = endFailure
				if exhaustedSeen {
					m.sinceNM = false
				}
			} else {
				m.lastEnd = endNonMatching
				if hadActive {
					// only a sequence that was being counted can leave a count behind (the open flows-mode finding)
					m.sinceNM = true
				}
			}
		}
		switch {
		case !match:
			return "", "nonmatching"
		case ev.Retry && freshSeen && !midSeen:
			return "", "fresh-retry"
		case ev.Retry:
			return "", "retry"
		case exhaustedSeen:
			return "", "failure"
		default:
			return "", "ignored-stray"
		}
	}
	_ = anyState
	// classify
	switch {
	case ev.Retry && !match:
		return "retry-on-nonmatching", ""
	case ev.Retry && wantNoRetryAll && exhaustedSeen:
		return fmt.Sprintf("excess-retry/attempts%d", cfg.Attempts), ""
	case ev.Retry && wantNoRetryAll:
		// only "stray attempts are ignored" survived earlier, now a stray attempt is served
		if m.taintNM {
			return "missing-retry/after-nonmatching-end", ""
		}
		return "stray-convention-inconsistent", ""
	case !ev.Retry && wantRetryAll:
		if m.sinceNM {
			return "missing-retry/after-nonmatching-end", ""
		}
		if midSeen {
			return "missing-retry/mid-sequence", ""
		}
		switch m.lastEnd {
		case endFailure:
			return "missing-retry/fresh-after-failure", ""
		case endNonMatching:
			return "missing-retry/fresh-after-nonmatching", ""
		}
		return "missing-retry/first-response", ""
	}
	return "unexplained", ""
}

// ---- systems under observation -------------------------------------------------------------------

type sut interface {
	// respond delivers one response and reports whether a retry was requested.
	respond(txnID, seqID string, status int) (retry bool, cond string, err error)
	close()
}

// flows mode
type flowSUT struct {
	env   *sim.StreamEnv
	clk   *sim.VClock
	v     *sim.Verdict
	waits int
	// lastProc: the Retry processor ("Again" | "Again2") that reported a condition for the latest response
	lastProc string
	// lastConds: flow name -> condition its Retry processor reported for the latest response
	lastConds map[string]string
}

func flowYAML(c retryCfg) string {
	if c.Range2 != nil {
		return flowYAML2(c)
	}
	return fmt.Sprintf(`name: retryflow
filter:
  url: a.com/*
processors:
  StatusFilter:
    processor: Filter
    parameters:
      - key: status_code_range
        value: "%d-%d"
  Again:
    processor: Retry
    parameters:
      - key: attempts
        value: %d
      - key: cooldown_between_attempts_seconds
        value: %d
      - key: cooldown_multiplier
        value: %v
flow:
  request:
    - from:
        stream:
          name: globalStream
          at: start
      to:
        stream:
          name: globalStream
          at: end
  response:
    - from:
        stream:
          name: globalStream
          at: start
      to:
        processor:
          name: StatusFilter
    - from:
        processor:
          name: StatusFilter
          condition: hit
      to:
        processor:
          name: Again
    - from:
        processor:
          name: StatusFilter
          condition: miss
      to:
        stream:
          name: globalStream
          at: end
    - from:
        processor:
          name: Again
          condition: retry
      to:
        stream:
          name: globalStream
          at: end
    - from:
        processor:
          name: Again
          condition: failed
      to:
        stream:
          name: globalStream
          at: end
`, c.Ranges[0][0], c.Ranges[0][1], c.Attempts, c.CooldownS, c.Mult)
}

// flowYAML2: start -> StatusFilter -hit-> Again ; -miss-> StatusFilter2 -hit-> Again2 ; everything else -> end
func flowYAML2(c retryCfg) string {
	end := "      to:\n        stream:\n          name: globalStream\n          at: end\n"
	conn := func(from, cond, to string) string {
		x := "    - from:\n        processor:\n          name: " + from + "\n"
		if cond != "" {
			x += "          condition: " + cond + "\n"
		}
		if to == "" {
			return x + end
		}
		return x + "      to:\n        processor:\n          name: " + to + "\n"
	}
	retry := func(name string, attempts int) string {
		return fmt.Sprintf("  %s:\n    processor: Retry\n    parameters:\n      - key: attempts\n        value: %d\n      - key: cooldown_between_attempts_seconds\n        value: %d\n      - key: cooldown_multiplier\n        value: %v\n", name, attempts, c.CooldownS, c.Mult)
	}
	filter := func(name string, r [2]int) string {
		return fmt.Sprintf("  %s:\n    processor: Filter\n    parameters:\n      - key: status_code_range\n        value: \"%d-%d\"\n", name, r[0], r[1])
	}
	return "name: retryflow\nfilter:\n  url: a.com/*\nprocessors:\n" +
		filter("StatusFilter", c.Ranges[0]) + filter("StatusFilter2", *c.Range2) + retry("Again", c.Attempts) + retry("Again2", c.Attempts2) +
		"flow:\n  request:\n    - from:\n        stream:\n          name: globalStream\n          at: start\n" + end +
		"  response:\n    - from:\n        stream:\n          name: globalStream\n          at: start\n      to:\n        processor:\n          name: StatusFilter\n" +
		conn("StatusFilter", "hit", "Again") + conn("StatusFilter", "miss", "StatusFilter2") +
		conn("StatusFilter2", "hit", "Again2") + conn("StatusFilter2", "miss", "") +
		conn("Again", "retry", "") + conn("Again", "failed", "") + conn("Again2", "retry", "") + conn("Again2", "failed", "")
}

const sentinel = 98765 * time.Hour

func newFlowSUT(root string, c retryCfg, clk *sim.VClock, v *sim.Verdict) (*flowSUT, error) {
	flows := map[string]string{"flow.yaml": flowYAML(c)}
	if c.TwoFlows {
		flows["flow2.yaml"] = strings.Replace(flowYAML(c), "name: retryflow", "name: retryflow2", 1)
	}
	env, err := sim.NewStreamEnv(root, sim.Config{Flows: flows, Quotas: map[string]string{}})
	if err != nil {
		return nil, err
	}
	return &flowSUT{env: env, clk: clk, v: v}, nil
}

func (f *flowSUT) close() { os.RemoveAll(f.env.FlowsDir + "/..") }

func (f *flowSUT) respond(txnID, seqID string, status int) (bool, string, error) {
	sim.GlobalSink.Drain()
	before := map[uint64]bool{}
	for _, w := range f.clk.Pending() {
		before[w.ID] = true
	}
	var res sim.RespResult
	var pan any
	go func() {
		defer func() {
			pan = recover()
			f.clk.After(sentinel) // tells the controller that the call returned
		}()
		res = f.env.OnResponse(sim.Txn{ID: txnID, SeqID: seqID, Method: "GET", URL: "a.com/x", Status: status})
	}()
	for {
		isNew := func(w sim.Waiter) bool { return !before[w.ID] }
		if !f.clk.WaitPending(isNew, 1, 120*time.Second) {
			return false, "", fmt.Errorf("watchdog")
		}
		done := false
		for _, w := range f.clk.Pending() {
			if before[w.ID] {
				continue
			}
			if w.D == sentinel {
				f.clk.Drop(w.ID)
				done = true
			} else {
				f.waits++
				f.clk.Set(f.clk.Now().Add(w.D)) // the cool-down elapses (virtual time moves by it)
				f.clk.Fire(w.ID)
			}
		}
		if done {
			break
		}
	}
	if pan != nil {
		panic(pan)
	}
	if res.Err != nil {
		return false, "", res.Err
	}
	retry := false
	for _, a := range res.Actions {
		if _, ok := a.(*actions.RetryRequestAction); ok {
			retry = true
		}
	}
	cond := ""
	f.lastConds = map[string]string{}
	for _, e := range sim.GlobalSink.Drain() {
		if e.Kind == "proc" && len(e.Args) >= 5 && (e.Args[1] == "Again" || e.Args[1] == "Again2") && e.Args[4] == txnID {
			cond = e.Args[3]
			f.lastProc = e.Args[1]
			f.lastConds[e.Args[0]] = e.Args[3]
		}
	}
	if len(f.lastConds) > 1 {
		// two flows: the cross-check below wants "retry" iff some flow asked for one
		for _, c := range f.lastConds {
			if c == "retry" {
				cond = "retry"
			}
		}
	}
	return retry, cond, nil
}

// policy mode
type policySUT struct {
	plugin *remedies.RetryPlugin
	cfg    sharedcfg.RetryConfig
	clk    *sim.VClock
	lastCD map[string]int
}

func newPolicySUT(c retryCfg, clk *sim.VClock) *policySUT {
	rc := sharedcfg.RetryConfig{Attempts: c.Attempts, InitialCooldownSeconds: c.CooldownS, CooldownMultiplier: int(c.Mult)}
	for _, r := range c.Ranges {
		rc.Conditions.StatusCode = append(rc.Conditions.StatusCode, sharedcfg.Range[int]{From: r[0], To: r[1]})
	}
	return &policySUT{plugin: remedies.NewRetryPlugin(clk), cfg: rc, clk: clk, lastCD: map[string]int{}}
}

func (p *policySUT) close() {
	// release the cache's parked TTL sleepers of this case
	p.clk.Advance(1000*time.Hour, nil)
}

func (p *policySUT) respond(txnID, seqID string, status int) (bool, string, error) {
	msg := lunarmsg.OnResponse{
		LunarName: lunarmsg.LunarResponse, ID: txnID, SequenceID: seqID, Method: "GET", URL: "a.com/x",
		Status: status, Headers: map[string]string{}, Time: p.clk.Now(),
	}
	act, err := p.plugin.OnResponse(msg, &p.cfg)
	if err != nil {
		return false, "", err
	}
	switch a := act.(type) {
	case *actions.ModifyResponseAction:
		if val, ok := a.HeadersToSet[remedies.LunarRetryAfterHeaderName]; ok {
			cd := 0
			fmt.Sscanf(val, "%d", &cd)
			p.lastCD[seqID] = cd
			return true, "retry-after=" + val, nil
		}
		return false, "modify-without-marker", nil
	case *actions.NoOpAction:
		return false, "noop", nil
	}
	return false, fmt.Sprintf("%T", act), nil
}

// ---- running one history ---------------------------------------------------------------------------

type runner struct {
	args  sim.Args
	v     *sim.Verdict
	clk   *sim.VClock
	waits int
}

// runHistory plays events against s with the closed-loop client: after a retry request the next
// response of that sequence carries a fresh transaction id; otherwise the call is over and the next
// response with this sequence id belongs to a new call (txn id == sequence id) unless ev.Stray.
func (rn *runner) runHistory(idx int, c retryCfg, s sut, prefix string, evs []event) bool {
	v := rn.v
	models := map[int]*seqModel{}
	pendingRetry := map[int]bool{}
	attemptNo := map[int]int{}
	models2 := map[int]*seqModel{}      // second Retry processor of the flow (when configured)
	retryAskedAt := map[int]time.Time{} // virtual instant at which the gateway asked for the sequence's latest retry (after the cool-down)
	shape := map[string]int{}
	for k := range evs {
		ev := &evs[k]
		seqID := fmt.Sprintf("%s-s%d", prefix, ev.Seq)
		m := models[ev.Seq]
		if m == nil {
			m = newSeqModel()
			models[ev.Seq] = m
		}
		isNewCall := false
		switch {
		case ev.Abandon && pendingRetry[ev.Seq]:
			// the statement says nothing about a sequence that is neither exhausted nor ended by a response: the
			// gateway may still count the new call's responses into it, or have forgotten it
			ev.TxnID = seqID
			isNewCall = true
			m.mayForget()
			shape["abandoned"]++
			v.Count("abandoned_sequences_whose_id_is_reused", 1)
		case pendingRetry[ev.Seq] || ev.Stray:
			attemptNo[ev.Seq]++
			ev.TxnID = fmt.Sprintf("%s-a%d", seqID, attemptNo[ev.Seq])
		default:
			ev.TxnID = seqID
			isNewCall = true
		}
		if c.Mode == "policy" {
			gap := ev.GapS
			if ev.TellS {
				if p, ok := s.(*policySUT); ok {
					gap = p.lastCD[seqID]
				}
			}
			if gap > 0 {
				rn.clk.Set(rn.clk.Now().Add(time.Duration(gap) * time.Second))
				if !ev.TellS {
					// arbitrary pauses: state expiry is outside the statement -> any sequence may be forgotten
					for _, om := range models {
						om.mayForget()
					}
					shape["pause"]++
				} else {
					// the client waited exactly as told: other sequences may expire, this one may not
					for q, om := range models {
						if q != ev.Seq {
							om.mayForget()
						}
					}
					shape["as-told"]++
				}
			}
		}
		if c.Mode == "flows" {
			// upstream latency of this response (virtual). A retried request cannot outlive the retry request timeout
			// (100 s here): only then may the gateway have given the sequence up.
			if ev.GapS > 0 {
				rn.clk.Set(rn.clk.Now().Add(time.Duration(ev.GapS) * time.Second))
				shape["latency"]++
				v.Count("flows_responses_after_upstream_latency", 1)
			}
			if at, ok := retryAskedAt[ev.Seq]; ok && pendingRetry[ev.Seq] && rn.clk.Now().Sub(at) >= 100*time.Second {
				m.mayForget()
				if m2 := models2[ev.Seq]; m2 != nil {
					m2.mayForget()
				}
				v.Count("flows_retried_responses_later_than_the_request_timeout(may be forgotten)", 1)
			}
		}
		retry, cond, err := s.respond(ev.TxnID, seqID, ev.Status)
		if retry {
			retryAskedAt[ev.Seq] = rn.clk.Now()
		}
		if err != nil {
			if err.Error() == "watchdog" {
				v.Inconclude(fmt.Sprintf("case %d: wall-clock watchdog while waiting for the retry processor", idx))
				return false
			}
			v.Violate("C17/"+c.Mode+"/error-from-engine", err.Error(), replay{Case: idx, Seed: rn.args.Seed, Cfg: c, Events: evs[:k+1]})
			return false
		}
		ev.Retry, ev.Cond = retry, cond
		if c.Mode == "flows" {
			bad := ""
			switch {
			case retry && cond != "retry":
				bad = "retry-action-without-retry-condition"
			case !retry && cond == "retry":
				bad = "retry-condition-without-action"
			case !retry && cond != "" && cond != "failed":
				bad = "unknown-condition"
			}
			if bad != "" {
				v.Violate("C17/flows/"+bad, fmt.Sprintf("event #%d: RetryRequestAction=%v, condition=%q", k, retry, cond),
					replay{Case: idx, Seed: rn.args.Seed, Cfg: c, Events: evs[:k+1]})
				return false
			}
		}
		cfgOf := c
		if c.TwoFlows {
			fs, _ := s.(*flowSUT)
			if fs != nil && c.matches(ev.Status) && len(fs.lastConds) != 2 {
				v.Violate("C17/flows/two-flows/a-flow-did-not-run", fmt.Sprintf("event #%d: status %d passes both flows' filters, Retry processors that reported: %v", k, ev.Status, fs.lastConds),
					replay{Case: idx, Seed: rn.args.Seed, Cfg: c, Events: evs[:k+1]})
				return false
			}
			// the second flow's processor is judged by a machine of its own; the first flow's by the usual one below
			m2 := models2[ev.Seq]
			if m2 == nil {
				m2 = newSeqModel()
				models2[ev.Seq] = m2
			}
			if ev.Abandon && isNewCall {
				m2.mayForget()
			}
			ev2 := *ev
			ev2.Retry = fs != nil && fs.lastConds["retryflow2"] == "retry"
			if kind, _ := m2.step(c, ev2, isNewCall); kind != "" {
				if kind != "missing-retry/after-nonmatching-end" {
					kind = "two-flows/" + kind
				}
				v.Violate("C17/flows/"+kind, fmt.Sprintf("event #%d (seq %d, status %d): the Retry processor of the second flow reported %q, which contradicts every admissible state of ITS sequence; attempts=%d", k, ev.Seq, ev.Status, fs.lastConds["retryflow2"], c.Attempts),
					replay{Case: idx, Seed: rn.args.Seed, Cfg: c, Events: evs[:k+1]})
				return false
			}
			if fs != nil {
				ev.Retry = fs.lastConds["retryflow"] == "retry"
			}
			v.Count("responses_handled_by_two_flows", 1)
		}
		if c.Range2 != nil {
			// two Retry processors in one flow: each keeps its own count per sequence. The response belongs to the
			// processor whose filter it passes; for the other one it is a response outside its conditions.
			first, second := c, c.second()
			first.Range2 = nil
			m2 := models2[ev.Seq]
			if m2 == nil {
				m2 = newSeqModel()
				models2[ev.Seq] = m2
			}
			if ev.Abandon && isNewCall {
				m2.mayForget()
			}
			if fs, ok := s.(*flowSUT); ok && cond != "" {
				want := "Again"
				if second.matches(ev.Status) {
					want = "Again2"
				}
				if fs.lastProc != want {
					v.Violate("C17/flows/wrong-processor", fmt.Sprintf("event #%d: status %d was handled by %s, its filter leads to %s", k, ev.Status, fs.lastProc, want),
						replay{Case: idx, Seed: rn.args.Seed, Cfg: c, Events: evs[:k+1]})
					return false
				}
			}
			other := *ev
			other.Retry = false
			if second.matches(ev.Status) {
				// first processor: outside its conditions
				if kind, _ := m.step(first, other, isNewCall); kind != "" && !first.matches(ev.Status) {
					v.Count("harness_two_processor_other_step_unexplained", 1)
				}
				m, cfgOf = m2, second
				v.Count("responses_handled_by_the_second_retry_processor", 1)
			} else {
				m2.step(second, other, isNewCall)
				cfgOf = first
			}
		}
		kind, stat := m.step(cfgOf, *ev, isNewCall)
		if kind != "" {
			if c.Range2 != nil && kind != "missing-retry/after-nonmatching-end" {
				kind = "two-processors/" + kind
			}
			v.Violate("C17/"+c.Mode+"/"+kind,
				fmt.Sprintf("event #%d (seq %d, status %d, txn %s): retry requested=%v (%s) contradicts every admissible state of the sequence; attempts=%d",
					k, ev.Seq, ev.Status, ev.TxnID, retry, cond, c.Attempts),
				replay{Case: idx, Seed: rn.args.Seed, Cfg: c, Events: evs[:k+1]})
			return false
		}
		shape[stat]++
		v.Count(stat, 1)
		pendingRetry[ev.Seq] = retry
	}
	v.Count("responses", len(evs))
	if len(models) > 1 {
		v.Count("interleaved_histories", 1)
	}
	// non-trivial: at least one exhaustion (failure) followed later by a fresh retry, or a retry and a non-matching end
	if shape["failure"] > 0 || (shape["retry"]+shape["fresh-retry"] > 0 && shape["nonmatching"] > 0) {
		b := func(n int) int {
			switch {
			case n == 0:
				return 0
			case n < 3:
				return 1
			case n < 8:
				return 2
			}
			return 3
		}
		v.Distinct(fmt.Sprintf("%s/ids%d/f%d/r%d/fr%d/n%d/s%d/p%d/t%d", c.key(), len(models), b(shape["failure"]), b(shape["retry"]),
			b(shape["fresh-retry"]), b(shape["nonmatching"]), b(shape["ignored-stray"]), b(shape["pause"]), b(shape["as-told"])))
	}
	return true
}

// ---- workload ---------------------------------------------------------------------------------------

func genCfg(r *sim.Rand, mode string) retryCfg {
	c := retryCfg{Mode: mode, Attempts: r.Range(1, 4)}
	if mode == "flows" {
		c.Ranges = [][2]int{sim.Pick(r, flowRanges)}
		if r.Chance(1, 2) {
			c.CooldownS = r.Range(0, 5)
			c.Mult = sim.Pick(r, []float64{0, 0.5, 1, 1.5, 2, 3})
		}
		if r.Chance(1, 8) {
			c.TwoFlows = true
		} else if r.Chance(1, 4) {
			// a second Retry processor behind its own, disjoint status filter
			switch c.Ranges[0] {
			case [2]int{500, 599}, [2]int{500, 500}:
				c.Range2 = &[2]int{429, 429}
			case [2]int{429, 429}:
				c.Range2 = &[2]int{500, 599}
			}
			if c.Range2 != nil {
				c.Attempts2 = r.Range(1, 4)
			}
		}
	} else {
		c.Ranges = sim.Pick(r, policyRanges)
		c.CooldownS = r.Range(0, 6)
		c.Mult = float64(r.Range(0, 3))
	}
	return c
}

func genEvents(r *sim.Rand, c retryCfg) []event {
	ids := r.Range(1, 6)
	left := make([]int, ids)
	total := 0
	for i := range left {
		left[i] = r.Range(1, 12)
		total += left[i]
	}
	// status mix: bias towards matching statuses so that exhaustion is reached
	var matching, other []int
	for _, s := range statuses {
		if c.matches(s) || (c.Range2 != nil && c.second().matches(s)) {
			matching = append(matching, s)
		} else {
			other = append(other, s)
		}
	}
	pMatch := sim.Pick(r, []int{5, 7, 9})
	var evs []event
	for total > 0 {
		i := r.Intn(ids)
		if left[i] == 0 {
			continue
		}
		left[i]--
		total--
		ev := event{Seq: i}
		if len(other) == 0 || (len(matching) > 0 && r.Chance(pMatch, 10)) {
			ev.Status = sim.Pick(r, matching)
		} else {
			ev.Status = sim.Pick(r, other)
		}
		ev.Stray = r.Chance(1, 10)
		ev.Abandon = r.Chance(1, 8)
		if c.Mode == "flows" && r.Chance(1, 3) {
			ev.GapS = sim.Pick(r, []int{1, 20, 45, 97})
		}
		if c.Mode == "policy" {
			switch r.Intn(10) {
			case 0:
				ev.GapS = sim.Pick(r, []int{1, 30, 31, 32, 45, 3600})
			case 1, 2, 3:
				ev.TellS = true
			}
		}
		evs = append(evs, ev)
	}
	return evs
}

// exhaustive spaces -----------------------------------------------------------------------------------

// space A: one id, alphabet = 4 statuses, all words of length 1..L.
// space B: two ids interleaved, alphabet = {id0,id1} x {matching, non-matching}, all words of length 1..L.
func wordCount(alpha, L int) int {
	n, p := 0, 1
	for l := 1; l <= L; l++ {
		p *= alpha
		n += p
	}
	return n
}

func nthWord(alpha, L, n int) []int {
	p := 1
	for l := 1; l <= L; l++ {
		p *= alpha
		if n < p {
			w := make([]int, l)
			for i := l - 1; i >= 0; i-- {
				w[i] = n % alpha
				n /= alpha
			}
			return w
		}
		n -= p
	}
	return nil
}

type exhCfg struct {
	c     retryCfg
	space string // A | B
}

func exhaustiveCfgs() []exhCfg {
	var out []exhCfg
	for _, mode := range []string{"flows", "policy"} {
		for a := 1; a <= 4; a++ {
			// A: ranges that split the 4 statuses differently
			var rsA [][][2]int
			if mode == "flows" {
				rsA = [][][2]int{{{500, 599}}, {{429, 503}}}
			} else {
				rsA = [][][2]int{{{500, 599}}, {{429, 429}, {500, 502}}}
			}
			for _, rs := range rsA {
				out = append(out, exhCfg{retryCfg{Mode: mode, Attempts: a, Ranges: rs}, "A"})
			}
			out = append(out, exhCfg{retryCfg{Mode: mode, Attempts: a, Ranges: [][2]int{{500, 599}}}, "B"})
		}
	}
	return out
}

func wordToEvents(space string, w []int) []event {
	evs := make([]event, len(w))
	for i, x := range w {
		if space == "A" {
			evs[i] = event{Seq: 0, Status: statuses[x]}
		} else {
			st := 500
			if x&1 == 1 {
				st = 200
			}
			evs[i] = event{Seq: x >> 1, Status: st}
		}
	}
	return evs
}

// ---- main -------------------------------------------------------------------------------------------

var t0 = time.Date(2026, 3, 1, 12, 0, 0, 0, time.UTC)

func main() {
	args := sim.ParseArgs()
	v := sim.NewVerdict("C17", args.Seed, args.Tier, args.Batch, args.Out)
	v.Rule = "case = retry configuration (mode flows|policy, attempts 1-4, cool-down, multiplier, status ranges) + history of responses over {200,429,500,503} for 1-6 interleaved sequence ids played by a closed-loop client (fresh txn id after a retry request, txn id == sequence id for a new call, 10% stray ids); exhaustive part: every word up to length L over 4 statuses for one id (space A) and over {2 ids}x{matching,non-matching} (space B); non-trivial iff the history contains an exhaustion (failure) or both a retry and a non-matching end; distinct by <config, #ids, buckets of failures/retries/fresh retries/non-matching/ignored strays/pauses>"
	v.Assumptions = []string{
		"a retry request is: flows mode a RetryRequestAction among the returned actions (cross-checked with the Retry processor's hook condition), policy mode a ModifyResponseAction carrying x-lunar-retry-after",
		"the client is closed-loop: after a retry request the next response of the sequence has a fresh transaction id and the same sequence id; a new call re-using an ended sequence id has txn id == sequence id",
		"a retryable response with a fresh txn id for a sequence that is not in progress (stray) may either start a fresh sequence or be ignored; one convention per history",
		"policy mode: after an arbitrary virtual pause any sequence may have been forgotten (expiry is outside the statement); after waiting exactly the announced cool-down the sequence itself must still be known",
		"policy mode: the cache's TTL sleeper goroutines are not fired inside a history (the clock is moved, expiry is evaluated lazily by the cache)",
	}
	root := sim.ScratchRoot("c17")
	defer os.RemoveAll(root)
	clk := sim.NewVClock(t0)
	sim.UseClock(clk)
	rn := &runner{args: args, v: v, clk: clk}

	if args.Replay != "" {
		rn.runReplay()
		os.Exit(v.Write())
	}

	// exhaustive part
	L := args.Pick(7, 8)
	cfgs := exhaustiveCfgs()
	wc := wordCount(4, L)
	totalExh := len(cfgs) * wc
	lo, hi := args.Share(totalExh)
	var cur sut
	curCfg := -1
	for n := lo; n < hi; n++ {
		ci, wi := n/wc, n%wc
		ec := cfgs[ci]
		if ci != curCfg {
			if cur != nil {
				cur.close()
			}
			var err error
			cur, err = rn.build(ec.c, root)
			if err != nil {
				v.Violate("C17/harness/config-rejected", err.Error(), replay{Case: -1, Cfg: ec.c})
				break
			}
			curCfg = ci
		}
		evs := wordToEvents(ec.space, nthWord(4, L, wi))
		idx := -(n + 1) // negative = exhaustive index
		v.Eval(1)
		ok := true
		sim.Guard(v, "C17/panic/"+ec.c.Mode, replay{Case: idx, Seed: args.Seed, Cfg: ec.c, Events: evs}, func() {
			ok = rn.runHistory(idx, ec.c, cur, fmt.Sprintf("e%d", n), evs)
		})
		_ = ok
		if ec.c.Mode == "policy" {
			clk.Advance(1000*time.Hour, nil) // release the cache's parked TTL sleepers
		}
		if n%7919 == 0 {
			v.Sample(replay{Case: idx, Seed: args.Seed, Cfg: ec.c, Events: evs})
		}
	}
	if cur != nil {
		cur.close()
	}
	v.Count("exhaustive_histories", hi-lo)
	v.Extra["exhaustive_bound"] = fmt.Sprintf("all words of length 1..%d: space A (1 id x 4 statuses) and space B (2 ids x {500,200}), attempts 1-4, both modes, cool-down 0", L)
	v.Exhaustive = true

	// space C: one id, every word over {500,200} x {next response of the closed loop, stray txn id, abandoned retry +
	// new call with the same id}
	LC := args.Pick(6, 7)
	wcC := wordCount(6, LC)
	var cfgsC []retryCfg
	for _, mode := range []string{"flows", "policy"} {
		for a := 1; a <= 3; a++ {
			cfgsC = append(cfgsC, retryCfg{Mode: mode, Attempts: a, Ranges: [][2]int{{500, 599}}})
		}
	}
	lo, hi = args.Share(len(cfgsC) * wcC)
	cur, curCfg = nil, -1
	for n := lo; n < hi; n++ {
		ci, wi := n/wcC, n%wcC
		c := cfgsC[ci]
		if ci != curCfg {
			if cur != nil {
				cur.close()
			}
			var err error
			if cur, err = rn.build(c, root); err != nil {
				v.Violate("C17/harness/config-rejected", err.Error(), replay{Case: -1, Cfg: c})
				break
			}
			curCfg = ci
		}
		w := nthWord(6, LC, wi)
		evs := make([]event, len(w))
		for i, x := range w {
			evs[i] = event{Seq: 0, Status: []int{500, 200}[x&1], Stray: x>>1 == 1, Abandon: x>>1 == 2}
		}
		idx := -(100_000_000 + n)
		v.Eval(1)
		sim.Guard(v, "C17/panic/"+c.Mode, replay{Case: idx, Seed: args.Seed, Cfg: c, Events: evs}, func() {
			rn.runHistory(idx, c, cur, fmt.Sprintf("x%d", n), evs)
		})
		if c.Mode == "policy" {
			clk.Advance(1000*time.Hour, nil)
		}
	}
	if cur != nil {
		cur.close()
	}
	v.Count("exhaustive_histories_space_C", hi-lo)
	v.Extra["exhaustive_bound_space_C"] = fmt.Sprintf("all words of length 1..%d over {500,200} x {closed-loop, stray txn id, abandoned retry + id reuse}, one id, attempts 1-3, both modes", LC)

	// random part
	nRand := args.Pick(4000, 160000)
	lo, hi = args.Share(nRand)
	for i := lo; i < hi; i++ {
		r := args.CaseRand(i)
		mode := "flows"
		if r.Chance(1, 2) {
			mode = "policy"
		}
		c := genCfg(r, mode)
		evs := genEvents(r, c)
		rn.runCase(i, c, evs, root)
	}
	// crowd histories: one sequence is retried while more than a thousand other sequences pass through the
	// same processor / plugin for the first time (whatever is kept per sequence is shared by all of them)
	clo, chi := args.Share(args.Pick(16, 240))
	for i := clo; i < chi; i++ {
		r := args.CaseRand(5_000_000 + i)
		mode := "flows"
		if i%2 == 1 {
			mode = "policy"
		}
		c := genCfg(r, mode)
		c.CooldownS, c.Mult = 0, 0
		var matching int
		for _, st := range statuses {
			if c.matches(st) {
				matching = st
			}
		}
		var evs []event
		crowd := r.Range(1100, 1700)
		split := r.Range(1, c.Attempts) // victim responses before the crowd
		for k := 0; k < split; k++ {
			evs = append(evs, event{Seq: 0, Status: matching})
		}
		for j := 0; j < crowd; j++ {
			evs = append(evs, event{Seq: 1000 + j, Status: matching})
		}
		for k := 0; k < c.Attempts+2; k++ {
			evs = append(evs, event{Seq: 0, Status: matching})
		}
		rn.runCase(5_000_000+i, c, evs, root)
		v.Count("crowd_histories", 1)
	}
	if v.Counters["failure"] == 0 || v.Counters["retry"] == 0 || v.Counters["nonmatching"] == 0 {
		v.Inconclude("no exhaustion, no retry or no non-matching response observed in this batch")
	}
	v.Count("cooldown_waits_fired", rn.waits)
	os.Exit(v.Write())
}

func (rn *runner) build(c retryCfg, root string) (sut, error) {
	if c.Mode == "flows" {
		return newFlowSUT(root, c, rn.clk, rn.v)
	}
	return newPolicySUT(c, rn.clk), nil
}

func (rn *runner) runCase(idx int, c retryCfg, evs []event, root string) {
	v := rn.v
	fmt.Printf("case %d %s events=%d\n", idx, c.key(), len(evs))
	v.Eval(1)
	rp := replay{Case: idx, Seed: rn.args.Seed, Cfg: c, Events: evs}
	sim.Guard(v, "C17/panic/"+c.Mode, rp, func() {
		s, err := rn.build(c, root)
		if err != nil {
			v.Violate("C17/harness/config-rejected", fmt.Sprintf("generated configuration rejected: %v", err), rp)
			return
		}
		defer func() {
			if fs, ok := s.(*flowSUT); ok {
				rn.waits += fs.waits
			}
			s.close()
		}()
		rn.runHistory(idx, c, s, fmt.Sprintf("c%d", idx), evs)
	})
	if idx%397 == 0 {
		v.Sample(rp)
	}
}

func (rn *runner) runReplay() {
	data, err := os.ReadFile(rn.args.Replay)
	if err != nil {
		rn.v.Inconclude("cannot read replay file: " + err.Error())
		return
	}
	var wrap struct {
		Replay replay `json:"replay"`
	}
	if err := json.Unmarshal(data, &wrap); err != nil {
		rn.v.Inconclude("cannot parse replay file: " + err.Error())
		return
	}
	rp := wrap.Replay
	if rp.Cfg.Mode == "" {
		_ = json.Unmarshal(data, &rp)
	}
	for i := range rp.Events { // observations are re-made
		rp.Events[i].Retry, rp.Events[i].Cond, rp.Events[i].TxnID = false, "", ""
	}
	root := sim.ScratchRoot("c17r")
	defer os.RemoveAll(root)
	rn.runCase(rp.Case, rp.Cfg, rp.Events, root)
	if rn.v.NumViolations() == 0 && !strings.Contains(rp.Note, "sample") {
		rn.v.Count("replay_silent", 1)
	}
}
