// C18 - concurrent transactions do not corrupt or share engine state.
//
// L1, built with -race: many goroutines push request/response pairs through the real
// routing.Handler over a configuration using fixed and concurrent quotas (with hierarchy), limiter,
// queue, retry, filter, generate-response and probe processors, while admin operations (load_flows,
// configuration), proxy-error reports and Prometheus scrapes run concurrently. The driver turns every
// race-detector report into a violation keyed by the racing functions; this program adds
// conservation checks (phase without reloads), the transactional-context probe and crash detection.
package main

import (
	"bytes"
	"fmt"
	"io"
	"net/http"
	"os"
	"strings"
	"sync"
	"sync/atomic"
	"time"

	"lunar/toolkit-core/verifhook"

	"verif/harness/sim"
)

const quotas = `quotas:
  - id: qfix
    filter:
      url: lim.com/*
    strategy:
      fixed_window:
        max: 40
        interval: 1
        interval_unit: hour
        group_by_header: x-group
internal_limits:
  - id: qfixchild
    parent_id: qfix
    strategy:
      fixed_window:
        max: 25
        interval: 1
        interval_unit: hour
        group_by_header: x-group
`

const quotasConc = `quotas:
  - id: qconcp
    filter:
      url: conc.com/*
    strategy:
      concurrent:
        max_request_count: 6
        request_expiration_sec: 30
        gc_interval_sec: 1
internal_limits:
  - id: qconc
    parent_id: qconcp
    strategy:
      concurrent:
        max_request_count: 4
        request_expiration_sec: 30
        gc_interval_sec: 1
`

// a concurrent quota whose members expire after one second: part of the transactions sent to exp.com are
// abandoned (no response ever comes), so the expiry collector removes members while other transactions are
// being admitted and released on the same quota
const quotasExp = `quotas:
  - id: qexp
    filter:
      url: exp.com/*
    strategy:
      concurrent:
        max_request_count: 200
        request_expiration_sec: 1
        gc_interval_sec: 1
`

// a grouped fixed-window quota on which every few transactions use a group value nobody has used before:
// the per-group counter is created on first use, by several transactions at once
const quotasFresh = `quotas:
  - id: qfg
    filter:
      url: fg.com/*
    strategy:
      fixed_window:
        max: 1000
        interval: 1
        interval_unit: hour
        group_by_header: x-fg
`

const quotasQueue = `quotas:
  - id: qq
    filter:
      url: queue.com/*
    strategy:
      fixed_window:
        max: 30
        interval: 1
        interval_unit: second
`

func limiterFlow(name, host, quota string) string {
	return fmt.Sprintf(`name: %s
filter:
  url: %s/*
processors:
  Lim:
    processor: Limiter
    parameters:
      - key: quota_id
        value: %s
  TooMany:
    processor: GenerateResponse
    parameters:
      - key: status
        value: 429
flow:
  request:
    - from:
        stream:
          name: globalStream
          at: start
      to:
        processor:
          name: Lim
    - from:
        processor:
          name: Lim
          condition: above_limit
      to:
        processor:
          name: TooMany
    - from:
        processor:
          name: Lim
          condition: below_limit
      to:
        stream:
          name: globalStream
          at: end
  response:
    - from:
        processor:
          name: TooMany
      to:
        stream:
          name: globalStream
          at: end
`, name, host, quota)
}

const queueFlow = `name: fqueue
filter:
  url: queue.com/*
processors:
  Q:
    processor: Queue
    parameters:
      - key: quota_id
        value: qq
      - key: ttl_seconds
        value: 1
      - key: queue_size
        value: 16
      - key: priority_group_by_header
        value: x-prio
      - key: priority_groups
        value:
          hi: 1
          lo: 2
  TooMany:
    processor: GenerateResponse
    parameters:
      - key: status
        value: 429
flow:
  request:
    - from:
        stream:
          name: globalStream
          at: start
      to:
        processor:
          name: Q
    - from:
        processor:
          name: Q
          condition: blocked
      to:
        processor:
          name: TooMany
    - from:
        processor:
          name: Q
          condition: allowed
      to:
        stream:
          name: globalStream
          at: end
  response:
    - from:
        processor:
          name: TooMany
      to:
        stream:
          name: globalStream
          at: end
`

const retryFlow = `name: fretry
filter:
  url: retry.com/*
processors:
  StatusFilter:
    processor: Filter
    parameters:
      - key: status_code_range
        value: "500-599"
  Again:
    processor: Retry
    parameters:
      - key: attempts
        value: 2
flow:
  request:
    - from:
        stream:
          name: globalStream
          at: start
      to:
        stream:
          name: globalStream
          at: end
  response:
    - from:
        stream:
          name: globalStream
          at: start
      to:
        processor:
          name: StatusFilter
    - from:
        processor:
          name: StatusFilter
          condition: hit
      to:
        processor:
          name: Again
    - from:
        processor:
          name: Again
          condition: retry
      to:
        stream:
          name: globalStream
          at: end
    - from:
        processor:
          name: Again
          condition: failed
      to:
        stream:
          name: globalStream
          at: end
`

const probeFlow = `name: fprobe
filter:
  url: probe.com/*
processors:
  n1:
    processor: VerifProbe
  n2:
    processor: VerifProbe
  n3:
    processor: VerifProbe
  m1:
    processor: VerifProbe
flow:
  request:
    - from:
        stream:
          name: globalStream
          at: start
      to:
        processor:
          name: n1
    - from:
        processor:
          name: n1
      to:
        processor:
          name: n2
    - from:
        processor:
          name: n2
      to:
        processor:
          name: n3
    - from:
        processor:
          name: n3
      to:
        stream:
          name: globalStream
          at: end
  response:
    - from:
        stream:
          name: globalStream
          at: start
      to:
        processor:
          name: m1
    - from:
        processor:
          name: m1
      to:
        stream:
          name: globalStream
          at: end
`

// selFlow: a one-probe flow; three of them share the pattern sel.com/* and one sits on each exact path,
// so that every sel.com/<p> transaction selects the three shared flows plus the one of its own path.
func selFlow(name, url string) string {
	return fmt.Sprintf(`name: %[1]s
filter:
  url: %[2]s
processors:
  p_%[1]s:
    processor: VerifProbe
flow:
  request:
    - from:
        stream:
          name: globalStream
          at: start
      to:
        processor:
          name: p_%[1]s
    - from:
        processor:
          name: p_%[1]s
      to:
        stream:
          name: globalStream
          at: end
  response:
    - from:
        stream:
          name: globalStream
          at: start
      to:
        stream:
          name: globalStream
          at: end
`, name, url)
}

var selPaths = []string{"a", "b", "c", "d"}

func config() sim.Config {
	return sim.Config{
		Flows: map[string]string{
			"sw1.yaml":    selFlow("sw1", "sel.com/*"),
			"sw2.yaml":    selFlow("sw2", "sel.com/*"),
			"sw3.yaml":    selFlow("sw3", "sel.com/*"),
			"sa.yaml":     selFlow("sa", "sel.com/a"),
			"sb.yaml":     selFlow("sb", "sel.com/b"),
			"sc.yaml":     selFlow("sc", "sel.com/c"),
			"sd.yaml":     selFlow("sd", "sel.com/d"),
			"flim.yaml":   limiterFlow("flim", "lim.com", "qfixchild"),
			"fconc.yaml":  limiterFlow("fconc", "conc.com", "qconc"),
			"fexp.yaml":   limiterFlow("fexp", "exp.com", "qexp"),
			"ffg.yaml":    limiterFlow("ffg", "fg.com", "qfg"),
			"fqueue.yaml": queueFlow,
			"fretry.yaml": retryFlow,
			"fprobe.yaml": probeFlow,
		},
		Quotas: map[string]string{"qfix.yaml": quotas, "qconc.yaml": quotasConc, "qq.yaml": quotasQueue, "qexp.yaml": quotasExp, "qfg.yaml": quotasFresh},
	}
}

type stats struct {
	limAdmitted, limRefused   atomic.Int64
	concAdmitted, concRefused atomic.Int64
	concInFlight, concMax     atomic.Int64
	queueAllowed, queueBlock  atomic.Int64
	retryAsked                atomic.Int64
	probes                    atomic.Int64
	noReply                   atomic.Int64
	selections                atomic.Int64
	expAdmitted, expAbandoned atomic.Int64
	freshSent, freshRefused   atomic.Int64
}

func worker(eng *sim.Engine, round, wk, n int, st *stats, r *sim.Rand) {
	for i := 0; i < n; i++ {
		id := fmt.Sprintf("r%d-w%d-%d", round, wk, i)
		if (wk+i)%4 == 0 { // besides its main transaction: one on the expiring quota, every second one abandoned
			eid := id + "-exp"
			if res := eng.SendRequest(sim.Txn{ID: eid, Method: "GET", URL: "exp.com/x", Headers: map[string]string{}}); !res.Early() {
				st.expAdmitted.Add(1)
				if i%2 == 0 {
					eng.SendResponse(sim.Txn{ID: eid, Method: "GET", URL: "exp.com/x", Status: 200})
				} else {
					st.expAbandoned.Add(1)
				}
			}
		}
		if (wk+i)%3 == 0 { // a group value first used by about ten transactions at the same time; far below its limit
			fid := id + "-fg"
			res := eng.SendRequest(sim.Txn{ID: fid, Method: "GET", URL: "fg.com/x", Headers: map[string]string{"x-fg": fmt.Sprintf("g%d-%d", round, i)}})
			st.freshSent.Add(1)
			if res.Early() {
				st.freshRefused.Add(1)
			} else {
				eng.SendResponse(sim.Txn{ID: fid, Method: "GET", URL: "fg.com/x", Status: 200})
			}
		}
		switch (wk + i) % 6 {
		case 5: // flow selection isolation: the id names the path, the hook events name the flows that ran
			p := selPaths[(wk+i/6)%len(selPaths)]
			sid := id + "-sel-" + p
			eng.SendRequest(sim.Txn{ID: sid, Method: "GET", URL: "sel.com/" + p, Headers: map[string]string{}})
			eng.SendResponse(sim.Txn{ID: sid, Method: "GET", URL: "sel.com/" + p, Status: 200})
			st.selections.Add(1)
		case 0: // fixed quota with hierarchy and groups
			g := []string{"ga", "gb"}[(wk+i/5)%2]
			res := eng.SendRequest(sim.Txn{ID: id, Method: "GET", URL: "lim.com/x", Headers: map[string]string{"x-group": g}})
			if res.Early() {
				st.limRefused.Add(1)
			} else {
				st.limAdmitted.Add(1)
				eng.SendResponse(sim.Txn{ID: id, Method: "GET", URL: "lim.com/x", Status: 200})
			}
		case 1: // concurrent quota with parent
			res := eng.SendRequest(sim.Txn{ID: id, Method: "GET", URL: "conc.com/x", Headers: map[string]string{}})
			if res.Early() {
				st.concRefused.Add(1)
				continue
			}
			st.concAdmitted.Add(1)
			cur := st.concInFlight.Add(1)
			for {
				m := st.concMax.Load()
				if cur <= m || st.concMax.CompareAndSwap(m, cur) {
					break
				}
			}
			st.concInFlight.Add(-1)
			if i%3 == 0 {
				body := fmt.Sprintf(`{"failed_transactions": {"%s": {}}}`, id)
				eng.Admin("PUT", "/on_haproxy_error", []byte(body))
			} else {
				eng.SendResponse(sim.Txn{ID: id, Method: "GET", URL: "conc.com/x", Status: 200})
			}
		case 2: // queue
			res := eng.SendRequest(sim.Txn{ID: id, Method: "GET", URL: "queue.com/x", Headers: map[string]string{"x-prio": []string{"hi", "lo"}[i%2]}})
			if res.Early() {
				st.queueBlock.Add(1)
			} else {
				st.queueAllowed.Add(1)
				eng.SendResponse(sim.Txn{ID: id, Method: "GET", URL: "queue.com/x", Status: 200})
			}
		case 3: // retry
			eng.SendRequest(sim.Txn{ID: id, Method: "GET", URL: "retry.com/x", Headers: map[string]string{}})
			res := eng.SendResponse(sim.Txn{ID: id, Method: "GET", URL: "retry.com/x", Status: []int{200, 500, 503}[i%3]})
			if v, ok := res.Vars["retry_request"].(bool); ok && v {
				st.retryAsked.Add(1)
			}
		case 4: // probe chain with the transactional context
			h := map[string]string{
				"x-vp-n1": "c=|t=set|a=modhdr:src-n1=1",
				"x-vp-n2": "c=|a=modhdr:src-n2=1",
				"x-vp-n3": "c=|t=get|a=modhdr:src-n3=1",
			}
			res := eng.SendRequest(sim.Txn{ID: id, Method: "GET", URL: "probe.com/x", Headers: h})
			st.probes.Add(1)
			if _, ok := res.Vars["request_headers"]; !ok {
				st.noReply.Add(1)
			}
			eng.SendResponse(sim.Txn{ID: id, Method: "GET", URL: "probe.com/x", Status: 200, Headers: map[string]string{"x-vp-m1": "c="}})
		}
	}
}

func main() {
	sim.ReexecWithEngineEnv(true)
	args := sim.ParseArgs()
	v := sim.NewVerdict("C18", args.Seed, args.Tier, args.Batch, args.Out)
	v.Rule = "case = one stress round on the real engine (race build): 32 goroutines x 40 transactions over limiter (fixed quota with hierarchy and groups), concurrent quota with parent (responses and proxy errors), queue, retry and a probe chain using the transactional context; quiet rounds (no admin traffic) are judged for conservation, noisy rounds add concurrent /load_flows, /configuration and Prometheus scrapes; every race-detector report is a violation keyed by the racing functions; non-trivial iff a round produced admissions and refusals on both quota kinds; distinct by <round kind, outcome counts bucket>"
	v.Assumptions = []string{
		"race reports are deduplicated by the innermost lunar/ function of each of the two conflicting accesses; reports without any lunar/ frame are discarded",
		"conservation is judged only in rounds without reloads (a reload legitimately replaces quota state)",
		"real clock (the mock clock is test infrastructure)",
	}
	eng, err := sim.BootEngine(config())
	if err != nil {
		v.Inconclude("engine did not boot: " + err.Error())
		os.Exit(v.Write())
	}
	var ctxMu sync.Mutex
	ctxBad := map[string]int{}
	ctxOK := 0
	selRan := map[string]map[string]bool{} // selection transaction id -> flows whose probe ran on its request
	sim.GlobalSink.OnEach(func(e verifhook.Event) {
		if e.Kind == "proc" && len(e.Args) >= 5 && strings.Contains(e.Args[4], "-sel-") {
			ctxMu.Lock()
			m := selRan[e.Args[4]]
			if m == nil {
				m = map[string]bool{}
				selRan[e.Args[4]] = m
			}
			m[e.Args[0]] = true
			ctxMu.Unlock()
			return
		}
		if e.Kind != "probe.ctx" || len(e.Args) < 4 {
			return
		}
		ctxMu.Lock()
		if e.Args[3] == "ok" {
			ctxOK++
		} else {
			k := e.Args[2] + "/" + strings.SplitN(e.Args[3], ":", 2)[0]
			ctxBad[k]++
		}
		ctxMu.Unlock()
	})
	rounds := args.Pick(2, 8)
	metricsURL := "http://127.0.0.1:" + os.Getenv("METRICS_LISTEN_PORT") + "/metrics"
	for rd := 0; rd < rounds; rd++ {
		round := args.Batch*1000 + rd
		noisy := rd%2 == 1
		v.Eval(1)
		// fresh quota state for the round
		if code, body := eng.Admin("POST", "/load_flows", nil); code != 200 {
			v.Inconclude(fmt.Sprintf("reload before round failed: %d %s", code, body))
			break
		}
		sim.GlobalSink.Drain()
		calib := map[string]string{}
		for _, p := range selPaths {
			var seen [2]string
			for k := 0; k < 2; k++ {
				cid := fmt.Sprintf("calib%d-%d-sel-%s", round, k, p)
				eng.SendRequest(sim.Txn{ID: cid, Method: "GET", URL: "sel.com/" + p, Headers: map[string]string{}})
				eng.SendResponse(sim.Txn{ID: cid, Method: "GET", URL: "sel.com/" + p, Status: 200})
				ctxMu.Lock()
				seen[k] = strings.Join(sim.SortedKeys(selRan[cid]), ",")
				delete(selRan, cid)
				ctxMu.Unlock()
			}
			if seen[0] == seen[1] {
				calib[p] = seen[0]
			} else {
				v.Count("selection_calibration_unstable", 1)
			}
		}
		st := &stats{}
		var stop atomic.Bool
		var bg sync.WaitGroup
		scrapes := 0
		var reloads atomic.Int64
		// metrics scrapes run in every round (they read quota state)
		bg.Add(1)
		go func() {
			defer bg.Done()
			for !stop.Load() {
				if resp, err := http.Get(metricsURL); err == nil {
					_, _ = io.Copy(io.Discard, resp.Body)
					resp.Body.Close()
					scrapes++
				}
				time.Sleep(2 * time.Millisecond)
			}
		}()
		for adm := 0; noisy && adm < 2; adm++ {
			// two administrators: admin requests run on their own goroutines and may overlap each other
			bg.Add(1)
			go func(adm int) {
				defer bg.Done()
				payload := sim.Payload{Flows: map[string]string{"fprobe.yaml": sim.B64(probeFlow)}}.JSON()
				for i := adm; !stop.Load(); i++ {
					if i%2 == 0 {
						eng.Admin("POST", "/load_flows", nil)
					} else {
						eng.Admin("PUT", "/configuration", bytes.Clone(payload))
					}
					reloads.Add(1)
					time.Sleep(time.Duration(5+2*adm) * time.Millisecond)
				}
			}(adm)
		}
		var wg sync.WaitGroup
		workers, per := 32, 40
		start := make(chan struct{})
		for wk := 0; wk < workers; wk++ {
			wg.Add(1)
			go func(wk int) {
				defer wg.Done()
				<-start
				worker(eng, round, wk, per, st, args.CaseRand(round*100+wk))
			}(wk)
		}
		// the expiring quota: a block of abandoned transactions first; traffic on that quota then runs until
		// the collector has had two ticks to find them expired (workload shaping only, nothing is judged on time)
		abandonedAt := time.Now()
		if !noisy {
			for k := 0; k < 60; k++ {
				eng.SendRequest(sim.Txn{ID: fmt.Sprintf("r%d-abandoned-%d", round, k), Method: "GET", URL: "exp.com/x", Headers: map[string]string{}})
			}
			st.expAbandoned.Add(60)
			bg.Add(1)
			go func() {
				defer bg.Done()
				for k := 0; !stop.Load() || time.Since(abandonedAt) < 2600*time.Millisecond; k++ {
					eid := fmt.Sprintf("r%d-expbg-%d", round, k)
					if res := eng.SendRequest(sim.Txn{ID: eid, Method: "GET", URL: "exp.com/x", Headers: map[string]string{}}); !res.Early() {
						st.expAdmitted.Add(1)
						eng.SendResponse(sim.Txn{ID: eid, Method: "GET", URL: "exp.com/x", Status: 200})
					}
					if time.Since(abandonedAt) > 6*time.Second {
						break
					}
				}
			}()
		}
		close(start)
		wg.Wait()
		stop.Store(true)
		bg.Wait()
		sim.GlobalSink.Drain()
		v.Count("rounds", 1)
		v.Count("transactions", workers*per)
		v.Count("metrics_scrapes", scrapes)
		v.Count("reloads_during_rounds", int(reloads.Load()))
		v.Count("lim_admitted", int(st.limAdmitted.Load()))
		v.Count("lim_refused", int(st.limRefused.Load()))
		v.Count("conc_admitted", int(st.concAdmitted.Load()))
		v.Count("conc_refused", int(st.concRefused.Load()))
		v.Count("queue_allowed", int(st.queueAllowed.Load()))
		v.Count("queue_blocked", int(st.queueBlock.Load()))
		v.Count("retries_requested", int(st.retryAsked.Load()))
		v.Count("expiring_quota_admitted", int(st.expAdmitted.Load()))
		v.Count("expiring_quota_abandoned", int(st.expAbandoned.Load()))
		note := fmt.Sprintf("round %d noisy=%v: lim %d/%d conc %d/%d (max in flight seen %d) queue %d/%d retries %d probes %d scrapes %d reloads %d",
			round, noisy, st.limAdmitted.Load(), st.limRefused.Load(), st.concAdmitted.Load(), st.concRefused.Load(), st.concMax.Load(),
			st.queueAllowed.Load(), st.queueBlock.Load(), st.retryAsked.Load(), st.probes.Load(), scrapes, reloads.Load())
		if !noisy {
			// conservation: fixed quota 25 per group on the child (2 groups), parent 40 per group
			if adm := st.limAdmitted.Load(); adm > 50 {
				v.Violate("C18/fixed-quota-over-admission", fmt.Sprintf("%d requests admitted, two groups of 25 allow 50 (%s)", adm, note), note)
			} else if adm < 50 && st.limRefused.Load() > 0 {
				v.Violate("C18/fixed-quota-lost-admissions", fmt.Sprintf("only %d requests admitted although %d were refused and two groups of 25 allow 50 (%s)", adm, st.limRefused.Load(), note), note)
			}
			if m := st.concMax.Load(); m > 4 {
				v.Violate("C18/concurrent-quota-over-admission", fmt.Sprintf("in-flight monitor saw %d > 4 (%s)", m, note), note)
			}
		}
		// flow selection isolation: a sel.com/<p> transaction runs its own path's flow and never the
		// flow of another path (sound for any tree build order); in reload-free rounds it also runs
		// exactly what a transaction alone ran for that path right after the reload (calibration)
		ctxMu.Lock()
		for sid, ran := range selRan {
			p := sid[strings.LastIndex(sid, "-")+1:]
			if strings.HasPrefix(sid, "calib") {
				continue
			}
			v.Count("selection_transactions_judged", 1)
			got := strings.Join(sim.SortedKeys(ran), ",")
			bad := ""
			for f := range ran {
				if len(f) == 2 && f[0] == 's' && f[1:] != p {
					bad = fmt.Sprintf("transaction %s (sel.com/%s) ran flow %s of another path; flows that ran: %s", sid, p, f, got)
				}
			}
			if bad == "" && !ran["s"+p] {
				bad = fmt.Sprintf("transaction %s (sel.com/%s) did not run its own flow s%s; flows that ran: %s", sid, p, p, got)
			}
			if bad == "" && !noisy && calib[p] != "" && got != calib[p] {
				bad = fmt.Sprintf("transaction %s (sel.com/%s) ran %s, a transaction alone ran %s", sid, p, got, calib[p])
			}
			if bad != "" {
				v.Violate("C18/flow-selection/transaction-ran-flows-selected-for-another", bad+" ("+note+")", bad)
				break
			}
		}
		for k := range selRan {
			delete(selRan, k)
		}
		ctxMu.Unlock()
		if !noisy {
			// bursts on group values nobody has used: 8 transactions released together per new group
			for b := 0; b < 1500; b++ {
				g := fmt.Sprintf("burst%d-%d", round, b)
				var bw sync.WaitGroup
				var ready atomic.Int64
				gate := make(chan struct{})
				for c := 0; c < 8; c++ {
					bw.Add(1)
					go func(c int) {
						defer bw.Done()
						if ready.Add(1) == 8 {
							close(gate)
						}
						<-gate
						fid := fmt.Sprintf("r%d-%s-%d", round, g, c)
						res := eng.SendRequest(sim.Txn{ID: fid, Method: "GET", URL: "fg.com/x", Headers: map[string]string{"x-fg": g}})
						st.freshSent.Add(1)
						if res.Early() {
							st.freshRefused.Add(1)
						} else {
							eng.SendResponse(sim.Txn{ID: fid, Method: "GET", URL: "fg.com/x", Status: 200})
						}
					}(c)
				}
				bw.Wait()
			}
		}
		v.Count("fresh_group_transactions", int(st.freshSent.Load()))
		if n := st.freshRefused.Load(); n > 0 && !noisy {
			v.Violate("C18/fixed-quota-lost-admissions/first-use-of-a-group", fmt.Sprintf("%d of %d transactions whose group value was first used in this round (about ten at a time, limit 1000 per group) were refused (%s)", n, st.freshSent.Load(), note), note)
		}
		if st.noReply.Load() > 0 {
			v.Violate("C18/probe-actions-lost", fmt.Sprintf("%d probe transactions got no request_headers action back (%s)", st.noReply.Load(), note), note)
		}
		if st.limAdmitted.Load() > 0 && st.limRefused.Load() > 0 && st.concAdmitted.Load() > 0 {
			v.Distinct(fmt.Sprintf("round-%d/noisy=%v", round, noisy))
			v.Distinct(fmt.Sprintf("noisy=%v/lim%d/conc%d/queue%d", noisy, st.limAdmitted.Load()/10, st.concRefused.Load()/20, st.queueBlock.Load()/20))
		}
		v.Sample(note)
	}
	ctxMu.Lock()
	v.Count("probe_ctx_ok", ctxOK)
	if len(ctxBad) > 0 {
		total := 0
		for k, n := range ctxBad {
			v.Count("probe_ctx_bad:"+k, n)
			total += n
		}
		// one signature for every way the shared per-flow context shows up (nil = cleared by another
		// execution, other = another transaction's id, missing = key gone): which of them a run
		// sees depends on the schedule, the defect is one
		v.Violate("C18/transaction-context/shared-per-flow-context", fmt.Sprintf("the probe wrote its transaction id into the transactional context at the first node of its flow and read it back at the last: %d executions did not find their own id (%v)", total, ctxBad), ctxBad)
	}
	ctxMu.Unlock()
	if ctxOK == 0 && len(ctxBad) == 0 {
		v.Inconclude("the transactional-context probe was never observed")
	}
	os.Exit(v.Write())
}
