// C18 (policy mode) - concurrent transactions through the real routing.Handler in policy mode
// (strategy-based throttling and queue, caching, fixed response, retry remedies) while policies are
// re-applied, reverted and vacuumed. Built with -race; the driver judges the race reports.
package main

import (
	"fmt"
	"os"
	"strings"
	"sync"
	"sync/atomic"
	"time"

	"verif/harness/sim"
)

func policies(window int) string {
	return fmt.Sprintf(`global:
  remedies: []
  diagnosis: []
endpoints:
  - url: thr.com/*
    method: GET
    remedies:
      - name: thr
        enabled: true
        config:
          strategy_based_throttling:
            allowed_request_count: 20
            window_size_in_seconds: %d
            response_status_code: 429
  - url: cache.com/*
    method: GET
    remedies:
      - name: cache
        enabled: true
        config:
          caching:
            ttl_seconds: 1
            max_record_size_bytes: 1000
            max_cache_size_megabytes: 1
  - url: fixed.com/*
    method: GET
    remedies:
      - name: fixed
        enabled: true
        config:
          fixed_response:
            status_code: 418
  - url: q.com/*
    method: GET
    remedies:
      - name: q
        enabled: true
        config:
          strategy_based_queue:
            allowed_request_count: 50
            window_size_in_seconds: 1
            response_status_code: 429
            ttl_seconds: 1
            queue_size: 10
  - url: retry.com/*
    method: GET
    remedies:
      - name: retry
        enabled: true
        config:
          retry:
            attempts: 2
            initial_cooldown_seconds: 0
            cooldown_multiplier: 0
            conditions:
              status_code:
                - from: 500
                  to: 599
`, window)
}

func main() {
	sim.ReexecWithEngineEnv(false)
	args := sim.ParseArgs()
	v := sim.NewVerdict("C18", args.Seed, args.Tier, args.Batch, args.Out)
	v.Rule = "policy-mode stress round (race build): 24 goroutines x 30 request/response pairs over throttling, caching, fixed-response, queue and retry remedies while /apply_policies, /revert_to_diagnosis_free and /revert_to_last_loaded run concurrently; non-trivial iff throttling both passed and rejected requests and the cache served a hit"
	v.Assumptions = []string{"policy file and exporters on scratch paths; no diagnosis plugins enabled"}
	must(os.WriteFile(os.Getenv("LUNAR_PROXY_POLICIES_CONFIG"), []byte(policies(1)), 0o644))
	eng, err := sim.BootEngine(sim.Config{})
	if err != nil {
		v.Inconclude("engine did not boot in policy mode: " + err.Error())
		os.Exit(v.Write())
	}
	rounds := args.Pick(5, 8)
	for rd := 0; rd < rounds; rd++ {
		v.Eval(1)
		round := args.Batch*100 + rd
		var passed, rejected, hits, fixed, retries, queued atomic.Int64
		var stop atomic.Bool
		var bg sync.WaitGroup
		var applied atomic.Int64
		// two administrators at once: each admin HTTP request runs on its own goroutine in the engine, so swaps may
		// overlap each other as well as the traffic
		for adm := 0; adm < 2; adm++ {
			bg.Add(1)
			go func(adm int) {
				defer bg.Done()
				for i := adm * 2; !stop.Load(); i++ {
					switch i % 4 {
					case 0:
						eng.Admin("POST", "/apply_policies", []byte(policies(1+i%2)))
					case 1:
						eng.Admin("POST", "/revert_to_diagnosis_free", nil)
					case 2:
						eng.Admin("POST", "/revert_to_last_loaded", nil)
					case 3:
						eng.Admin("POST", "/apply_policies", nil)
					}
					applied.Add(1)
					time.Sleep(time.Duration(2+adm) * time.Millisecond)
				}
			}(adm)
		}
		var wg, mwg sync.WaitGroup
		start := make(chan struct{})
		for wk := 0; wk < 24; wk++ {
			mwg.Add(1)
			go func(wk int) {
				defer mwg.Done()
				<-start
				for i := 0; i < 30; i++ {
					id := fmt.Sprintf("p%d-%d-%d", round, wk, i)
					host := []string{"thr.com", "cache.com", "fixed.com", "q.com", "retry.com"}[(wk+i)%5]
					h := map[string]string{}
					if host == "fixed.com" {
						h["early-response"] = "true"
					}
					url := host + "/x"
					if host == "cache.com" {
						url = fmt.Sprintf("cache.com/k%d", i%3)
						if (wk+i)%2 == 0 { // a key of its own: always a miss, so responses are stored concurrently
							url = fmt.Sprintf("cache.com/u%d-%d-%d", round, wk, i)
						}
					}
					res := eng.SendRequest(sim.Txn{ID: id, Method: "GET", URL: url, Headers: h})
					if res.Early() {
						switch host {
						case "thr.com":
							rejected.Add(1)
						case "cache.com":
							hits.Add(1)
						case "fixed.com":
							fixed.Add(1)
						case "q.com":
							queued.Add(1)
						}
						continue
					}
					if host == "thr.com" {
						passed.Add(1)
					}
					status := 200
					if host == "retry.com" {
						status = []int{200, 500, 503}[i%3]
					}
					rr := eng.SendResponse(sim.Txn{ID: id, Method: "GET", URL: url, Status: status, Headers: map[string]string{"content-type": "text/plain"}, Body: "body-" + id})
					if hdrs, ok := rr.Vars["response_headers"].(string); ok && strings.Contains(strings.ToLower(hdrs), "x-lunar-retry-after") {
						retries.Add(1)
					}
				}
			}(wk)
		}
		// swap isolation: fixed.com carries a fixed-response remedy in every policy set that is ever
		// installed (apply, both reverts), so a request with the early-response header is answered 418
		// whichever set - old or new - handles it; anything else was handled with no installed set
		var swapProbes, swapBad atomic.Int64
		var swapWitness atomic.Value
		for wk := 0; wk < 8; wk++ {
			wg.Add(1)
			go func(wk int) {
				defer wg.Done()
				defer func() {
					if r := recover(); r != nil {
						swapBad.Add(1)
						swapWitness.CompareAndSwap(nil, fmt.Sprintf("panic in the engine while handling a request during a policy swap: %v", r))
					}
				}()
				<-start
				for i := 0; !stop.Load() && i < 4000; i++ {
					id := fmt.Sprintf("s%d-%d-%d", round, wk, i)
					res := eng.SendRequest(sim.Txn{ID: id, Method: "GET", URL: "fixed.com/swap", Headers: map[string]string{"early-response": "true"}})
					swapProbes.Add(1)
					if !res.Early() || res.Status() != 418 {
						swapBad.Add(1)
						swapWitness.CompareAndSwap(nil, fmt.Sprintf("%s: early=%v vars=%v", id, res.Early(), res.Vars))
						eng.SendResponse(sim.Txn{ID: id, Method: "GET", URL: "fixed.com/swap", Status: 200})
					}
				}
			}(wk)
		}
		var mainWg sync.WaitGroup
		mainWg.Add(1)
		go func() { defer mainWg.Done(); mwg.Wait(); stop.Store(true) }()
		close(start)
		mainWg.Wait()
		wg.Wait()
		bg.Wait()
		v.Count("swap_isolation_probes", int(swapProbes.Load()))
		if n := swapBad.Load(); n > 0 {
			w, _ := swapWitness.Load().(string)
			v.Violate("C18/policy-swap/transaction-handled-without-any-installed-policy-set", fmt.Sprintf("%d of %d fixed.com requests sent while policies were being swapped were not answered by the fixed-response remedy that every installed policy set contains (first: %s)", n, swapProbes.Load(), w), w)
		}
		note := fmt.Sprintf("round %d: throttling passed %d rejected %d, cache hits %d, fixed %d, queue rejected %d, retries %d, admin ops %d", round, passed.Load(), rejected.Load(), hits.Load(), fixed.Load(), queued.Load(), retries.Load(), applied.Load())
		v.Count("policy_rounds", 1)
		v.Count("policy_transactions", 24*30)
		v.Count("policy_admin_ops", int(applied.Load()))
		v.Count("throttling_passed", int(passed.Load()))
		v.Count("throttling_rejected", int(rejected.Load()))
		v.Count("cache_hits", int(hits.Load()))
		v.Count("fixed_responses", int(fixed.Load()))
		v.Count("retries_requested", int(retries.Load()))
		v.Distinct(fmt.Sprintf("policy-round-%d", round))
		v.Distinct(fmt.Sprintf("policy/p%d/r%d/h%d", passed.Load()/10, rejected.Load()/10, hits.Load()/10))
		v.Sample(note)
	}
	if v.Counters["throttling_passed"] == 0 {
		v.Inconclude("policy-mode rounds never passed a throttled request")
	}
	os.Exit(v.Write())
}

func must(err error) {
	if err != nil {
		panic(err)
	}
}
