// C18 (vacuum) - the background vacuum pass against registrations made while it runs.
//
// MapVacuum (toolkit-core/vacuum) removes per-transaction entries (policy-version pins, limiter slots) a TTL
// after they were registered; its pass snapshots the entry list, reads the clock, deletes, and writes the list
// back. The virtual clock parks the pass in that clock read (a point where the goroutine can be descheduled)
// while other "transactions" register keys; the pass then goes on. Oracle = what any one-at-a-time order gives:
// a key is still in the map until its TTL has passed, and is gone once a tick later than its TTL has run.
package main

import (
	"fmt"
	"os"
	"sync"
	"time"

	"lunar/toolkit-core/vacuum"

	"verif/harness/sim"
)

const (
	ttl  = 30 * time.Second
	tick = 5 * time.Second
)

var t0 = time.Date(2030, 1, 1, 0, 0, 0, 0, time.UTC)

type reg struct {
	Key      string `json:"key"`
	AtMs     int64  `json:"registered_at_ms"`
	InPass   bool   `json:"registered_while_a_pass_was_parked_after_its_snapshot"`
	GoneAtMs int64  `json:"seen_gone_at_ms,omitempty"`
}

type replay struct {
	Case int    `json:"case"`
	Seed uint64 `json:"seed"`
	Regs []reg  `json:"registrations"`
	Note string `json:"note,omitempty"`
}

func main() {
	args := sim.ParseArgs()
	sim.Quiet()
	v := sim.NewVerdict("C18", args.Seed, args.Tier, args.Batch, args.Out)
	v.Rule = "vacuum slice: case = history of key registrations on the real MapVacuum (TTL 30 s, tick 5 s) on a virtual clock; at chosen ticks the pass is parked in its clock read (after it snapshotted the entry list) while further keys are registered; non-trivial iff a key was registered during a parked pass that deleted at least one entry; distinct by <#keys, #parked passes, #registrations inside a pass>"
	v.Assumptions = []string{"a key must be in the map until registration + 30 s and gone after the first tick later than that plus one more tick (35-40 s); in between nothing is demanded"}
	total := args.Pick(300, 6000)
	lo, hi := args.Share(total)
	for i := lo; i < hi; i++ {
		runCase(v, args, i)
	}
	if v.Counters["registrations_inside_a_deleting_pass"] == 0 {
		v.Inconclude("no registration inside a deleting pass in this batch")
	}
	os.Exit(v.Write())
}

func runCase(v *sim.Verdict, args sim.Args, idx int) {
	r := args.CaseRand(6_000_000 + idx)
	v.Eval(1)
	clk := sim.NewVClock(t0)
	m := map[string]int{}
	var mu sync.RWMutex
	vac := vacuum.NewMapVacuum[string, int]("c18v", clk, ttl, tick, m, &mu)
	rp := replay{Case: idx, Seed: args.Seed}
	nowMs := func() int64 { return clk.Now().Sub(t0).Milliseconds() }
	n := 0
	register := func(inPass bool) {
		n++
		k := fmt.Sprintf("k%d", n)
		at := nowMs()
		mu.Lock()
		m[k] = n
		mu.Unlock()
		vac.VacuumKey(k)
		rp.Regs = append(rp.Regs, reg{Key: k, AtMs: at, InPass: inPass})
	}
	has := func(k string) bool {
		mu.RLock()
		defer mu.RUnlock()
		_, ok := m[k]
		return ok
	}
	started := false
	parkedPasses, inside := 0, 0
	// fire every due tick up to target; with parkAt >= 0 the pass of the tick with that index is parked
	ticksRun := 0
	advance := func(d time.Duration, park bool, during func()) bool {
		target := clk.Now().Add(d)
		for {
			pend := clk.Pending()
			if len(pend) == 0 || pend[0].Deadline.After(target) {
				break
			}
			p := pend[0]
			before := clk.Armed(tick)
			// the pass reads the clock only when its list is not empty
			pendingKeys := false
			for _, g := range rp.Regs {
				if has(g.Key) {
					pendingKeys = true
				}
			}
			usePark := park && during != nil && pendingKeys
			if usePark {
				clk.ArmNowGateFor("]).vacuum")
			}
			clk.Fire(p.ID)
			if usePark {
				if clk.WaitNowGateParked(500 * time.Millisecond) {
					parkedPasses++
					during()
				}
				clk.OpenNowGate()
				during = nil
			}
			if !clk.WaitArmed(tick, before+1, 8*time.Second) {
				v.Inconclude(fmt.Sprintf("vacuum case %d: the loop did not re-arm", idx))
				return false
			}
			ticksRun++
		}
		clk.Set(target)
		return true
	}
	judge := func() bool {
		now := nowMs()
		for i := range rp.Regs {
			g := &rp.Regs[i]
			age := now - g.AtMs
			present := has(g.Key)
			switch {
			case age <= 30_000 && !present && g.GoneAtMs == 0:
				v.Violate("C18/vacuum/key-removed-before-its-ttl", fmt.Sprintf("%s registered at %d ms is gone at %d ms (TTL 30 s)", g.Key, g.AtMs, now), rp)
				return false
			case age > 40_000 && present:
				sig := "C18/vacuum/key-never-collected"
				if g.InPass {
					sig = "C18/vacuum/key-registered-during-a-pass-is-never-collected"
				}
				v.Violate(sig, fmt.Sprintf("%s registered at %d ms is still in the map at %d ms, %d ticks have run since (TTL 30 s, tick 5 s)", g.Key, g.AtMs, now, ticksRun), rp)
				return false
			}
			if !present && g.GoneAtMs == 0 {
				g.GoneAtMs = now
			}
		}
		return true
	}
	sim.Guard(v, "C18/vacuum/panic", rp, func() {
		for k := r.Range(1, 3); k > 0; k-- {
			register(false)
		}
		if !started {
			started = true
			if !clk.WaitArmed(tick, 1, 8*time.Second) {
				v.Inconclude("vacuum loop did not start")
				return
			}
		}
		steps := r.Range(3, 7)
		for s := 0; s < steps; s++ {
			d := time.Duration(sim.Pick(r, []int64{1000, 4000, 5000, 9000, 26000, 31000, 36000})) * time.Millisecond
			park := r.Chance(2, 3)
			ok := advance(d, park, func() {
				for k := r.Range(1, 2); k > 0; k-- {
					register(true)
					inside++
				}
			})
			if !ok || !judge() {
				return
			}
			if r.Chance(1, 2) {
				register(false)
			}
		}
		// long enough for everything registered so far to be collected in any one-at-a-time order
		if advance(46*time.Second, false, nil) {
			judge()
		}
	})
	v.Count("vacuum_cases", 1)
	v.Count("vacuum_keys", len(rp.Regs))
	v.Count("passes_parked_after_their_snapshot", parkedPasses)
	deleting := 0
	for _, g := range rp.Regs {
		if g.InPass {
			deleting++
		}
	}
	v.Count("registrations_inside_a_deleting_pass", deleting)
	if inside > 0 {
		v.Distinct(fmt.Sprintf("vac/k%d/p%d/i%d", min(len(rp.Regs), 8), min(parkedPasses, 4), min(inside, 4)))
	}
	if idx%83 == 0 {
		v.Sample(rp)
	}
}
