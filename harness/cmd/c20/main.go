// C20 - the diagnosis fail-safe reacts only to stable health changes and never flaps.
//
// The REAL failsafe.StateChangeWatcher runs (RunInBackground) on a sim.VClock with a scripted
// predicate. Its single goroutine touches the world only through the clock, the predicate and the
// two callbacks - all owned by this harness - so a run is a deterministic discrete-event simulation:
// the controller fires the one pending waiter, the goroutine runs until it parks again on the clock
// (next interval wait or cool-down sleep) and so on. When the script is exhausted the predicate
// registers a sentinel waiter and ends the watcher goroutine with runtime.Goexit (no leak).
//
// Oracle = trace specification written from the property statement (see judge()).
// Every batch additionally drives the real NewDiagnosisFailsafeStateChangeWatcher wiring
// (env-configured, HAProxy stats predicate, TxnPoliciesAccessor reverts) - see wiring.go.
package main

import (
	"encoding/json"
	"fmt"
	"os"
	"runtime"
	"strings"
	"time"

	"github.com/rs/zerolog"

	"lunar/engine/failsafe"

	"verif/harness/sim"
)

var t0 = time.Date(2026, 3, 1, 12, 0, 0, 0, time.UTC)

const sentinelD = 9999 * time.Hour // duration of the "script exhausted" waiter; no config uses it

type wcfg struct {
	N          int   `json:"consecutive_n"`
	IntervalNs int64 `json:"interval_ns"`
	StableNs   int64 `json:"stable_ns"`
	CooldownNs int64 `json:"cooldown_ns"`
	// LatNs[i]: how long check #i takes before it answers (the production predicate is an HTTP GET without a
	// timeout); the clock moves inside the predicate. Empty = every check answers at once.
	LatNs []int64 `json:"predicate_latency_ns,omitempty"`
}

type obsT struct {
	I int   `json:"i"`
	V bool  `json:"v"`
	T int64 `json:"t_ns"` // virtual ns since t0
}

type reactT struct {
	Kind     string `json:"kind"` // "unhealthy" | "healthy"
	T        int64  `json:"t_ns"`
	AfterObs int    `json:"after_obs"` // index of the last observation made before the callback ran
}

type sleepT struct {
	D  int64 `json:"d_ns"`
	At int64 `json:"armed_at_ns"`
}

type trace struct {
	Obs    []obsT   `json:"obs"`
	Reacts []reactT `json:"reactions"`
	Sleeps []sleepT `json:"-"`
	Done   bool     `json:"done"`
}

type replay struct {
	Seed uint64 `json:"seed"`
	Case int    `json:"case"`
	Mode string `json:"mode"` // "watcher" | "wiring"
	Cfg  wcfg   `json:"cfg"`
	Seq  string `json:"seq"` // 'T' / 'F' per observation
}

func seqString(s []bool) string {
	var b strings.Builder
	for _, x := range s {
		if x {
			b.WriteByte('T')
		} else {
			b.WriteByte('F')
		}
	}
	return b.String()
}

func parseSeq(s string) []bool {
	out := make([]bool, 0, len(s))
	for _, c := range s {
		out = append(out, c == 'T')
	}
	return out
}

// drive runs the controller side of the simulation until the sentinel shows up.
func drive(clk *sim.VClock, tr *trace) bool {
	for {
		if !clk.WaitPending(func(sim.Waiter) bool { return true }, 1, 120*time.Second) {
			return false
		}
		p := clk.Pending()[0]
		if p.D == sentinelD {
			clk.Drop(p.ID)
			tr.Done = true
			return true
		}
		tr.Sleeps = append(tr.Sleeps, sleepT{D: int64(p.D), At: int64(p.Deadline.Add(-p.D).Sub(t0))})
		clk.Fire(p.ID)
	}
}

// runWatcher executes one scripted sequence against a fresh real watcher.
func runWatcher(c wcfg, seq []bool) (*trace, bool) {
	clk := sim.NewVClock(t0)
	tr := &trace{}
	next := 0
	cfg := failsafe.Config{
		ObtainPredicate: func() bool {
			if next >= len(seq) {
				clk.After(sentinelD) // tells the controller the script is over
				runtime.Goexit()     // ends the watcher goroutine (it has no Stop)
			}
			v := seq[next]
			if next < len(c.LatNs) && c.LatNs[next] > 0 {
				clk.Set(clk.Now().Add(time.Duration(c.LatNs[next])))
			}
			tr.Obs = append(tr.Obs, obsT{I: next, V: v, T: int64(clk.Now().Sub(t0))})
			next++
			return v
		},
		OnChangeToTrue: func() {
			tr.Reacts = append(tr.Reacts, reactT{Kind: "healthy", T: int64(clk.Now().Sub(t0)), AfterObs: next - 1})
		},
		OnChangeToFalse: func() {
			tr.Reacts = append(tr.Reacts, reactT{Kind: "unhealthy", T: int64(clk.Now().Sub(t0)), AfterObs: next - 1})
		},
		StateTrueName:       "healthy",
		StateFalseName:      "unhealthy",
		MinTimeBetweenCalls: time.Duration(c.IntervalNs),
		ConsecutiveN:        c.N,
		MinStablePeriod:     time.Duration(c.StableNs),
		CooldownPeriod:      time.Duration(c.CooldownNs),
	}
	w := failsafe.NewStateChangeWatcher("c20", cfg, clk, zerolog.Nop())
	w.RunInBackground()
	ok := drive(clk, tr)
	return tr, ok
}

// ---------------------------------------------------------------------------------------------
// Oracle: trace specification from the statement. Nothing here knows how the watcher counts.

type finding struct{ sig, detail string }

func maxRun(obs []obsT) int {
	best, cur := 0, 0
	for i := range obs {
		if i > 0 && obs[i].V == obs[i-1].V {
			cur++
		} else {
			cur = 1
		}
		if cur > best {
			best = cur
		}
	}
	return best
}

func judge(c wcfg, tr *trace) []finding {
	var out []finding
	add := func(sig, f string, a ...any) { out = append(out, finding{sig, fmt.Sprintf(f, a...)}) }
	// (1) strict alternation starting with "unhealthy"
	for k, r := range tr.Reacts {
		want := "unhealthy"
		if k%2 == 1 {
			want = "healthy"
		}
		if r.Kind != want {
			if k == 0 {
				add("C20/alternation/first-reaction-is-healthy", "the first reaction is %q at t=%s", r.Kind, time.Duration(r.T))
			} else {
				add("C20/alternation/repeated-"+r.Kind, "reaction #%d is %q right after another %q (t=%s)", k, r.Kind, tr.Reacts[k-1].Kind, time.Duration(r.T))
			}
			break
		}
	}
	for k, r := range tr.Reacts {
		s := r.Kind == "healthy"
		i := r.AfterObs
		if i < 0 || i >= len(tr.Obs) {
			add("C20/reaction-without-observation/"+r.Kind, "reaction #%d fired before any observation", k)
			continue
		}
		// (2a) the last N observations all equal the new state
		run := 0
		for j := i; j >= 0 && tr.Obs[j].V == s; j-- {
			run++
		}
		if run < c.N || run == 0 {
			flap := ""
			if maxRun(tr.Obs[:i+1]) < c.N {
				flap = " (flapping signal: no run of >= N equal observations anywhere before it)"
			}
			add("C20/too-few-consecutive/"+r.Kind, "reaction %q after observation %d: only %d consecutive observations of the new state, N=%d%s", r.Kind, i, run, c.N, flap)
		}
		// (2b) ... spanning at least the stable period (first to last check of the run)
		if run > 0 {
			start := tr.Obs[i-run+1].T
			if span := tr.Obs[i].T - start; span < c.StableNs {
				add("C20/unstable-period/"+r.Kind, "reaction %q after observation %d: the run of %d checks spans %s < stable period %s", r.Kind, i, run, time.Duration(span), time.Duration(c.StableNs))
			}
		}
		// (3) no reaction strictly inside the cool-down after an "unhealthy" reaction
		for q := 0; q < k; q++ {
			u := tr.Reacts[q]
			if u.Kind == "unhealthy" && r.T > u.T && r.T < u.T+c.CooldownNs {
				add("C20/reaction-in-cooldown/"+r.Kind, "reaction %q at t=%s falls inside the cool-down (%s, %s) of the unhealthy reaction", r.Kind, time.Duration(r.T), time.Duration(u.T), time.Duration(u.T+c.CooldownNs))
				break
			}
		}
	}
	return out
}

// ---------------------------------------------------------------------------------------------
// Workload

var (
	exN      = []int{1, 2, 3}
	exStable = []int64{0, 1, 2, 5}
	exCool   = []int64{0, 3, 10}
)

const exInterval = int64(time.Second)

func exConfigs() []wcfg {
	var out []wcfg
	for _, n := range exN {
		for _, s := range exStable {
			for _, cd := range exCool {
				out = append(out, wcfg{N: n, IntervalNs: exInterval, StableNs: s * exInterval, CooldownNs: cd * exInterval})
			}
		}
	}
	return out
}

// exSeq maps k in [0, 2^(L+1)-2) to the k-th boolean sequence of length 1..L.
func exSeq(k int) []bool {
	l := 1
	for k >= 1<<l {
		k -= 1 << l
		l++
	}
	s := make([]bool, l)
	for b := 0; b < l; b++ {
		s[b] = k>>(l-1-b)&1 == 1
	}
	return s
}

func genRandom(r *sim.Rand) (wcfg, []bool) {
	iv := sim.Pick(r, []int64{int64(time.Millisecond), int64(250 * time.Millisecond), int64(time.Second), int64(7 * time.Second), int64(time.Minute)})
	if r.Chance(1, 40) {
		iv = 0
	}
	unit := iv
	if unit == 0 {
		unit = int64(time.Second)
	}
	c := wcfg{N: r.Range(1, 5), IntervalNs: iv}
	jitter := func(x int64) int64 { // exact multiples, +-1ns, and in-between values
		switch r.Intn(5) {
		case 0:
			return x + 1
		case 1:
			if x > 0 {
				return x - 1
			}
		case 2:
			return x + unit/2
		}
		return x
	}
	c.StableNs = jitter(int64(r.Intn(7)) * unit)
	c.CooldownNs = jitter(int64(sim.Pick(r, []int{0, 0, 1, 2, 3, 5, 10, 20})) * unit)
	n := r.Range(20, 80)
	seq := make([]bool, 0, n)
	if r.Chance(1, 5) { // unstructured
		for len(seq) < n {
			seq = append(seq, r.Bool())
		}
		return c, seq
	}
	// run-structured: run lengths around N and around the stable period, with flapping stretches
	v := r.Chance(2, 3)
	stableRuns := int(c.StableNs/unit) + 1
	for len(seq) < n {
		var l int
		switch r.Intn(4) {
		case 0:
			l = 1
		case 1:
			l = r.Range(1, c.N+1)
		case 2:
			l = r.Range(c.N, c.N+stableRuns+1)
		default:
			l = r.Range(1, stableRuns+2)
		}
		for j := 0; j < l && len(seq) < n; j++ {
			seq = append(seq, v)
		}
		v = !v
	}
	if r.Chance(1, 3) { // some checks are slow
		c.LatNs = make([]int64, len(seq))
		for i := range c.LatNs {
			if r.Chance(1, 4) {
				c.LatNs[i] = sim.Pick(r, []int64{unit / 2, unit, 2 * unit, 4 * unit, 9 * unit})
			}
		}
	}
	return c, seq
}

func bucket(n int) string {
	switch {
	case n == 0:
		return "0"
	case n == 1:
		return "1"
	case n <= 3:
		return "2-3"
	case n <= 7:
		return "4-7"
	}
	return "8+"
}

func runCase(idx int, mode string, args sim.Args, c wcfg, seq []bool, v *sim.Verdict) {
	rp := replay{Seed: args.Seed, Case: idx, Mode: mode, Cfg: c, Seq: seqString(seq)}
	var tr *trace
	ok := true
	sim.Guard(v, "C20/panic/"+mode, rp, func() {
		if mode == "wiring" {
			tr, ok = runWiring(c, seq, v, rp)
		} else {
			tr, ok = runWatcher(c, seq)
		}
	})
	v.Eval(1)
	if tr == nil {
		return
	}
	if !ok {
		v.Inconclude(fmt.Sprintf("case %d: watcher goroutine did not park within the wall-clock watchdog", idx))
		return
	}
	if len(tr.Obs) != len(seq) {
		v.Inconclude(fmt.Sprintf("case %d: %d observations made for a script of %d", idx, len(tr.Obs), len(seq)))
		return
	}
	fs := judge(c, tr)
	for _, f := range fs {
		v.Violate(f.sig, f.detail+fmt.Sprintf(" | cfg=%+v seq=%s reactions=%+v", c, rp.Seq, tr.Reacts), rp)
	}
	// evidence
	nU, nH := 0, 0
	for _, r := range tr.Reacts {
		if r.Kind == "unhealthy" {
			nU++
		} else {
			nH++
		}
	}
	cool := 0
	for _, s := range tr.Sleeps {
		if s.D == c.CooldownNs && c.CooldownNs != c.IntervalNs && c.CooldownNs > 0 {
			cool++
		}
	}
	changes := 0
	for i := 1; i < len(seq); i++ {
		if seq[i] != seq[i-1] {
			changes++
		}
	}
	hasFalse := strings.Contains(rp.Seq, "F")
	flapping := hasFalse && maxRun(tr.Obs) < c.N
	p := mode + ":"
	v.Count(p+"observations", len(tr.Obs))
	v.Count(p+"reactions_unhealthy", nU)
	v.Count(p+"reactions_healthy", nH)
	v.Count(p+"cooldown_sleeps", cool)
	if flapping {
		v.Count(p+"flapping_sequences(no run>=N)", 1)
	}
	if hasFalse && nU == 0 {
		v.Count(p+"unhealthy_seen_but_no_reaction", 1)
	}
	if nU > 0 || hasFalse {
		v.Distinct(fmt.Sprintf("%s|N%d|st%s|cd%s|u%s|h%s|chg%s|flap%v", mode, c.N,
			bucket(int(c.StableNs/max64(c.IntervalNs, 1))), bucket(int(c.CooldownNs/max64(c.IntervalNs, 1))),
			bucket(nU), bucket(nH), bucket(changes), flapping))
	}
	if nU > 0 && nH > 0 && idx%97 == 0 {
		ts := make([]int64, len(tr.Obs))
		for k, o := range tr.Obs {
			ts[k] = o.T
		}
		v.Sample(map[string]any{"case": idx, "mode": mode, "cfg": c, "seq": rp.Seq, "obs_t_ns": ts, "reactions": tr.Reacts})
	}
}

func gcd(a, b uint64) uint64 {
	for b != 0 {
		a, b = b, a%b
	}
	return a
}

func max64(a, b int64) int64 {
	if a > b {
		return a
	}
	return b
}

func main() {
	args := sim.ParseArgs()
	v := sim.NewVerdict("C20", args.Seed, args.Tier, args.Batch, args.Out)
	L := args.Pick(11, 15)
	v.Rule = fmt.Sprintf("case = (consecutive N, interval, stable period, cool-down) x scripted boolean health sequence run through the real StateChangeWatcher goroutine on a virtual clock; exhaustive part: every sequence of length 1..%d x N in {1,2,3} x stable in {0,1,2,5}*interval x cool-down in {0,3,10}*interval; random part: length 20-80, N 1-5, intervals 0/1ms..1min, stable and cool-down at multiples of the interval +-1ns and half-way; non-trivial iff the sequence contains an unhealthy observation (then either a reaction is judged or silence is the expected outcome); distinct by <mode, N, stable bucket, cool-down bucket, #unhealthy, #healthy, #state changes bucket, flapping?>", L)
	v.Assumptions = []string{
		"only-if reading: a reaction requires N consecutive equal observations whose first and last check are >= stable period apart; the monitor never demands that a reaction happens",
		"cool-down interval taken open at both ends: a reaction exactly at unhealthy+cool-down is accepted",
		"reaction instant = virtual time at which the callback runs; observation i = i-th predicate call",
		"the watcher goroutine is ended from inside the harness-owned predicate (runtime.Goexit) once the script is exhausted",
	}
	if args.Replay != "" {
		data, err := os.ReadFile(args.Replay)
		var rp struct {
			Replay replay `json:"replay"`
		}
		if err == nil {
			err = json.Unmarshal(data, &rp)
		}
		if err != nil {
			v.Inconclude("cannot read replay file: " + err.Error())
			os.Exit(v.Write())
		}
		mode := rp.Replay.Mode
		if mode == "" {
			mode = "watcher"
		}
		fmt.Printf("replay case %d mode %s cfg %+v seq %s\n", rp.Replay.Case, mode, rp.Replay.Cfg, rp.Replay.Seq)
		runCase(rp.Replay.Case, mode, args, rp.Replay.Cfg, parseSeq(rp.Replay.Seq), v)
		if wenv != nil {
			os.RemoveAll(wenv.dir)
		}
		os.Exit(v.Write())
	}

	cfgs := exConfigs()
	nSeq := 1<<(L+1) - 2
	nEx := nSeq * len(cfgs)
	nRand := args.Pick(10000, 300000)
	total := nEx + nRand
	lo, hi := args.Share(total)
	stride := uint64(1000003)
	for gcd(stride, uint64(total)) != 1 {
		stride += 2
	}
	v.Exhaustive = true
	v.Extra["exhaustive_bound"] = fmt.Sprintf("all %d boolean sequences of length 1..%d x %d configurations (union over batches)", nSeq, L, len(cfgs))
	for i := lo; i < hi; i++ {
		if (i-lo)%2000 == 0 {
			fmt.Printf("about to run cases %d..%d\n", i, i+1999)
		}
		// multiplicative permutation of the case indices: every batch gets the same mix of short,
		// long and random cases (the union over batches is still the whole enumerated space)
		j := int(uint64(i) * stride % uint64(total))
		if j < nEx {
			runCase(j, "watcher", args, cfgs[j%len(cfgs)], exSeq(j/len(cfgs)), v)
		} else {
			c, seq := genRandom(args.CaseRand(j))
			runCase(j, "watcher", args, c, seq, v)
		}
	}
	wiringBatch(args, v)
	if v.Counters["watcher:reactions_unhealthy"] == 0 || v.Counters["watcher:reactions_healthy"] == 0 {
		v.Inconclude("no unhealthy or no healthy reaction observed in this batch")
	}
	if v.Counters["watcher:unhealthy_seen_but_no_reaction"] == 0 {
		v.Inconclude("no sequence with an unhealthy observation stayed without reaction in this batch")
	}
	os.Exit(v.Write())
}
