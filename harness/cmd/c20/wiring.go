// Wiring mode: the real failsafe.NewDiagnosisFailsafeStateChangeWatcher (configured through the
// DIAGNOSIS_FAILSAFE_* environment variables) against a real config.TxnPoliciesAccessor built by
// config.BuildInitialFromFile. The only thing replaced is http.DefaultTransport: an in-process
// RoundTripper plays HAProxy. GET :9000/metrics;csv is an observation (scripted CSV row for the
// "lunar,BACKEND" stat); every other request is part of a reaction: RevertToLastLoaded PUTs the
// diagnosis-only endpoint, RevertToDiagnosisFree PUTs only the remedy endpoint. http.Client.Do calls a
// custom RoundTripper on the caller's goroutine, so the run stays a deterministic simulation.
package main

import (
	"fmt"
	"io"
	"net/http"
	"os"
	"path/filepath"
	"runtime"
	"strconv"
	"strings"
	"sync"
	"time"

	"github.com/rs/zerolog"

	"lunar/engine/config"
	"lunar/engine/failsafe"

	"verif/harness/sim"
)

const policiesYAML = `global:
  remedies: []
  diagnosis: []
endpoints:
  - url: diaghost/x
    method: GET
    diagnosis:
      - enabled: true
        name: d1
        export: file
        config:
          void: {}
  - url: remhost/y
    method: GET
    remedies:
      - enabled: true
        name: r1
        config:
          fixed_response:
            status_code: 418
exporters:
  file:
    file_dir: /tmp
    file_name: c20-unused.log
`

type rtEvent struct {
	Obs    bool
	V      bool
	Method string
	Path   string
	Body   string
	T      int64
}

type fakeHAProxy struct {
	mu     sync.Mutex
	active bool
	clk    *sim.VClock
	seq    []bool
	next   int
	log    []rtEvent
}

func resp(req *http.Request, body string) *http.Response {
	return &http.Response{
		StatusCode: 200, Status: "200 OK", Proto: "HTTP/1.1", ProtoMajor: 1, ProtoMinor: 1,
		Header: http.Header{}, Body: io.NopCloser(strings.NewReader(body)), Request: req,
	}
}

func (f *fakeHAProxy) RoundTrip(req *http.Request) (*http.Response, error) {
	f.mu.Lock()
	defer f.mu.Unlock()
	body := ""
	if req.Body != nil {
		b, _ := io.ReadAll(req.Body)
		body = string(b)
	}
	if !f.active {
		return resp(req, "OK"), nil
	}
	now := int64(f.clk.Now().Sub(t0))
	if req.URL.Port() == "9000" {
		if f.next >= len(f.seq) {
			f.active = false
			f.clk.After(sentinelD) // tells the controller the script is over
			runtime.Goexit()       // ends the watcher goroutine; the deferred Unlock still runs
		}
		v := f.seq[f.next]
		f.next++
		f.log = append(f.log, rtEvent{Obs: true, V: v, T: now})
		row := "lunar,BACKEND,7,0\n" // session rate != healthy rate -> "connections-unhealthy"
		if v {
			row = "lunar,BACKEND,0,100\n"
		}
		return resp(req, "# pxname,svname,rate,lastsess\nlunar,FRONTEND,3,1\n"+row), nil
	}
	f.log = append(f.log, rtEvent{Method: req.Method, Path: req.URL.Path, Body: body, T: now})
	return resp(req, "OK"), nil
}

type wiringEnv struct {
	dir string
	rt  *fakeHAProxy
	acc *config.TxnPoliciesAccessor
}

var wenv *wiringEnv

func setupWiring() (*wiringEnv, error) {
	if wenv != nil {
		return wenv, nil
	}
	zerolog.SetGlobalLevel(zerolog.Disabled)
	dir, err := os.MkdirTemp("", "c20-wiring-")
	if err != nil {
		return nil, err
	}
	if err := os.WriteFile(filepath.Join(dir, "policies.yaml"), []byte(policiesYAML), 0o644); err != nil {
		return nil, err
	}
	os.Setenv("LUNAR_PROXY_POLICIES_CONFIG", filepath.Join(dir, "policies.yaml"))
	os.Setenv("LUNAR_PROXY_CONFIG_DIR", dir)
	os.Setenv("DIAGNOSIS_FAILSAFE_HEALTHY_SESSION_RATE", "0")
	os.Setenv("DIAGNOSIS_FAILSAFE_HEALTHY_MAX_LAST_SESSION_SEC", "5")
	rt := &fakeHAProxy{}
	http.DefaultTransport = rt
	http.DefaultClient.Transport = rt
	br, err := config.BuildInitialFromFile()
	if err != nil {
		return nil, fmt.Errorf("BuildInitialFromFile: %w", err)
	}
	wenv = &wiringEnv{dir: dir, rt: rt, acc: br.Accessor}
	return wenv, nil
}

func diagCount(acc *config.TxnPoliciesAccessor) int {
	n := len(acc.GetCurrentPoliciesData().Config.Global.Diagnosis)
	for _, e := range acc.GetCurrentPoliciesData().Config.Endpoints {
		n += len(e.Diagnosis)
	}
	return n
}

func runWiring(c wcfg, seq []bool, v *sim.Verdict, rp replay) (*trace, bool) {
	w, err := setupWiring()
	if err != nil {
		v.Inconclude("wiring setup failed: " + err.Error())
		return nil, false
	}
	sec := func(ns int64) string { return strconv.FormatInt(ns/int64(time.Second), 10) }
	os.Setenv("DIAGNOSIS_FAILSAFE_MIN_SEC_BETWEEN_CALLS", sec(c.IntervalNs))
	os.Setenv("DIAGNOSIS_FAILSAFE_CONSECUTIVE_N", strconv.Itoa(c.N))
	os.Setenv("DIAGNOSIS_FAILSAFE_MIN_STABLE_SEC", sec(c.StableNs))
	os.Setenv("DIAGNOSIS_FAILSAFE_COOLDOWN_SEC", sec(c.CooldownNs))
	if err := w.acc.RevertToLastLoaded(); err != nil { // start every case from the loaded (full) policies
		v.Inconclude("wiring reset failed: " + err.Error())
		return nil, false
	}
	clk := sim.NewVClock(t0)
	w.rt.mu.Lock()
	w.rt.clk, w.rt.seq, w.rt.next, w.rt.log, w.rt.active = clk, seq, 0, nil, true
	w.rt.mu.Unlock()
	watcher, err := failsafe.NewDiagnosisFailsafeStateChangeWatcher(w.acc, clk)
	if err != nil {
		v.Inconclude("NewDiagnosisFailsafeStateChangeWatcher: " + err.Error())
		return nil, false
	}
	tr := &trace{}
	watcher.RunInBackground()
	ok := drive(clk, tr)
	w.rt.mu.Lock()
	log := w.rt.log
	w.rt.active = false
	w.rt.mu.Unlock()
	if !ok {
		return tr, false
	}
	// requests between observation i and i+1 = the reaction (if any) that followed observation i
	puts, putDiag := 0, 0
	var firstT int64
	flush := func() {
		if puts == 0 {
			return
		}
		kind := "unhealthy" // RevertToDiagnosisFree: the diagnosis-only endpoint is not (re)managed
		if putDiag > 0 {
			kind = "healthy" // RevertToLastLoaded
		}
		if puts > 1 {
			v.Violate("C20/wiring/several-reverts-after-one-observation",
				fmt.Sprintf("%d policy updates were pushed to HAProxy after observation %d", puts, len(tr.Obs)-1), rp)
		}
		tr.Reacts = append(tr.Reacts, reactT{Kind: kind, T: firstT, AfterObs: len(tr.Obs) - 1})
		puts, putDiag = 0, 0
	}
	for _, e := range log {
		if e.Obs {
			flush()
			tr.Obs = append(tr.Obs, obsT{I: len(tr.Obs), V: e.V, T: e.T})
			continue
		}
		if e.Method == http.MethodPut && e.Path == "/managed_endpoint" {
			if strings.Contains(e.Body, "remhost") {
				if puts == 0 {
					firstT = e.T
				}
				puts++
			}
			if strings.Contains(e.Body, "diaghost") {
				putDiag++
			}
		}
	}
	flush()
	// consistency of the observation channel itself: the accessor's final policies match the last revert
	wantDiag := true
	if n := len(tr.Reacts); n > 0 {
		wantDiag = tr.Reacts[n-1].Kind == "healthy"
	}
	if (diagCount(w.acc) > 0) != wantDiag {
		v.Inconclude(fmt.Sprintf("wiring case %d: accessor policies (diagnosis entries=%d) disagree with the reverts seen at the HAProxy boundary %+v", rp.Case, diagCount(w.acc), tr.Reacts))
	}
	v.Count("wiring:haproxy_requests", len(log)-len(tr.Obs))
	return tr, true
}

const wiringBase = 10_000_000

func wiringBatch(args sim.Args, v *sim.Verdict) {
	cfgs := exConfigs()
	L := args.Pick(6, 10) // prefix-closed: every shorter sequence is a prefix of one of these
	nEx := (1 << L) * len(cfgs)
	nRand := args.Pick(400, 6000)
	lo, hi := args.Share(nEx + nRand)
	defer func() {
		if wenv != nil {
			os.RemoveAll(wenv.dir)
		}
	}()
	for i := lo; i < hi; i++ {
		if (i-lo)%1000 == 0 {
			fmt.Printf("about to run wiring cases %d..%d\n", wiringBase+i, wiringBase+i+999)
		}
		if i < nEx {
			k := i / len(cfgs)
			seq := make([]bool, L)
			for b := 0; b < L; b++ {
				seq[b] = k>>(L-1-b)&1 == 1
			}
			runCase(wiringBase+i, "wiring", args, cfgs[i%len(cfgs)], seq, v)
		} else {
			r := args.CaseRand(wiringBase + i)
			c, seq := genRandom(r)
			iv := int64(r.Range(1, 3)) * int64(time.Second) // the environment variables are whole seconds
			c.IntervalNs = iv
			c.StableNs = int64(r.Intn(7)) * iv
			c.CooldownNs = int64(sim.Pick(r, []int{0, 1, 3, 10})) * iv
			if len(seq) > 40 {
				seq = seq[:40]
			}
			runCase(wiringBase+i, "wiring", args, c, seq, v)
		}
	}
	if v.Counters["wiring:reactions_unhealthy"] == 0 || v.Counters["wiring:reactions_healthy"] == 0 {
		v.Inconclude("wiring: no unhealthy or no healthy revert observed in this batch")
	}
}
