// Package sim is the shared simulation layer of the verification harness.
package sim
