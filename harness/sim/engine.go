package sim

import (
	"bytes"
	"encoding/base64"
	"encoding/json"
	"fmt"
	"io"
	"net"
	"net/http"
	"net/http/httptest"
	"os"
	"path/filepath"
	"runtime/debug"
	"sort"
	"strconv"
	"strings"
	"sync"
	"syscall"
	"time"

	"github.com/negasus/haproxy-spoe-go/action"
	"github.com/negasus/haproxy-spoe-go/message"
	"github.com/negasus/haproxy-spoe-go/request"

	"lunar/engine/routing"
)

// L1: the real routing.HandlingDataManager + routing.Handler + admin mux, against a fake HAProxy.
//
// The engine reads the HAProxy ports into package variables at init time, so the process must be
// started with the environment already in place: ReexecWithEngineEnv picks free ports, exports the
// environment and re-executes the binary once.

const engineChildEnv = "VERIF_ENGINE_ENV_READY"

func freePort() int {
	l, err := net.Listen("tcp", "127.0.0.1:0")
	must(err)
	defer l.Close()
	return l.Addr().(*net.TCPAddr).Port
}

// ReexecWithEngineEnv must be the first call of main() in programs that boot the L1 engine.
func ReexecWithEngineEnv(streams bool) {
	if os.Getenv(engineChildEnv) != "" {
		return
	}
	root := ScratchRoot("l1")
	set := func(k, v string) { os.Setenv(k, v) }
	set(engineChildEnv, root)
	set("HAPROXY_MANAGE_ENDPOINTS_PORT", strconv.Itoa(freePort()))
	set("LUNAR_HEALTHCHECK_PORT", strconv.Itoa(freePort()))
	set("METRICS_LISTEN_PORT", strconv.Itoa(freePort()))
	set("LUNAR_STREAMS_ENABLED", map[bool]string{true: "true", false: "false"}[streams])
	set("LUNAR_PROXY_PROCESSORS_DIRECTORY", ProcessorsDir(root))
	set("LUNAR_PROXY_FLOW_DIRECTORY", filepath.Join(root, "conf", "flows"))
	set("LUNAR_PROXY_QUOTAS_DIRECTORY", filepath.Join(root, "conf", "quotas"))
	set("LUNAR_FLOWS_PATH_PARAM_DIR", filepath.Join(root, "conf", "path_params"))
	set("LUNAR_FLOWS_PATH_PARAM_CONFIG", filepath.Join(root, "policies-from-path-params.yaml"))
	set("LUNAR_PROXY_CONFIG", filepath.Join(root, "conf", "gateway_config.yaml"))
	set("LUNAR_PROXY_METRICS_CONFIG", filepath.Join(root, "conf", "metrics.yaml"))
	// a private copy of the shipped default metrics file, inside the configuration root: the engine may write
	// to this path (it did: an update's metrics went to the default file when no user file existed, which
	// overwrote /repo/proxy/metrics.yaml), and the tree digest of C08 then sees it
	set("LUNAR_PROXY_METRICS_CONFIG_DEFAULT", filepath.Join(root, "conf", "default_metrics.yaml"))
	set("LUNAR_PROXY_POLICIES_CONFIG", filepath.Join(root, "policies.yaml"))
	// the engine persists loaded-policies*.yaml here; without it the files land in the working directory,
	// shared by every concurrently running batch process (a reader then sees a half-written file)
	set("LUNAR_PROXY_CONFIG_DIR", root)
	set("LUNAR_RETRY_REQUEST_TIMEOUT_SEC", "100")
	set("LUNAR_SPOE_PROCESSING_TIMEOUT_SEC", "30")
	set("LUNAR_SERVER_TIMEOUT_SEC", "60")
	set("GATEWAY_INSTANCE_ID", "verif")
	set("TENANT_NAME", "verif")
	set("LUNAR_VERSION", "verif")
	set("LOG_LEVEL", "error")
	set("LUNAR_ENGINE_FAILSAFE_ENABLED", "false")
	// policy mode creates the diagnosis fail-safe watcher unconditionally
	set("DIAGNOSIS_FAILSAFE_MIN_SEC_BETWEEN_CALLS", "3600")
	set("DIAGNOSIS_FAILSAFE_CONSECUTIVE_N", "3")
	set("DIAGNOSIS_FAILSAFE_MIN_STABLE_SEC", "10")
	set("DIAGNOSIS_FAILSAFE_COOLDOWN_SEC", "10")
	set("DIAGNOSIS_FAILSAFE_HEALTHY_SESSION_RATE", "0.5")
	set("DIAGNOSIS_FAILSAFE_HEALTHY_MAX_LAST_SESSION_SEC", "100")
	disc := filepath.Join(root, "discovery.json")
	must(os.WriteFile(disc, []byte("{}"), 0o644))
	set("DISCOVERY_STATE_LOCATION", disc)
	set("REMEDY_STATE_LOCATION", disc)
	for _, d := range []string{"flows", "quotas", "path_params"} {
		must(os.MkdirAll(filepath.Join(root, "conf", d), 0o755))
	}
	exe, err := os.Executable()
	must(err)
	must(syscall.Exec(exe, os.Args, os.Environ()))
}

// EngineRoot is the scratch root created by ReexecWithEngineEnv.
func EngineRoot() string { return os.Getenv(engineChildEnv) }

func ConfDir() string { return filepath.Join(EngineRoot(), "conf") }

// FakeHAProxy records what the engine registers.
type FakeHAProxy struct {
	mu       sync.Mutex
	Requests []string // "METHOD path body"
	failWith int      // != 0: answer every request with this status (the management API is down)
	failOnce string   // != "": the next request whose "METHOD path" contains this gets a 500 (logged as "FAILED ...")
	failSkip int      // ... after letting this many matching requests through
}

// FailOnce makes the management API refuse (500) one request whose "METHOD path" contains match, after
// letting skip matching requests through. The refused request is logged with the prefix "FAILED ".
func (f *FakeHAProxy) FailOnce(match string, skip int) {
	f.mu.Lock()
	f.failOnce, f.failSkip = match, skip
	f.mu.Unlock()
}

// FailWith makes the management API answer every request with status (0 = healthy again).
func (f *FakeHAProxy) FailWith(status int) {
	f.mu.Lock()
	f.failWith = status
	f.mu.Unlock()
}

// StartFakeHAProxy serves the HAProxy management API on the port the engine was told to use
// (HAPROXY_MANAGE_ENDPOINTS_PORT, set by ReexecWithEngineEnv) without booting an engine.
func StartFakeHAProxy() *FakeHAProxy {
	fake := &FakeHAProxy{}
	listenOn(os.Getenv("HAPROXY_MANAGE_ENDPOINTS_PORT"), http.HandlerFunc(fake.handler))
	return fake
}

func (f *FakeHAProxy) handler(w http.ResponseWriter, r *http.Request) {
	body, _ := io.ReadAll(r.Body)
	f.mu.Lock()
	line := r.Method + " " + r.URL.Path + " " + string(body)
	fail := f.failWith
	if f.failOnce != "" && strings.Contains(r.Method+" "+r.URL.Path, f.failOnce) {
		if f.failSkip > 0 {
			f.failSkip--
		} else {
			f.failOnce = ""
			fail = 500
			line = "FAILED " + line
		}
	}
	f.Requests = append(f.Requests, line)
	f.mu.Unlock()
	if fail != 0 {
		w.WriteHeader(fail)
		return
	}
	w.WriteHeader(200)
	_, _ = w.Write([]byte("ok"))
}

func (f *FakeHAProxy) Snapshot() []string {
	f.mu.Lock()
	defer f.mu.Unlock()
	return append([]string(nil), f.Requests...)
}

func (f *FakeHAProxy) Reset() {
	f.mu.Lock()
	f.Requests = nil
	f.mu.Unlock()
}

// Engine is a booted L1 engine.
type Engine struct {
	Data    *routing.HandlingDataManager
	Mux     *http.ServeMux
	Handler routing.MessageHandler
	HAProxy *FakeHAProxy
}

func listenOn(port string, h http.Handler) {
	l, err := net.Listen("tcp", "127.0.0.1:"+port)
	must(err)
	// no keep-alive: the engine opens a new client connection for every management request and leaves it idle;
	// over tens of thousands of requests in one harness process the descriptors would run out
	srv := &http.Server{Handler: h}
	srv.SetKeepAlivesEnabled(false)
	go func() { _ = srv.Serve(l) }()
}

// BootEngine writes the initial configuration, starts the fake HAProxy and boots the real engine.
func BootEngine(cfg Config) (*Engine, error) {
	Quiet()
	WriteConfDir(cfg)
	fake := &FakeHAProxy{}
	h := http.HandlerFunc(fake.handler)
	listenOn(os.Getenv("HAPROXY_MANAGE_ENDPOINTS_PORT"), h)
	listenOn(os.Getenv("LUNAR_HEALTHCHECK_PORT"), h)
	// a syslog sink so that the engine's writer connects at once (best effort: one per machine)
	if l, err := net.Listen("tcp", "127.0.0.1:5140"); err == nil {
		go func() {
			for {
				c, err := l.Accept()
				if err != nil {
					return
				}
				go func() { _, _ = io.Copy(io.Discard, c) }()
			}
		}()
	}
	data := routing.NewHandlingDataManager(30*time.Second, nil)
	if err := data.Setup(nil); err != nil {
		return nil, err
	}
	mux := http.NewServeMux()
	data.SetHandleRoutes(mux)
	return &Engine{Data: data, Mux: mux, Handler: routing.Handler(data), HAProxy: fake}, nil
}

// WriteConfDir replaces the content of the engine's configuration directories with cfg.
func WriteConfDir(cfg Config) {
	conf := ConfDir()
	for _, d := range []string{"flows", "quotas", "path_params"} {
		dir := filepath.Join(conf, d)
		_ = os.RemoveAll(dir)
		must(os.MkdirAll(dir, 0o755))
	}
	_ = os.Remove(filepath.Join(conf, "gateway_config.yaml"))
	_ = os.Remove(filepath.Join(conf, "metrics.yaml"))
	if data, err := os.ReadFile(filepath.Join(RepoRoot(), "proxy", "metrics.yaml")); err == nil {
		must(os.WriteFile(filepath.Join(conf, "default_metrics.yaml"), data, 0o644))
	}
	for n, c := range cfg.Flows {
		must(os.WriteFile(filepath.Join(conf, "flows", n), []byte(c), 0o644))
	}
	for n, c := range cfg.Quotas {
		must(os.WriteFile(filepath.Join(conf, "quotas", n), []byte(c), 0o644))
	}
	for n, c := range cfg.PathParams { // names may contain a sub-directory
		must(os.MkdirAll(filepath.Dir(filepath.Join(conf, "path_params", n)), 0o755))
		must(os.WriteFile(filepath.Join(conf, "path_params", n), []byte(c), 0o644))
	}
}

// TreeDigest returns path -> content for every file under the configuration root.
func TreeDigest() map[string]string {
	out := map[string]string{}
	_ = filepath.Walk(ConfDir(), func(p string, info os.FileInfo, err error) error {
		if err != nil || info.IsDir() {
			return nil
		}
		data, _ := os.ReadFile(p)
		rel, _ := filepath.Rel(ConfDir(), p)
		out[rel] = string(data)
		return nil
	})
	return out
}

func DigestDiff(a, b map[string]string) []string {
	var diff []string
	for k, v := range a {
		if w, ok := b[k]; !ok {
			diff = append(diff, "missing:"+k)
		} else if w != v {
			diff = append(diff, "changed:"+k)
		}
	}
	for k := range b {
		if _, ok := a[k]; !ok {
			diff = append(diff, "added:"+k)
		}
	}
	sort.Strings(diff)
	return diff
}

// Admin performs an admin request against the engine's mux (no network involved).
func (e *Engine) Admin(method, path string, body []byte) (int, string) {
	req := httptest.NewRequest(method, path, bytes.NewReader(body))
	rec := httptest.NewRecorder()
	e.Mux.ServeHTTP(rec, req)
	return rec.Code, rec.Body.String()
}

// Payload builds the JSON body of PUT /configuration and PUT /apply_flows.
type Payload struct {
	Flows         map[string]string `json:"flows,omitempty"`
	Quotas        map[string]string `json:"quotas,omitempty"`
	PathParams    map[string]string `json:"path_params,omitempty"`
	GatewayConfig string            `json:"gateway_config,omitempty"`
	Metrics       string            `json:"metrics,omitempty"`
}

func B64(s string) string { return base64.StdEncoding.EncodeToString([]byte(s)) }

func (p Payload) JSON() []byte {
	out, _ := json.Marshal(p)
	return out
}

func dumpHeaders(h map[string]string) string {
	keys := SortedKeys(h)
	var sb strings.Builder
	for _, k := range keys {
		fmt.Fprintf(&sb, "%s: %s\r\n", k, h[k])
	}
	return sb.String()
}

// SPOEResult is the decoded reply to one SPOE message.
type SPOEResult struct {
	Vars map[string]any
}

func (r SPOEResult) Early() bool {
	v, ok := r.Vars["return_early_response"].(bool)
	return ok && v
}

func (r SPOEResult) Status() int {
	switch x := r.Vars["status_code"].(type) {
	case int:
		return x
	case int64:
		return int(x)
	}
	return 0
}

func (r SPOEResult) Body() string {
	switch x := r.Vars["response_body"].(type) {
	case []byte:
		return string(x)
	case string:
		return x
	}
	return ""
}

func decodeActions(acts action.Actions) SPOEResult {
	res := SPOEResult{Vars: map[string]any{}}
	for _, a := range acts {
		res.Vars[a.Name] = a.Value
	}
	return res
}

// SendRequest pushes a lunar-on-request message through the real routing.Handler.
func (e *Engine) SendRequest(t Txn) SPOEResult {
	msg := message.AcquireMessage()
	msg.Name = "lunar-on-request"
	msg.KV.Add("id", t.ID)
	msg.KV.Add("sequence_id", t.seq())
	msg.KV.Add("method", t.Method)
	msg.KV.Add("scheme", "https")
	msg.KV.Add("url", t.URL)
	msg.KV.Add("path", pathOf(t.URL))
	msg.KV.Add("query", t.Query)
	msg.KV.Add("headers", dumpHeaders(t.Headers))
	msg.KV.Add("body", []byte(t.Body))
	msgs := message.Messages{msg}
	req := &request.Request{Messages: &msgs}
	e.Handler(req)
	return decodeActions(req.Actions)
}

// SendKV pushes an arbitrary SPOE message through the real routing.Handler: hostile input (missing or
// ill-typed arguments, header blocks that do not parse). A panic of the handler is returned, not propagated.
func (e *Engine) SendKV(name string, kvs [][2]any) (res SPOEResult, panicked any) {
	msg := message.AcquireMessage()
	msg.Name = name
	for _, p := range kvs {
		msg.KV.Add(p[0].(string), p[1])
	}
	msgs := message.Messages{msg}
	req := &request.Request{Messages: &msgs}
	func() {
		defer func() {
			if r := recover(); r != nil {
				panicked = fmt.Sprintf("%v\n%s", r, debug.Stack())
			}
		}()
		e.Handler(req)
	}()
	return decodeActions(req.Actions), panicked
}

// SendResponse pushes a lunar-on-response message through the real routing.Handler.
func (e *Engine) SendResponse(t Txn) SPOEResult {
	msg := message.AcquireMessage()
	msg.Name = "lunar-on-response"
	msg.KV.Add("id", t.ID)
	msg.KV.Add("sequence_id", t.seq())
	msg.KV.Add("method", t.Method)
	msg.KV.Add("url", t.URL)
	msg.KV.Add("status", int64(t.Status))
	msg.KV.Add("headers", dumpHeaders(t.Headers))
	msg.KV.Add("body", []byte(t.Body))
	msgs := message.Messages{msg}
	req := &request.Request{Messages: &msgs}
	e.Handler(req)
	return decodeActions(req.Actions)
}
