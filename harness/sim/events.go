package sim

import (
	"sync"

	"lunar/toolkit-core/verifhook"
)

// Sink collects verifhook events. It is installed process-wide.
type Sink struct {
	mu     sync.Mutex
	events []verifhook.Event
	limit  int
	onEach func(verifhook.Event)
}

var GlobalSink = &Sink{}

func init() {
	verifhook.SetSink(GlobalSink.add)
}

func (s *Sink) add(e verifhook.Event) {
	s.mu.Lock()
	s.events = append(s.events, e)
	cb := s.onEach
	s.mu.Unlock()
	if cb != nil {
		cb(e)
	}
}

// OnEach installs a callback run for every event (under the hook mutex: must not Emit).
func (s *Sink) OnEach(cb func(verifhook.Event)) {
	s.mu.Lock()
	s.onEach = cb
	s.mu.Unlock()
}

// Drain returns and clears the collected events.
func (s *Sink) Drain() []verifhook.Event {
	s.mu.Lock()
	defer s.mu.Unlock()
	out := s.events
	s.events = nil
	return out
}

func (s *Sink) Len() int {
	s.mu.Lock()
	defer s.mu.Unlock()
	return len(s.events)
}

// Snapshot returns a copy without clearing.
func (s *Sink) Snapshot() []verifhook.Event {
	s.mu.Lock()
	defer s.mu.Unlock()
	out := make([]verifhook.Event, len(s.events))
	copy(out, s.events)
	return out
}
