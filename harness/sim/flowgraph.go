package sim

import (
	"fmt"
	"strings"
)

// Flow-graph description used by the C04 / C05 generators and rendered to the engine's flow YAML.

type GNode struct {
	Key  string `json:"key"`
	Kind string `json:"kind"` // VerifProbe | MockProcessor | Filter | GenerateResponse | ref (another flow's processor, key "<flow>.<key>")
}

// GEdge is one connection. From=="" means "stream start", To=="" means "stream end".
// FromFlow / ToFlow name another flow (flow end -> processor, processor -> flow start).
type GEdge struct {
	From     string `json:"from,omitempty"`
	Cond     string `json:"cond,omitempty"`
	To       string `json:"to,omitempty"`
	FromFlow string `json:"from_flow,omitempty"`
	ToFlow   string `json:"to_flow,omitempty"`
}

type GFlow struct {
	Name string `json:"name"`
	URL  string `json:"url"`
	// FilterExtra: further lines of the filter section, already indented by two spaces (method, headers,
	// query_params, status_code ...)
	FilterExtra string  `json:"filter_extra,omitempty"`
	Nodes       []GNode `json:"nodes"`
	Req         []GEdge `json:"req"`
	Resp        []GEdge `json:"resp"`
}

func (f GFlow) Node(key string) (GNode, bool) {
	for _, n := range f.Nodes {
		if n.Key == key {
			return n, true
		}
	}
	return GNode{}, false
}

func renderEnd(sb *strings.Builder, role string, e GEdge, from bool) {
	fmt.Fprintf(sb, "      %s:\n", role)
	switch {
	case from && e.FromFlow != "":
		fmt.Fprintf(sb, "        flow:\n          name: %s\n          at: end\n", e.FromFlow)
	case !from && e.ToFlow != "":
		fmt.Fprintf(sb, "        flow:\n          name: %s\n          at: start\n", e.ToFlow)
	case from && e.From == "":
		sb.WriteString("        stream:\n          name: globalStream\n          at: start\n")
	case !from && e.To == "":
		sb.WriteString("        stream:\n          name: globalStream\n          at: end\n")
	case from:
		fmt.Fprintf(sb, "        processor:\n          name: %s\n", e.From)
		if e.Cond != "" {
			fmt.Fprintf(sb, "          condition: %s\n", e.Cond)
		}
	default:
		fmt.Fprintf(sb, "        processor:\n          name: %s\n", e.To)
	}
}

func renderEdges(sb *strings.Builder, edges []GEdge) {
	if len(edges) == 0 {
		// the structural validator wants at least one connection per direction
		sb.WriteString("    - from:\n        stream:\n          name: globalStream\n          at: start\n      to:\n        stream:\n          name: globalStream\n          at: end\n")
		return
	}
	for _, e := range edges {
		sb.WriteString("    -")
		var part strings.Builder
		renderEnd(&part, "from", e, true)
		renderEnd(&part, "to", e, false)
		// first line continues the list marker
		txt := part.String()
		sb.WriteString(" " + strings.TrimPrefix(txt, "      "))
	}
}

// YAML renders the flow file.
func (f GFlow) YAML() string {
	var sb strings.Builder
	fmt.Fprintf(&sb, "name: %s\nfilter:\n  url: \"%s\"\n%sprocessors:\n", f.Name, f.URL, f.FilterExtra)
	for _, n := range f.Nodes {
		if n.Kind == "ref" {
			// "<flow>.<key>": another flow's processor used by name, nothing is defined here
			continue
		}
		fmt.Fprintf(&sb, "  %s:\n    processor: %s\n", n.Key, n.Kind)
		switch n.Kind {
		case "Filter":
			// hit iff header x-f-<key> = yes
			fmt.Fprintf(&sb, "    parameters:\n      - key: header\n        value: x-f-%s=yes\n", strings.ToLower(n.Key))
		case "GenerateResponse":
			fmt.Fprintf(&sb, "    parameters:\n      - key: status\n        value: 418\n      - key: body\n        value: by-%s\n", n.Key)
		}
	}
	if len(f.Nodes) == 0 {
		sb.WriteString("  {}\n")
	}
	sb.WriteString("flow:\n  request:\n")
	renderEdges(&sb, f.Req)
	sb.WriteString("  response:\n")
	renderEdges(&sb, f.Resp)
	return sb.String()
}
