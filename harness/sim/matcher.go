package sim

import "strings"

// Independent URL-pattern matcher written from the property statements (C03, C13, C14), not from
// the engine's trie: literal segment equality; "{p}" = exactly one non-empty segment; a trailing
// "*" = the remaining segments. Host labels are matched like segments but never against path
// segments. Whether a trailing wildcard also matches ZERO remaining segments is left open by the
// statements, so that case is reported as DontCare.

type Tri int

const (
	No Tri = iota
	Yes
	DontCare
)

func (t Tri) String() string { return [...]string{"no", "yes", "dontcare"}[t] }

type Part struct {
	Host bool
	Val  string
}

func (p Part) IsParam() bool {
	return strings.HasPrefix(p.Val, "{") && strings.HasSuffix(p.Val, "}") && len(p.Val) >= 2
}

// SplitURL splits "host.tld/seg/seg" into host labels and path segments.
func SplitURL(u string) []Part {
	u = strings.Trim(u, "./")
	segs := strings.Split(u, "/")
	var out []Part
	for _, h := range strings.Split(segs[0], ".") {
		out = append(out, Part{Host: true, Val: h})
	}
	for _, s := range segs[1:] {
		out = append(out, Part{Host: false, Val: s})
	}
	return out
}

type Pattern struct {
	Raw      string
	Parts    []Part // without the trailing wildcard
	Wildcard bool
	// WildHost: the wildcard stands in host position (pattern "*" or "a.*")
	WildHost bool
}

func ParsePattern(s string) Pattern {
	parts := SplitURL(s)
	p := Pattern{Raw: s}
	if n := len(parts); n > 0 && parts[n-1].Val == "*" {
		p.Wildcard = true
		p.WildHost = parts[n-1].Host
		parts = parts[:n-1]
	}
	p.Parts = parts
	return p
}

// Match decides whether url satisfies the pattern.
func (p Pattern) Match(url string) Tri {
	up := SplitURL(url)
	if len(up) < len(p.Parts) {
		return No
	}
	for i, pp := range p.Parts {
		u := up[i]
		if u.Host != pp.Host {
			return No
		}
		if pp.IsParam() {
			if u.Val == "" {
				return No
			}
			continue
		}
		if pp.Val != u.Val {
			return No
		}
	}
	rest := up[len(p.Parts):]
	if !p.Wildcard {
		if len(rest) == 0 {
			return Yes
		}
		return No
	}
	if len(rest) == 0 {
		return DontCare
	}
	// a path wildcard ("host/*") cannot swallow further host labels: a.com/* vs a.com.evil/x
	if !p.WildHost && rest[0].Host {
		return No
	}
	return Yes
}

// PathParams returns the url's segments at the pattern's parameter positions.
func (p Pattern) PathParams(url string) map[string]string {
	up := SplitURL(url)
	out := map[string]string{}
	for i, pp := range p.Parts {
		if pp.IsParam() && i < len(up) {
			out[strings.Trim(pp.Val, "{}")] = up[i].Val
		}
	}
	return out
}

// kind of pattern position i for the specificity order: 3 literal, 2 parameter, 1 wildcard, 0 absent
func (p Pattern) kindAt(i int) int {
	if i < len(p.Parts) {
		if p.Parts[i].IsParam() {
			return 2
		}
		return 3
	}
	if p.Wildcard {
		return 1
	}
	return 0
}

// MoreSpecific reports whether a is strictly more specific than b segment-wise (literal over
// parameter over wildcard), comparing position by position over the url's length.
func MoreSpecific(a, b Pattern, urlLen int) bool {
	for i := 0; i < urlLen; i++ {
		ka, kb := a.kindAt(i), b.kindAt(i)
		if ka != kb {
			return ka > kb
		}
	}
	return false
}

// Normalized renders the pattern as the engine reports it (parameters and wildcard kept).
func (p Pattern) String() string { return p.Raw }
