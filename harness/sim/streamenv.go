package sim

import (
	_ "embed"
	"fmt"
	"os"
	"path/filepath"
	"sort"
	"sync/atomic"
	"time"

	"github.com/rs/zerolog"

	"lunar/engine/actions"
	lunarmsg "lunar/engine/messages"
	"lunar/engine/streams"
	streamconfig "lunar/engine/streams/config"
	lunarcontext "lunar/engine/streams/lunar-context"
	publictypes "lunar/engine/streams/public-types"
	streamtypes "lunar/engine/streams/types"
	contextmanager "lunar/toolkit-core/context-manager"
)

//go:embed assets/verif_probe_processor.yaml
var verifProbeYAML []byte

// RepoRoot is the repository under test.
func RepoRoot() string {
	if v := os.Getenv("VERIF_REPO"); v != "" {
		return v
	}
	return "/repo"
}

func EngineDir() string {
	return filepath.Join(RepoRoot(), "proxy", "src", "services", "lunar-engine")
}

var quietOnce atomic.Bool

// Quiet turns the engine's zerolog output off (VERIF_LOG=1 keeps it).
func Quiet() {
	if quietOnce.Swap(true) {
		return
	}
	if os.Getenv("VERIF_LOG") == "" {
		zerolog.SetGlobalLevel(zerolog.Disabled)
	}
}

// ScratchRoot returns a fresh scratch directory outside /repo and /verif.
func ScratchRoot(prefix string) string {
	base := os.Getenv("VERIF_SCRATCH")
	if base == "" {
		base = os.TempDir()
	}
	dir, err := os.MkdirTemp(base, prefix+"-")
	if err != nil {
		panic(err)
	}
	return dir
}

// ProcessorsDir creates (once per process) a processors registry directory: the repository's own
// registry YAML files plus the VerifProbe definition.
func ProcessorsDir(root string) string {
	dst := filepath.Join(root, "processors")
	if _, err := os.Stat(dst); err == nil {
		return dst
	}
	must(os.MkdirAll(dst, 0o755))
	src := filepath.Join(EngineDir(), "streams", "processors", "registry")
	entries, err := os.ReadDir(src)
	must(err)
	for _, e := range entries {
		if e.IsDir() {
			continue
		}
		data, err := os.ReadFile(filepath.Join(src, e.Name()))
		must(err)
		must(os.WriteFile(filepath.Join(dst, e.Name()), data, 0o644))
	}
	must(os.WriteFile(filepath.Join(dst, "verif_probe_processor.yaml"), verifProbeYAML, 0o644))
	return dst
}

func must(err error) {
	if err != nil {
		panic(err)
	}
}

// StreamEnv is one configuration (flow + quota files) loaded into a real streams.Stream.
type StreamEnv struct {
	Root      string
	FlowsDir  string
	QuotasDir string
	Stream    *streams.Stream
	Shared    publictypes.SharedStateI[[]byte]
}

// Config is a set of YAML files.
type Config struct {
	Flows  map[string]string `json:"flows"`
	Quotas map[string]string `json:"quotas"`
	// PathParams: files under path_params/ (L1 only; names may contain a sub-directory)
	PathParams map[string]string `json:"path_params,omitempty"`
}

var envCounter atomic.Uint64

// WriteConfig materialises cfg under root/<n>/ and points the engine's environment at it.
func WriteConfig(root string, cfg Config) (flowsDir, quotasDir string) {
	n := envCounter.Add(1)
	base := filepath.Join(root, fmt.Sprintf("cfg%d", n))
	flowsDir = filepath.Join(base, "flows")
	quotasDir = filepath.Join(base, "quotas")
	ppDir := filepath.Join(base, "path_params")
	must(os.MkdirAll(flowsDir, 0o755))
	must(os.MkdirAll(quotasDir, 0o755))
	must(os.MkdirAll(ppDir, 0o755))
	for name, content := range cfg.Flows {
		must(os.WriteFile(filepath.Join(flowsDir, name), []byte(content), 0o644))
	}
	for name, content := range cfg.Quotas {
		must(os.WriteFile(filepath.Join(quotasDir, name), []byte(content), 0o644))
	}
	os.Setenv("LUNAR_PROXY_FLOW_DIRECTORY", flowsDir)
	os.Setenv("LUNAR_PROXY_QUOTAS_DIRECTORY", quotasDir)
	os.Setenv("LUNAR_FLOWS_PATH_PARAM_DIR", ppDir)
	os.Setenv("LUNAR_FLOWS_PATH_PARAM_CONFIG", filepath.Join(base, "policies.yaml"))
	os.Setenv("LUNAR_PROXY_PROCESSORS_DIRECTORY", ProcessorsDir(root))
	return flowsDir, quotasDir
}

// BaseEnv sets the environment variables the engine expects in every mode.
func BaseEnv() {
	Quiet()
	setDefault := func(k, v string) {
		if os.Getenv(k) == "" {
			os.Setenv(k, v)
		}
	}
	setDefault("LUNAR_STREAMS_ENABLED", "true")
	setDefault("LUNAR_RETRY_REQUEST_TIMEOUT_SEC", "100")
	setDefault("LUNAR_SPOE_PROCESSING_TIMEOUT_SEC", "30")
	setDefault("LUNAR_SERVER_TIMEOUT_SEC", "60")
	setDefault("GATEWAY_INSTANCE_ID", "verif")
	setDefault("TENANT_NAME", "verif")
}

// NewStreamEnv builds and initialises a real stream engine for cfg. The error is the engine's.
func NewStreamEnv(root string, cfg Config) (*StreamEnv, error) {
	BaseEnv()
	flowsDir, quotasDir := WriteConfig(root, cfg)
	st, err := streams.NewStream()
	if err != nil {
		return nil, err
	}
	if err := st.Initialize(); err != nil {
		return nil, err
	}
	return &StreamEnv{
		Root: root, FlowsDir: flowsDir, QuotasDir: quotasDir, Stream: st,
		Shared: lunarcontext.NewMemoryState[[]byte](),
	}, nil
}

// UseClock installs c as the process-wide engine clock.
func UseClock(c interface {
	Now() time.Time
	Sleep(time.Duration)
	After(time.Duration) <-chan time.Time
	Since(time.Time) time.Duration
	Until(time.Time) time.Duration
},
) {
	contextmanager.Get().SetClockForVerif(c)
}

// Txn describes one transaction message.
type Txn struct {
	ID      string            `json:"id"`
	SeqID   string            `json:"seq_id,omitempty"`
	Method  string            `json:"method"`
	URL     string            `json:"url"` // host/path (no scheme, no query)
	Query   string            `json:"query,omitempty"`
	Headers map[string]string `json:"headers,omitempty"`
	Body    string            `json:"body,omitempty"`
	Status  int               `json:"status,omitempty"` // responses
}

func (t Txn) seq() string {
	if t.SeqID != "" {
		return t.SeqID
	}
	return t.ID
}

func pathOf(url string) string {
	for i := 0; i < len(url); i++ {
		if url[i] == '/' {
			return url[i:]
		}
	}
	return "/"
}

func copyHeaders(h map[string]string) map[string]string {
	out := make(map[string]string, len(h))
	for k, v := range h {
		out[k] = v
	}
	return out
}

// ReqResult is what the engine returned for a request message.
type ReqResult struct {
	Err     error
	Actions []actions.ReqLunarAction
	// Early is the first early-response action, if any.
	Early *actions.EarlyResponseAction
}

// RespResult is what the engine returned for a response message.
type RespResult struct {
	Err     error
	Actions []actions.RespLunarAction
}

// OnRequest runs a request through the real stream engine exactly as routing.processRequest does.
func (e *StreamEnv) OnRequest(t Txn) ReqResult {
	args := lunarmsg.OnRequest{
		LunarName: lunarmsg.LunarRequest,
		ID:        t.ID, SequenceID: t.seq(), Method: t.Method, Scheme: "https", URL: t.URL,
		Path: pathOf(t.URL), Query: t.Query, Headers: copyHeaders(t.Headers),
		RawBody: []byte(t.Body), Time: contextmanager.Get().GetClock().Now(),
	}
	apiStream := streamtypes.NewRequestAPIStream(args, e.Shared)
	flowActions := &streamconfig.StreamActions{Request: &streamconfig.RequestStream{}}
	err := e.Stream.ExecuteFlow(apiStream, flowActions)
	res := ReqResult{Err: err, Actions: flowActions.Request.Actions}
	for _, a := range res.Actions {
		if er, ok := a.(*actions.EarlyResponseAction); ok {
			res.Early = er
			break
		}
	}
	return res
}

// OnResponse runs a response through the real stream engine as routing.processResponse does.
func (e *StreamEnv) OnResponse(t Txn) RespResult {
	args := lunarmsg.OnResponse{
		LunarName: lunarmsg.LunarResponse,
		ID:        t.ID, SequenceID: t.seq(), Method: t.Method, URL: t.URL, Status: t.Status,
		Headers: copyHeaders(t.Headers), RawBody: []byte(t.Body),
		Time: contextmanager.Get().GetClock().Now(),
	}
	apiStream := streamtypes.NewResponseAPIStream(args, e.Shared)
	flowActions := &streamconfig.StreamActions{Response: &streamconfig.ResponseStream{}}
	err := e.Stream.ExecuteFlow(apiStream, flowActions)
	return RespResult{Err: err, Actions: flowActions.Response.Actions}
}

// SortedKeys is a small helper for deterministic iteration.
func SortedKeys[V any](m map[string]V) []string {
	keys := make([]string, 0, len(m))
	for k := range m {
		keys = append(keys, k)
	}
	sort.Strings(keys)
	return keys
}

// Reinit builds a fresh engine from the same files (Go randomises the map iteration that decides
// the load order of flows, so every Reinit may realise another load order).
func (e *StreamEnv) Reinit() error {
	os.Setenv("LUNAR_PROXY_FLOW_DIRECTORY", e.FlowsDir)
	os.Setenv("LUNAR_PROXY_QUOTAS_DIRECTORY", e.QuotasDir)
	base := filepath.Dir(e.FlowsDir)
	os.Setenv("LUNAR_FLOWS_PATH_PARAM_DIR", filepath.Join(base, "path_params"))
	os.Setenv("LUNAR_FLOWS_PATH_PARAM_CONFIG", filepath.Join(base, "policies.yaml"))
	st, err := streams.NewStream()
	if err != nil {
		return err
	}
	if err := st.Initialize(); err != nil {
		return err
	}
	e.Stream = st
	return nil
}

// Cleanup removes the configuration directory of this environment.
func (e *StreamEnv) Cleanup() {
	_ = os.RemoveAll(filepath.Dir(e.FlowsDir))
}

// NewStreamEnvFromDirs loads the configuration already written under filepath.Dir(flowsDir).
func NewStreamEnvFromDirs(root, flowsDir string) (*StreamEnv, error) {
	e := &StreamEnv{
		Root: root, FlowsDir: flowsDir, QuotasDir: filepath.Join(filepath.Dir(flowsDir), "quotas"),
		Shared: lunarcontext.NewMemoryState[[]byte](),
	}
	if err := e.Reinit(); err != nil {
		return nil, err
	}
	return e, nil
}
