package sim

import (
	"runtime"
	"sort"
	"strings"
	"sync"
	"sync/atomic"
	"time"
)

// VClock is a virtual clock implementing lunar/toolkit-core/clock.Clock. Time only moves when the
// controller moves it. After/Sleep register waiters; the controller fires them one at a time in an
// order it chooses. Loops of the form `for { select { case <-clock.After(d): ... } }` re-arm at the
// top of every iteration, so "iteration finished" is observable as "a new waiter with duration d
// has been registered" (WaitArmed) - a quiescence signal that needs no sleeping.
type VClock struct {
	mu      sync.Mutex
	cond    *sync.Cond
	now     time.Time
	nextID  uint64
	pending []*Waiter
	armed   map[time.Duration]uint64 // total registrations per duration
	fired   uint64
	gate    atomic.Pointer[nowGate]
}

// nowGate parks the first caller of Now() after ArmNowGate until OpenNowGate. It lets a controller hold
// a goroutine of the system under test inside a critical section that reads the clock (a suspension
// point the real program has: any clock read may be descheduled), without a hook in the code.
type nowGate struct {
	taken  atomic.Bool
	caller string // when set: only a goroutine with a function whose name contains this on its stack is parked
	parked chan struct{}
	open   chan struct{}
}

func (c *VClock) ArmNowGate() {
	c.gate.Store(&nowGate{parked: make(chan struct{}), open: make(chan struct{})})
}

// ArmNowGateFor parks the first Now() call made underneath a function whose name contains caller.
func (c *VClock) ArmNowGateFor(caller string) {
	c.gate.Store(&nowGate{caller: caller, parked: make(chan struct{}), open: make(chan struct{})})
}

func calledFrom(substr string) bool {
	pcs := make([]uintptr, 48)
	n := runtime.Callers(3, pcs)
	frames := runtime.CallersFrames(pcs[:n])
	for {
		f, more := frames.Next()
		if strings.Contains(f.Function, substr) {
			return true
		}
		if !more {
			return false
		}
	}
}

// WaitNowGateParked reports whether some goroutine is parked in Now() (false: real-time watchdog expired).
func (c *VClock) WaitNowGateParked(watchdog time.Duration) bool {
	g := c.gate.Load()
	if g == nil {
		return false
	}
	select {
	case <-g.parked:
		return true
	case <-time.After(watchdog):
		return false
	}
}

func (c *VClock) OpenNowGate() {
	if g := c.gate.Swap(nil); g != nil {
		close(g.open)
	}
}

type Waiter struct {
	ID       uint64
	D        time.Duration
	Deadline time.Time
	ch       chan time.Time
}

func NewVClock(start time.Time) *VClock {
	c := &VClock{now: start, armed: map[time.Duration]uint64{}}
	c.cond = sync.NewCond(&c.mu)
	return c
}

func (c *VClock) Now() time.Time {
	if g := c.gate.Load(); g != nil && (g.caller == "" || calledFrom(g.caller)) && g.taken.CompareAndSwap(false, true) {
		close(g.parked)
		<-g.open
	}
	c.mu.Lock()
	defer c.mu.Unlock()
	return c.now
}

func (c *VClock) Since(t time.Time) time.Duration { return c.Now().Sub(t) }
func (c *VClock) Until(t time.Time) time.Duration { return t.Sub(c.Now()) }
func (c *VClock) Sleep(d time.Duration)           { <-c.After(d) }

func (c *VClock) After(d time.Duration) <-chan time.Time {
	c.mu.Lock()
	defer c.mu.Unlock()
	ch := make(chan time.Time, 1)
	c.armed[d]++
	if d <= 0 {
		ch <- c.now
		c.cond.Broadcast()
		return ch
	}
	c.nextID++
	c.pending = append(c.pending, &Waiter{ID: c.nextID, D: d, Deadline: c.now.Add(d), ch: ch})
	c.cond.Broadcast()
	return ch
}

// Set moves the clock without firing anything (used for arrival instants when no waiter is due).
func (c *VClock) Set(t time.Time) {
	c.mu.Lock()
	defer c.mu.Unlock()
	if t.After(c.now) {
		c.now = t
	}
}

// Pending returns a snapshot of the registered waiters ordered by (deadline, id).
func (c *VClock) Pending() []Waiter {
	c.mu.Lock()
	defer c.mu.Unlock()
	return c.snapshotLocked()
}

func (c *VClock) snapshotLocked() []Waiter {
	out := make([]Waiter, 0, len(c.pending))
	for _, w := range c.pending {
		out = append(out, *w)
	}
	sort.Slice(out, func(i, j int) bool {
		if !out[i].Deadline.Equal(out[j].Deadline) {
			return out[i].Deadline.Before(out[j].Deadline)
		}
		return out[i].ID < out[j].ID
	})
	return out
}

// Armed returns how many times After(d) has been called so far.
func (c *VClock) Armed(d time.Duration) uint64 {
	c.mu.Lock()
	defer c.mu.Unlock()
	return c.armed[d]
}

// WaitArmed blocks until After(d) has been called at least n times in total, or the real-time
// watchdog expires (false = inconclusive, never a verdict).
func (c *VClock) WaitArmed(d time.Duration, n uint64, watchdog time.Duration) bool {
	deadline := time.Now().Add(watchdog)
	stop := make(chan struct{})
	defer close(stop)
	go func() {
		t := time.NewTicker(20 * time.Millisecond)
		defer t.Stop()
		for {
			select {
			case <-stop:
				return
			case <-t.C:
				c.cond.Broadcast()
			}
		}
	}()
	c.mu.Lock()
	defer c.mu.Unlock()
	for c.armed[d] < n {
		if time.Now().After(deadline) {
			return false
		}
		c.cond.Wait()
	}
	return true
}

// WaitPending blocks until at least n waiters satisfying pred are registered.
func (c *VClock) WaitPending(pred func(Waiter) bool, n int, watchdog time.Duration) bool {
	deadline := time.Now().Add(watchdog)
	stop := make(chan struct{})
	defer close(stop)
	go func() {
		t := time.NewTicker(20 * time.Millisecond)
		defer t.Stop()
		for {
			select {
			case <-stop:
				return
			case <-t.C:
				c.cond.Broadcast()
			}
		}
	}()
	c.mu.Lock()
	defer c.mu.Unlock()
	for {
		cnt := 0
		for _, w := range c.pending {
			if pred(*w) {
				cnt++
			}
		}
		if cnt >= n {
			return true
		}
		if time.Now().After(deadline) {
			return false
		}
		c.cond.Wait()
	}
}

// Fire moves the clock to the waiter's deadline (if later than now) and releases it.
func (c *VClock) Fire(id uint64) bool {
	c.mu.Lock()
	defer c.mu.Unlock()
	for i, w := range c.pending {
		if w.ID == id {
			if w.Deadline.After(c.now) {
				c.now = w.Deadline
			}
			c.pending = append(c.pending[:i], c.pending[i+1:]...)
			c.fired++
			w.ch <- c.now
			return true
		}
	}
	return false
}

// Drop removes a waiter without firing it (its goroutine stays parked for ever).
func (c *VClock) Drop(id uint64) {
	c.mu.Lock()
	defer c.mu.Unlock()
	for i, w := range c.pending {
		if w.ID == id {
			c.pending = append(c.pending[:i], c.pending[i+1:]...)
			return
		}
	}
}

// AdvanceTo fires, in (deadline,id) order, every waiter due at or before t; after each fire it calls
// settle (may be nil) so the caller can wait for the woken goroutine to finish its step; finally the
// clock is set to t. Waiters registered while advancing are taken into account.
func (c *VClock) AdvanceTo(t time.Time, settle func(w Waiter)) {
	for {
		c.mu.Lock()
		snap := c.snapshotLocked()
		c.mu.Unlock()
		if len(snap) == 0 || snap[0].Deadline.After(t) {
			break
		}
		w := snap[0]
		if c.Fire(w.ID) && settle != nil {
			settle(w)
		}
	}
	c.Set(t)
}

func (c *VClock) Advance(d time.Duration, settle func(w Waiter)) {
	c.AdvanceTo(c.Now().Add(d), settle)
}

func (c *VClock) FiredCount() uint64 {
	c.mu.Lock()
	defer c.mu.Unlock()
	return c.fired
}
