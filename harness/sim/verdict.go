package sim

import (
	"crypto/sha256"
	"encoding/hex"
	"encoding/json"
	"fmt"
	"os"
	"path/filepath"
	"sort"
	"sync"
	"time"
)

// Violation is one refuted case. Signature classifies the failure finely enough that a different
// failure of the same property gets a different signature (known_findings.json matches on it).
type Violation struct {
	Signature string `json:"signature"`
	Detail    string `json:"detail"`
	Replay    any    `json:"replay,omitempty"`
}

// Verdict is what a child process writes to <out>/verdict.json.
type Verdict struct {
	mu           sync.Mutex
	Property     string         `json:"property"`
	Seed         uint64         `json:"seed"`
	Tier         string         `json:"tier"`
	Batch        int            `json:"batch"`
	Violations   []Violation    `json:"violations"`
	Inconclusive []string       `json:"inconclusive"`
	Evaluations  int64          `json:"evaluations"`
	DistinctKeys []string       `json:"distinct_keys"`
	Counters     map[string]int `json:"counters"`
	Samples      []any          `json:"samples"`
	Rule         string         `json:"rule"`
	Assumptions  []string       `json:"assumptions"`
	Exhaustive   bool           `json:"exhaustive"`
	WallS        float64        `json:"wall_s"`
	Extra        map[string]any `json:"extra,omitempty"`

	distinct   map[string]struct{}
	sigCount   map[string]int
	start      time.Time
	outDir     string
	maxSamples int
}

func NewVerdict(prop string, seed uint64, tier string, batch int, outDir string) *Verdict {
	return &Verdict{
		Property: prop, Seed: seed, Tier: tier, Batch: batch, outDir: outDir,
		Counters: map[string]int{}, distinct: map[string]struct{}{}, sigCount: map[string]int{},
		start: time.Now(), maxSamples: 6, Extra: map[string]any{},
	}
}

func (v *Verdict) Eval(n int) {
	v.mu.Lock()
	v.Evaluations += int64(n)
	v.mu.Unlock()
}

func (v *Verdict) Count(key string, n int) {
	v.mu.Lock()
	v.Counters[key] += n
	v.mu.Unlock()
}

// Distinct records the shape key of a non-trivial case.
func (v *Verdict) Distinct(key string) {
	h := sha256.Sum256([]byte(key))
	k := hex.EncodeToString(h[:8])
	v.mu.Lock()
	v.distinct[k] = struct{}{}
	v.mu.Unlock()
}

func (v *Verdict) Sample(s any) {
	v.mu.Lock()
	if len(v.Samples) < v.maxSamples {
		v.Samples = append(v.Samples, s)
	}
	v.mu.Unlock()
}

// SampleFirst records s only when no sample has been recorded yet.
func (v *Verdict) SampleFirst(s any) {
	v.mu.Lock()
	if len(v.Samples) == 0 {
		v.Samples = append(v.Samples, s)
	}
	v.mu.Unlock()
}

func (v *Verdict) SetMaxSamples(n int) { v.maxSamples = n }

// Violate records a violation; at most 3 witnesses are kept per signature (the count is exact).
func (v *Verdict) Violate(signature, detail string, replay any) {
	if len(detail) > 4000 {
		detail = detail[:4000] + " ...[truncated]"
	}
	v.mu.Lock()
	defer v.mu.Unlock()
	v.sigCount[signature]++
	v.Counters["violations:"+signature]++
	if v.sigCount[signature] <= 3 {
		v.Violations = append(v.Violations, Violation{Signature: signature, Detail: detail, Replay: replay})
	}
}

func (v *Verdict) Inconclude(reason string) {
	v.mu.Lock()
	v.Inconclusive = append(v.Inconclusive, reason)
	v.mu.Unlock()
}

func (v *Verdict) NumViolations() int {
	v.mu.Lock()
	defer v.mu.Unlock()
	return len(v.Violations)
}

// Write stores verdict.json and returns the process exit code: 0 held, 1 violations, 2 inconclusive.
func (v *Verdict) Write() int {
	v.mu.Lock()
	defer v.mu.Unlock()
	v.DistinctKeys = []string{}
	for k := range v.distinct {
		v.DistinctKeys = append(v.DistinctKeys, k)
	}
	sort.Strings(v.DistinctKeys)
	v.WallS = time.Since(v.start).Seconds()
	if v.Violations == nil {
		v.Violations = []Violation{}
	}
	if v.Inconclusive == nil {
		v.Inconclusive = []string{}
	}
	if v.Samples == nil {
		v.Samples = []any{}
	}
	data, err := json.MarshalIndent(v, "", " ")
	if err != nil {
		fmt.Fprintln(os.Stderr, "verdict marshal:", err)
		return 2
	}
	_ = os.MkdirAll(v.outDir, 0o755)
	tmp := filepath.Join(v.outDir, "verdict.json.tmp")
	if err := os.WriteFile(tmp, data, 0o644); err != nil {
		fmt.Fprintln(os.Stderr, "verdict write:", err)
		return 2
	}
	_ = os.Rename(tmp, filepath.Join(v.outDir, "verdict.json"))
	if len(v.Violations) > 0 {
		return 1
	}
	if len(v.Inconclusive) > 0 {
		return 2
	}
	return 0
}
