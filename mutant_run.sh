#!/bin/bash
# usage: mutant_run.sh <property> <diff-file> [tier]  -- applies the diff to a scratch worktree of /repo, runs the check against it
set -u
P=$1; D=$(realpath $2); T=${3:-quick}
WT=$(mktemp -d /tmp/wt-mut-XXXXXX); rmdir $WT
git -C /repo worktree add -q $WT HEAD || exit 9
if ! git -C $WT apply $D; then echo "APPLY-FAILED $D"; git -C /repo worktree remove --force $WT; exit 9; fi
cd /verif && VERIF_REPO=$WT ./check $P $T > $WT.out 2>&1; rc=$?
echo "mutant $(basename $D): rc=$rc $(grep -c '^VIOLATION' $WT.out) violation lines; sigs: $(grep '^  signature=' $WT.out | sort | uniq -c | sort -rn | head -4 | tr '\n' ';')"
tail -1 $WT.out
git -C /repo worktree remove --force $WT; rm -f $WT.out
exit $rc
