#!/bin/bash
# usage: mutant_run.sh <property> <diff-file> [tier]  -- applies the diff to a scratch worktree of /repo, runs the check against it
set -u
P=$1; D=$(realpath $2); T=${3:-quick}
WT=$(mktemp -d /tmp/wt-mut-XXXXXX); rmdir $WT
git -C /repo worktree add -q $WT HEAD || exit 9
if ! git -C $WT apply $D 2>/dev/null; then
  # plain `diff -u` output (other path prefixes): let patch find the file by the old name
  if ! (cd $WT && patch -p1 --forward --batch -s < $D >/dev/null 2>&1); then echo "APPLY-FAILED $D"; git -C /repo worktree remove --force $WT; exit 9; fi
fi
cd /verif && VERIF_REPO=$WT ./check $P $T > $WT.out 2>&1; rc=$?
echo "mutant $(basename $D): rc=$rc $(grep -ac '^VIOLATION' $WT.out) violation lines; sigs: $(grep -a '^  signature=' $WT.out | sort | uniq -c | sort -rn | head -4 | tr '\n' ';')"
tail -1 $WT.out
git -C /repo worktree remove --force $WT; rm -f $WT.out
exit $rc
