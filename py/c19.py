#!/usr/bin/env python3
"""C19 runtime monitor: Python interceptor fail-safe (circuit breaker) + traffic filter.

The REAL modules of <repo>/interceptors/lunar-py-interceptor are imported (third-party imports are
satisfied by fabricated stub modules) and driven on generated workloads; a reference circuit breaker
and an address classifier written from the property statement decide.

  python3-vt py/c19.py --seed S --tier quick|thorough --batch B --batches N --out DIR --repo /repo
                       [--replay FILE]
Writes DIR/verdict.json (same shape as harness/sim/verdict.go). Exit 0 held, 1 violation, 2 inconclusive.
"""
import sys

sys.dont_write_bytecode = True  # never write __pycache__ into the repo

import argparse
import functools
import hashlib
import importlib
import importlib.abc
import importlib.machinery
import ipaddress
import json
import os
import random
import re
import socket
import time as _wall
import traceback
import types
import urllib.parse

os.environ["PYTHONDONTWRITEBYTECODE"] = "1"

PROP = "C19"
PKG_REL = "interceptors/lunar-py-interceptor/lunar_interceptor/src"
ENV_TH = "LUNAR_ENTER_COOLDOWN_AFTER_ATTEMPTS"
ENV_CD = "LUNAR_EXIT_COOLDOWN_AFTER_SEC"
ENV_ALLOW = "LUNAR_ALLOW_LIST"
ENV_BLOCK = "LUNAR_BLOCK_LIST"
README_DEFAULT_TH = 5   # README.md: LUNAR_ENTER_COOLDOWN_AFTER_ATTEMPTS="5"
README_DEFAULT_CD = 10  # README.md: LUNAR_EXIT_COOLDOWN_AFTER_SEC="10"


# ----------------------------------------------------------------------------------------------
# verdict (mirror of harness/sim/verdict.go)
# ----------------------------------------------------------------------------------------------
class Verdict:
    def __init__(self, seed, tier, batch, out):
        self.seed, self.tier, self.batch, self.out = seed, tier, batch, out
        self.violations, self.inconclusive = [], []
        self.evaluations = 0
        self.distinct = set()
        self.counters = {}
        self.samples = []
        self.rule = ""
        self.assumptions = []
        self.exhaustive = False
        self.extra = {}
        self.sig_count = {}
        self.start = _wall.time()

    def eval(self, n=1):
        self.evaluations += n

    def count(self, k, n=1):
        self.counters[k] = self.counters.get(k, 0) + n

    def distinct_key(self, key):
        self.distinct.add(key)

    def sample(self, s):
        if len(self.samples) < 6:
            self.samples.append(s)

    def violate(self, sig, detail, replay):
        self.sig_count[sig] = self.sig_count.get(sig, 0) + 1
        self.count("violations:" + sig)
        if self.sig_count[sig] <= 3:
            self.violations.append({"signature": sig, "detail": detail, "replay": replay})

    def inconclude(self, reason):
        if reason not in self.inconclusive:
            self.inconclusive.append(reason)

    def write(self):
        keys = sorted(hashlib.sha256(repr(k).encode()).hexdigest()[:16] for k in self.distinct)
        doc = {
            "property": PROP, "seed": self.seed, "tier": self.tier, "batch": self.batch,
            "violations": self.violations, "inconclusive": self.inconclusive,
            "evaluations": self.evaluations, "distinct_keys": keys, "counters": self.counters,
            "samples": self.samples, "rule": self.rule, "assumptions": self.assumptions,
            "exhaustive": self.exhaustive, "wall_s": round(_wall.time() - self.start, 3),
            "extra": self.extra,
        }
        os.makedirs(self.out, exist_ok=True)
        tmp = os.path.join(self.out, "verdict.json.tmp")
        with open(tmp, "w") as f:
            json.dump(doc, f, indent=1, default=str)
        os.replace(tmp, os.path.join(self.out, "verdict.json"))
        if self.violations:
            return 1
        if self.inconclusive:
            return 2
        return 0


def share(total, batch, batches):
    per = (total + batches - 1) // batches
    lo = min(batch * per, total)
    return lo, min(lo + per, total)


def case_rand(seed, stream, i):
    return random.Random("c19:%d:%s:%d" % (seed, stream, i))


# ----------------------------------------------------------------------------------------------
# stub third-party modules (yarl, multidict, aiohttp, requests, tornado, pkg_resources)
# ----------------------------------------------------------------------------------------------
STUB_ROOTS = ("yarl", "multidict", "aiohttp", "requests", "tornado", "pkg_resources")


class _StubMeta(type):
    def __getattr__(cls, name):
        if name.startswith("__"):
            raise AttributeError(name)
        sub = _StubMeta(name, (Exception,), {})
        setattr(cls, name, sub)
        return sub

    def __getitem__(cls, item):
        return cls


class _StubModule(types.ModuleType):
    __path__ = []

    def __getattr__(self, name):
        if name.startswith("__"):
            raise AttributeError(name)
        full = self.__name__ + "." + name
        if full in sys.modules:
            return sys.modules[full]
        sub = _StubMeta(name, (Exception,), {})
        setattr(self, name, sub)
        return sub


class _StubFinder(importlib.abc.MetaPathFinder, importlib.abc.Loader):
    def find_spec(self, fullname, path=None, target=None):
        if fullname.split(".")[0] in STUB_ROOTS:
            return importlib.machinery.ModuleSpec(fullname, self, is_package=True)
        return None

    def create_module(self, spec):
        return _StubModule(spec.name)

    def exec_module(self, module):
        pass


class FakeURL:
    """Functional stand-in for yarl.URL (only what hooks/helpers.py and hooks/requests.py use)."""

    def __init__(self, url):
        self._s = urllib.parse.urlsplit(str(url))

    @property
    def host(self):
        return self._s.hostname

    @property
    def port(self):
        p = self._s.port
        if p is None:
            return {"http": 80, "https": 443}.get(self._s.scheme)
        return p

    @property
    def scheme(self):
        return self._s.scheme

    def is_default_port(self):
        return self._s.port is None or self._s.port == {"http": 80, "https": 443}.get(self._s.scheme)

    def _with(self, scheme=None, host=None, port=None):
        sc = scheme if scheme is not None else self._s.scheme
        h = host if host is not None else (self._s.hostname or "")
        if ":" in h:
            h = "[" + h + "]"
        p = port if port is not None else self._s.port
        netloc = h if p is None else "%s:%d" % (h, p)
        return FakeURL(urllib.parse.urlunsplit((sc, netloc, self._s.path, self._s.query, self._s.fragment)))

    def with_scheme(self, s):
        return self._with(scheme=s)

    def with_host(self, h):
        return self._with(host=h)

    def with_port(self, p):
        return self._with(port=p)

    def __str__(self):
        return urllib.parse.urlunsplit(self._s)


class GwConnError(Exception):
    """stub requests.ConnectionError (registered by RequestsHook through FailSafe.handle_on)."""


class OtherHookConnError(Exception):
    """transport error type of another hook sharing the FailSafe"""


class GwConnErrorSub(GwConnError):
    pass


class FakeResponse:
    def __init__(self, tag, headers=None):
        self.tag = tag
        self.headers = dict(headers or {})
        self.status_code = 200
        self.content = b"{}"


class Net:
    """Scripted network behind the stub requests.Session.request."""
    gateway_prefix = "http://gw.test:8000"
    script = "ok"      # outcome of the next gateway leg
    exc = None
    log = []


def _fake_session_request(self=None, method=None, url=None, **kwargs):
    url = str(url)
    if url.startswith(Net.gateway_prefix):
        Net.log.append(("gw", url))
        s = Net.script
        if isinstance(s, list):
            # one outcome per gateway leg of this application call (the last one repeats)
            s = s.pop(0) if len(s) > 1 else s[0]
        if s == "ok":
            return FakeResponse("gw")
        if s.startswith("errhdr"):
            return FakeResponse("gw-err", {"x-lunar-error": s[len("errhdr"):] or "3"})
        if s == "retry":
            return FakeResponse("gw-retry", {"x-lunar-retry-after": "0", "x-lunar-sequence-id": "seq-1"})
        raise Net.exc
    Net.log.append(("direct", url))
    return FakeResponse("direct")


def install_stubs():
    if not any(isinstance(f, _StubFinder) for f in sys.meta_path):
        sys.meta_path.insert(0, _StubFinder())
    for name in list(sys.modules):
        if name.split(".")[0] in STUB_ROOTS:
            del sys.modules[name]
    yarl = _StubModule("yarl")
    yarl.URL = FakeURL
    sys.modules["yarl"] = yarl
    req = _StubModule("requests")
    sess = _StubMeta("Session", (object,), {"request": _fake_session_request})
    req.Session = sess
    req.ConnectionError = GwConnError
    req.Response = FakeResponse
    models = _StubModule("requests.models")
    models.CaseInsensitiveDict = dict
    sessions = _StubModule("requests.sessions")
    sessions.Session = sess
    req.models, req.sessions = models, sessions
    sys.modules["requests"] = req
    sys.modules["requests.models"] = models
    sys.modules["requests.sessions"] = sessions


# ----------------------------------------------------------------------------------------------
# bootstrap of the real package: environment -> configuration -> package wiring
# ----------------------------------------------------------------------------------------------
class VClock:
    def __init__(self):
        self.t = 1000.0

    def now(self):
        return self.t


CLOCK = VClock()


class Resolver:
    """Scripted socket.gethostbyname. Argument conversion mimics CPython (NUL -> TypeError, IDNA
    failure -> UnicodeError, '' -> 0.0.0.0, inet_aton numeric forms) and never touches the network."""
    table = {}
    calls = 0

    @staticmethod
    def resolve(host):
        Resolver.calls += 1
        if not isinstance(host, (str, bytes)):
            raise TypeError("gethostbyname() argument 1 must be str, bytes or bytearray")
        if isinstance(host, str):
            if "\0" in host:
                raise TypeError("gethostbyname() argument 1 must be encoded string without null bytes, not str")
            host.encode("idna")  # UnicodeError for empty / over-long labels, like the real call
        if host == "":
            return "0.0.0.0"
        if re.fullmatch(r"[0-9a-fA-FxX.]+", host):
            try:
                return socket.inet_ntoa(socket.inet_aton(host))
            except OSError:
                pass
        r = Resolver.table.get(host)
        if r is None:
            raise socket.gaierror(-2, "Name or service not known")
        if isinstance(r, BaseException):
            raise r
        return r


class Boot:
    """One import of the real package under one environment."""
    _cache = {}

    def __init__(self, repo, env):
        self.env = dict(env)
        src = os.path.join(repo, PKG_REL)
        if not os.path.isdir(os.path.join(src, "lunar_interceptor")):
            raise RuntimeError("package not found under " + src)
        for k in list(os.environ):
            if k.startswith("LUNAR_"):
                del os.environ[k]
        os.environ.update(env)
        os.environ["LUNAR_INTERCEPTOR_LOG_LEVEL"] = "CRITICAL"
        for name in list(sys.modules):
            if name == "lunar_interceptor" or name.startswith("lunar_interceptor."):
                del sys.modules[name]
        install_stubs()
        if sys.path[0] != src:
            if src in sys.path:
                sys.path.remove(src)
            sys.path.insert(0, src)
        importlib.invalidate_caches()
        self.pkg = importlib.import_module("lunar_interceptor")
        self.fsmod = importlib.import_module("lunar_interceptor.interceptor.fail_safe")
        self.tfmod = importlib.import_module("lunar_interceptor.interceptor.traffic_filter")
        self.cfgmod = importlib.import_module("lunar_interceptor.interceptor.configuration")
        self.reqhook = importlib.import_module("lunar_interceptor.interceptor.hooks.requests")
        if not os.path.realpath(self.pkg.__file__).startswith(os.path.realpath(repo) + os.sep):
            raise RuntimeError("imported lunar_interceptor from %s, not from %s" % (self.pkg.__file__, repo))
        lg = self.pkg._LOGGER
        for h in list(lg.handlers):
            lg.removeHandler(h)
        lg.disabled = True
        lg.propagate = False
        # virtual time + scripted resolver
        self.fsmod.time = CLOCK.now
        self.tfmod.gethostbyname = Resolver.resolve
        self.reqhook.sleep = lambda s: None
        self.ProxyErr = self.fsmod.ProxyErrorException
        self.ProxyErrSub = type("ProxyErrSub", (self.ProxyErr,), {})

    @classmethod
    def get(cls, repo, env):
        key = (repo, tuple(sorted(env.items())))
        b = cls._cache.get(key)
        if b is None:
            b = cls(repo, env)
            cls._cache[key] = b
        return b

    def fail_safe(self):
        """FailSafe exactly as the package builds it, plus the registration the requests hook does."""
        fs = self.pkg._load_fail_safe()
        fs.handle_on((GwConnError,))
        return fs

    def traffic_filter(self):
        return self.pkg._build_traffic_filter_from_env_vars()


# ----------------------------------------------------------------------------------------------
# reference circuit breaker (from the statement)
#   state: ('C', consecutive_failures) | ('O', elapsed_since_open)   elapsed clamped to cd+1 beyond cd
#   conventions, fixed per history: incl  - the gateway is tried again AT elapsed == cooldown
#                                   areset - an application exception on a gateway call clears the count
#                                   dreset - a call not routed by the traffic filter clears the count
#   left open per event (statement silent): failures needed to re-open after a recovery (1 or threshold)
# ----------------------------------------------------------------------------------------------
CONVS4 = [(i, a, False) for i in (True, False) for a in (False, True)]
CONVS8 = [(i, a, d) for i in (True, False) for a in (False, True) for d in (False, True)]
INIT = frozenset([("C", 0)])


@functools.lru_cache(maxsize=None)
def ref_adv(states, cd, dt):
    out = set()
    for s in states:
        if s[0] == "O":
            e = s[1] + dt
            out.add(("O", e if e <= cd else cd + 1.0))
        else:
            out.add(s)
    return frozenset(out)


@functools.lru_cache(maxsize=None)
def ref_call(states, th, cd, conv, outcome, routed):
    """outcome: 'E' gateway failure, 'S' success, 'A' application exception, 'P' observation only,
    'D' call kept off the gateway by the traffic filter (routed is then always False, not judged)."""
    incl, areset, dreset = conv
    out = set()
    for s in states:
        if outcome == "D":
            if s[0] == "C" and dreset:
                out.add(("C", 0))
            else:
                out.add(s)
            continue
        if s[0] == "O":
            e = s[1]
            recovered = e > cd or (e == cd and incl)
            if not recovered:
                if not routed:
                    out.add(s)
                continue
            cands = {0, th - 1}
        else:
            cands = {s[1]}
        if not routed:
            continue
        for c in cands:
            if outcome == "E":
                out.add(("O", 0.0) if c + 1 >= th else ("C", c + 1))
            elif outcome == "S":
                out.add(("C", 0))
            elif outcome == "A":
                out.add(("C", 0 if areset else c))
            else:
                out.add(("C", c) if s[0] == "C" else ("C", c))
    return frozenset(out)


@functools.lru_cache(maxsize=None)
def ref_call_all(refs, th, cd, convs, outcome, routed):
    return tuple(ref_call(r, th, cd, c, outcome, routed) for r, c in zip(refs, convs))


@functools.lru_cache(maxsize=None)
def ref_adv_all(refs, cd, dt):
    return tuple(ref_adv(r, cd, dt) for r in refs)


def diagnose(refs, cd, routed):
    kinds = set()
    for st in refs:
        for s in st:
            if s[0] == "C":
                kinds.add("bypass-below-threshold" if not routed else "?")
            elif routed:
                kinds.add("routed-during-cooldown")
            else:
                kinds.add("no-recovery-after-cooldown" if s[1] >= cd else "?")
    kinds.discard("?")
    return sorted(kinds)[0] if len(kinds) == 1 else "mismatch"


# ----------------------------------------------------------------------------------------------
# driving the real FailSafe the way the hooks do: `with fs: if fs.state_ok [and filter]: <gateway leg>`
# ----------------------------------------------------------------------------------------------
class AppError(Exception):
    pass


class AppBase(BaseException):
    pass


def make_exc(boot, kind):
    return {
        "E": lambda: boot.ProxyErr("gw"), "E:sub": lambda: boot.ProxyErrSub("gw"),
        "E:conn": lambda: GwConnError("gw"), "E:connsub": lambda: GwConnErrorSub("gw"),
        "A": lambda: AppError("app"), "A:val": lambda: ValueError("app"),
        "A:base": lambda: AppBase("app"), "A:key": lambda: KeyError("app"), "A:os": lambda: OSError("app"),
    }[kind]()


def real_call(fs, kind, exc_obj, took=0.0):
    """returns (routed, escaped_exception). took: seconds the gateway leg hangs before it fails (the clock
    moves inside the `with` block, as with a connect or read timeout)."""
    routed = None
    try:
        with fs:
            routed = fs.state_ok
            if routed and took:
                CLOCK.t += took
            if routed and exc_obj is not None:
                raise exc_obj
    except BaseException as e:  # noqa: B902 - observing everything is the point
        return routed, e
    return routed, None


def real_filtered_call(fs):
    try:
        with fs:
            if fs.state_ok and False:
                pass
    except BaseException as e:  # noqa
        return e
    return None


def judge_exception(kind, routed, exc_obj, escaped):
    """exception discipline from the statement; returns (signature-suffix, text) or None."""
    if kind[0] == "A" and routed:
        if escaped is None:
            return "swallowed-app-exception", "application exception %r raised on the gateway leg did not reach the caller" % (exc_obj,)
        if escaped is not exc_obj:
            return "exception-replaced", "application exception %r came out as %r" % (exc_obj, escaped)
        return None
    if escaped is not None:
        if kind[0] == "E" and escaped is exc_obj:
            return "gateway-error-propagated", "gateway-side failure %r (a handled type) reached the caller" % (escaped,)
        return "raises", "fail-safe raised %r into the caller (event %s)" % (escaped, kind)
    return None


def run_failsafe_case(repo, case, v=None):
    """Runs one event list on a fresh FailSafe built end to end. Returns (violation|None, stats)."""
    boot = Boot.get(repo, case["env"])
    th, cd = case["th"], float(case["cd"])
    convs = CONVS8
    refs = [INIT] * len(convs)
    fs = boot.fail_safe()
    CLOCK.t = 1000.0
    stats = {"opens": 0, "recoveries": 0, "bypassed": 0, "routed": 0, "swallowed": 0, "propagated": 0,
             "edge_routed": 0, "edge_bypassed": 0}
    last = True
    obs = []
    since_open = None
    for idx, ev in enumerate(case["events"]):
        kind = ev[0]
        if kind == "adv":
            CLOCK.t += ev[1]
            if since_open is not None:
                since_open += ev[1]
            refs = [ref_adv(r, cd, float(ev[1])) for r in refs]
            obs.append(None)
            continue
        if kind == "D":
            esc = real_filtered_call(fs)
            if esc is not None:
                return _fs_violation(case, idx, obs, "raises", "fail-safe raised %r on a filtered call" % (esc,)), stats
            refs = [ref_call(r, th, cd, c, "D", False) for r, c in zip(refs, convs)]
            obs.append("D")
            continue
        if kind == "P":
            routed, exc_obj, esc = fs.state_ok, None, None
        else:
            exc_obj = None if kind == "S" else make_exc(boot, kind)
            # a slow failing call: the routing decision is taken at the start, the failure is recorded (and a
            # cool-down, if it opens one, starts) when the call ends - the reference needs no ageing: after a
            # routed call every surviving reference state is closed or freshly opened
            routed, esc = real_call(fs, kind, exc_obj, float(ev[1]) if len(ev) > 1 else 0.0)
        obs.append(bool(routed))
        if routed:
            stats["routed"] += 1
            if not last:
                stats["recoveries"] += 1
                if since_open == cd:
                    stats["edge_routed"] += 1
            since_open = None
        else:
            stats["bypassed"] += 1
            if last:
                stats["opens"] += 1
            if since_open == cd:
                stats["edge_bypassed"] += 1
        if kind != "P":
            bad = judge_exception(kind, routed, exc_obj, esc)
            if bad:
                return _fs_violation(case, idx, obs, bad[0], bad[1]), stats
            if routed and kind[0] == "E":
                stats["swallowed"] += 1
            if routed and kind[0] == "A":
                stats["propagated"] += 1
        before = refs
        refs = [ref_call(r, th, cd, c, kind[0], bool(routed)) for r, c in zip(refs, convs)]
        if not any(refs):
            alive = [r for r in before if r]
            d = diagnose(alive, cd, bool(routed))
            txt = ("threshold=%d cooldown=%gs: call #%d (%s) was %s; the reference breaker under every convention "
                   "(edge inclusive/exclusive, app-exception neutral/reset, post-recovery count 0|threshold-1) expected %s. "
                   "reference states before the call: %s"
                   % (th, cd, idx, kind, "routed through the gateway" if routed else "bypassed",
                      "bypass" if routed else "routing through the gateway", sorted(set().union(*alive))))
            return _fs_violation(case, idx, obs, d, txt), stats
        # elapsed since the opening failure (for the edge-instant counters only)
        if routed and kind[0] == "E":
            # did this failure open the circuit? learn at the next call; start a tentative timer
            since_open = 0.0 if all(all(s[0] == "O" for s in r) for r in refs if r) else None
        last = bool(routed)
    return None, stats


def _fs_violation(case, idx, obs, suffix, text):
    if case.get("defaults"):
        sig = "C19/config/default-values"
        text = ("environment %s leaves %s to the documented defaults (README: %s=5, %s=10); judged against threshold=%d cooldown=%ds. "
                % (case["env"], case["defaults"], ENV_TH, ENV_CD, case["th"], case["cd"])) + text
    else:
        sig = "C19/failsafe/" + suffix
    ev = case["events"][: idx + 1]
    return {"signature": sig,
            "detail": text + "\nevents: %s\nobserved (True=routed via gateway): %s" % (json.dumps(ev), obs),
            "replay": dict(case, events=ev)}


# ----------------------------------------------------------------------------------------------
# exhaustive DFS over event sequences (real object state is forked with a generic __dict__ copy;
# every violation and a sample of leaves are re-run from scratch on a fresh object)
# ----------------------------------------------------------------------------------------------
class Budget(Exception):
    pass


def dfs_unit(repo, th, cd, prefix, depth, v, rng, deadline, confirm):
    env = {ENV_TH: str(th), ENV_CD: str(cd)}
    boot = Boot.get(repo, env)
    cdf = float(cd)
    advs = sorted({0.0, cdf - 1.0, cdf, cdf + 1.0})
    alphabet = [("E",), ("S",), ("A",)] + [("adv", a) for a in advs]
    convs = tuple(CONVS4)
    cls = type(boot.fail_safe())
    ProxyErr = boot.ProxyErr
    nodes = [0]
    keys = set()
    cnt = {"opens": 0, "recoveries": 0, "edge_routed": 0, "edge_bypassed": 0, "swallowed": 0, "propagated": 0, "bypassed": 0}
    found = set()
    sample_every = 20011

    def report(path, text_sig=None):
        if len(found) >= 40:  # enough confirmed witnesses in this unit: count, do not re-run
            cnt["flags_beyond_cap_not_rerun"] = cnt.get("flags_beyond_cap_not_rerun", 0) + 1
            return
        found.add(len(found))
        case = {"kind": "failsafe", "env": env, "th": th, "cd": cd, "events": [list(p) for p in path]}
        viol, _ = run_failsafe_case(repo, case)
        if viol is None:
            v.inconclude("DFS (forked state) flagged %s but the fresh re-run did not: harness defect" % (json.dumps(case),))
            return
        v.violate(viol["signature"], viol["detail"], viol["replay"])

    def rec(fs, t, d, refs, path, last, opens, recs, since, sawA):
        if _wall.time() > deadline:
            raise Budget()
        for sym in alphabet:
            nodes[0] += 1
            if sym[0] == "adv":
                dt = sym[1]
                refs2 = ref_adv_all(refs, cdf, dt)
                path.append(sym)
                if opens:
                    keys.add((th, cd, min(opens, 3), min(recs, 3), sawA))
                if d + 1 < depth:
                    rec(fs, t + dt, d + 1, refs2, path, last, opens, recs, (since + dt) if since is not None else None, sawA)
                path.pop()
                continue
            k = sym[0]
            child = cls.__new__(cls)
            child.__dict__.update(fs.__dict__)
            CLOCK.t = t
            exc_obj = None if k == "S" else (ProxyErr("gw") if k == "E" else AppError("app"))
            routed, esc = real_call(child, k, exc_obj)
            routed = bool(routed)
            path.append(sym)
            bad = judge_exception(k, routed, exc_obj, esc)
            refs2 = ref_call_all(refs, th, cdf, convs, k, routed)
            if bad or not any(refs2):
                report(list(path))
                path.pop()
                continue
            o2, r2, s2 = opens, recs, since
            if routed:
                if not last:
                    r2 += 1
                    cnt["recoveries"] += 1
                    if since == cdf:
                        cnt["edge_routed"] += 1
                if k == "E":
                    cnt["swallowed"] += 1
                elif k == "A":
                    cnt["propagated"] += 1
                s2 = 0.0 if (k == "E" and all(s[0] == "O" for s in refs2[0])) else None
            else:
                cnt["bypassed"] += 1
                if last:
                    o2 += 1
                    cnt["opens"] += 1
                if since == cdf:
                    cnt["edge_bypassed"] += 1
            a2 = sawA or (k == "A" and routed)
            if o2:
                keys.add((th, cd, min(o2, 3), min(r2, 3), a2))
            if d + 1 < depth:
                rec(child, t, d + 1, refs2, path, routed, o2, r2, s2, a2)
            elif nodes[0] % sample_every == 0:
                confirm.append((th, cd, [list(p) for p in path]))
            path.pop()

    # run the prefix on a fresh object through the generic runner semantics, then recurse
    fs = boot.fail_safe()
    t = 1000.0
    refs = tuple([INIT] * len(convs))
    path = []
    last, opens, recs, since, sawA = True, 0, 0, None, False
    ok = True
    for sym in prefix:
        if sym[0] == "adv":
            t += sym[1]
            refs = tuple(ref_adv(r, cdf, sym[1]) for r in refs)
            if since is not None:
                since += sym[1]
            path.append(sym)
            continue
        CLOCK.t = t
        k = sym[0]
        exc_obj = None if k == "S" else (ProxyErr("gw") if k == "E" else AppError("app"))
        routed, esc = real_call(fs, k, exc_obj)
        routed = bool(routed)
        path.append(sym)
        refs = tuple(ref_call(r, th, cdf, c, k, routed) for r, c in zip(refs, convs))
        if judge_exception(k, routed, exc_obj, esc) or not any(refs):
            report(list(path))
            ok = False
            break
        if routed:
            if not last:
                recs += 1
            since = 0.0 if (k == "E" and all(s[0] == "O" for s in refs[0])) else None
        else:
            if last:
                opens += 1
        sawA = sawA or (k == "A" and routed)
        last = routed
    if ok and len(prefix) < depth:
        rec(fs, t, len(prefix), refs, path, last, opens, recs, since, sawA)
    v.eval(nodes[0])
    for k2, n in cnt.items():
        v.count("fs_dfs_" + k2, n)
    for k2 in keys:
        v.distinct_key(("fs",) + k2)
    return nodes[0]


def failsafe_exhaustive(repo, args, v, deadline):
    depth = 9 if args.tier == "thorough" else 8
    units = []
    for th in (1, 2, 3):
        for cd in (1, 5):
            cdf = float(cd)
            advs = sorted({0.0, cdf - 1.0, cdf, cdf + 1.0})
            alpha = [("E",), ("S",), ("A",)] + [("adv", a) for a in advs]
            for a in alpha:
                for b in alpha:
                    units.append((th, cd, (a, b)))
    # heavy units (cool-down 5: 7 symbols) first, then dealt round-robin: batches get a similar load
    units.sort(key=lambda u: -u[1])
    mine = [u for i, u in enumerate(units) if i % args.batches == args.batch]
    confirm = []
    rng = case_rand(args.seed, "dfs", args.batch)
    complete = True
    try:
        for th, cd, prefix in mine:
            dfs_unit(repo, th, cd, prefix, depth, v, rng, deadline, confirm)
            v.count("fs_dfs_units")
    except Budget:
        complete = False
        v.inconclude("wall-clock budget reached inside the exhaustive enumeration (not a verdict on the code)")
    # fresh-object cross-check of the forked-state enumeration
    for th, cd, events in confirm[:200]:
        case = {"kind": "failsafe", "env": {ENV_TH: str(th), ENV_CD: str(cd)}, "th": th, "cd": cd, "events": events}
        viol, _ = run_failsafe_case(repo, case)
        v.count("fs_dfs_leaves_rerun_fresh")
        if viol is not None:
            v.inconclude("fresh re-run disagrees with forked-state DFS on %s" % json.dumps(case))
    v.extra["failsafe_exhaustive_depth"] = depth
    return complete


# ----------------------------------------------------------------------------------------------
# random long histories + configuration defaults
# ----------------------------------------------------------------------------------------------
def gen_failsafe_case(rng, length):
    th = rng.choice([1, 1, 2, 2, 3, 3, 4, 5, 7])
    cd = rng.choice([1, 1, 2, 3, 5, 5, 8])
    style = rng.random()
    evs = []
    pe = 0.35 + 0.5 * rng.random()
    for _ in range(length):
        x = rng.random()
        if x < 0.30:
            dt = rng.choice([0, 0.25, cd - 1, cd - 0.25, cd, cd, cd + 0.25, cd + 1, 3 * cd, 0.5])
            evs.append(["adv", float(max(dt, 0))])
        elif x < 0.30 + 0.7 * pe * 0.8:
            ev = [rng.choice(["E", "E", "E:sub", "E:conn", "E:connsub"])]
            if rng.random() < 0.2:  # the failing call hangs first (timeouts): 0.5 s .. longer than the cool-down
                ev.append(float(rng.choice([0.5, cd / 2.0, cd, cd + 1, 30])))
            evs.append(ev)
        elif x < 0.86:
            evs.append(["S"])
        elif x < 0.93:
            evs.append([rng.choice(["A", "A:val", "A:base", "A:key", "A:os"])])
        elif x < 0.97:
            evs.append(["P"])
        else:
            evs.append(["D"] if style < 0.5 else ["S"])
    return {"kind": "failsafe", "env": {ENV_TH: str(th), ENV_CD: str(cd)}, "th": th, "cd": cd, "events": evs}


def default_cases():
    """Configurations that rely on documented defaults (README: 5 attempts, 10 s)."""
    out = []
    for env, th, cd, what in [
        ({}, README_DEFAULT_TH, README_DEFAULT_CD, "both"),
        ({ENV_TH: "2"}, 2, README_DEFAULT_CD, ENV_CD),
        ({ENV_CD: "3"}, README_DEFAULT_TH, 3, ENV_TH),
        ({ENV_TH: "abc", ENV_CD: "4"}, README_DEFAULT_TH, 4, ENV_TH + " (unparsable)"),
    ]:
        evs = [["E"]] * (th + 7) + [["adv", float(cd - 1)], ["S"], ["adv", 1.0], ["S"], ["adv", 0.25], ["S"]] \
            + [["E"]] * (th + 7) + [["adv", float(cd + 1)], ["S"]]
        out.append({"kind": "failsafe", "env": env, "th": th, "cd": cd, "events": evs, "defaults": what})
    return out


def measure_effective(repo, env):
    """black-box: failures until first bypass, then seconds until routed again (for the notes / extra)."""
    boot = Boot.get(repo, env)
    fs = boot.fail_safe()
    CLOCK.t = 1000.0
    n = 0
    while n < 50:
        routed, _ = real_call(fs, "E", boot.ProxyErr("x"))
        if not routed:
            break
        n += 1
    s = 0
    while s < 100 and not fs.state_ok:
        CLOCK.t += 1
        s += 1
    return {"failures_to_open": n, "seconds_to_recover": s}


def failsafe_random(repo, args, v):
    total = 400 if args.tier == "thorough" else 96
    lo, hi = share(total, args.batch, args.batches)
    for i in range(lo, hi):
        rng = case_rand(args.seed, "fsr", i)
        length = rng.choice([20, 60, 200]) if i % 3 else 200
        case = gen_failsafe_case(rng, length)
        case["case"] = i
        print("failsafe random case", i, case["env"], len(case["events"]), flush=True)
        viol, st = run_failsafe_case(repo, case)
        v.eval(1)
        for k, n in st.items():
            v.count("fs_rand_" + k, n)
        if st["opens"]:
            v.distinct_key(("fsr", case["th"], case["cd"], min(st["opens"], 4), min(st["recoveries"], 4),
                            st["edge_routed"] > 0, st["edge_bypassed"] > 0))
        if viol:
            v.violate(viol["signature"], viol["detail"], viol["replay"])
        elif i % 37 == 0:
            v.sample({"failsafe_case": i, "threshold": case["th"], "cooldown": case["cd"], "events": len(case["events"]), **st})
    if args.batch == 0:
        for case in default_cases():
            viol, st = run_failsafe_case(repo, case)
            v.eval(1)
            v.count("fs_default_config_cases")
            if viol:
                # defaults (variables unset) are outside the statement ("the configured number"):
                # a README/code disagreement is reported as an info counter, never as a violation
                v.count("info_defaults_differ_from_readme")
        v.extra["wiring"] = {
            "env(th=2,cd=7) end-to-end": measure_effective(repo, {ENV_TH: "2", ENV_CD: "7"}),
            "env unset": measure_effective(repo, {}),
        }
        # the constructor taken alone (NOT judged: only the end-to-end path is the configured one)
        boot = Boot.get(repo, {})
        fs = boot.fsmod.FailSafe(cooldown_time=7, max_errors_allowed=2, logger=boot.pkg._LOGGER, handle_on=(boot.ProxyErr,))
        CLOCK.t = 1000.0
        n = 0
        while n < 50 and real_call(fs, "E", boot.ProxyErr("x"))[0]:
            n += 1
        s = 0
        while s < 100 and not fs.state_ok:
            CLOCK.t += 1
            s += 1
        v.extra["wiring"]["FailSafe(cooldown_time=7,max_errors_allowed=2) called directly (not judged)"] = {
            "failures_to_open": n, "seconds_to_recover": s}


# ----------------------------------------------------------------------------------------------
# traffic filter
# ----------------------------------------------------------------------------------------------
PRIVATE_V4 = [ipaddress.ip_network(n) for n in ("10.0.0.0/8", "172.16.0.0/12", "192.168.0.0/16")]
LOOP_V4 = ipaddress.ip_network("127.0.0.0/8")
ULA_V6 = ipaddress.ip_network("fc00::/7")


def addr_class(ip):
    """'loopback' | 'private' | 'other' for an ipaddress object (only the ranges the statement names)."""
    if ip.version == 6:
        if ip.ipv4_mapped is not None:
            return addr_class(ip.ipv4_mapped)
        if ip == ipaddress.ip_address("::1"):
            return "loopback"
        if ip in ULA_V6:
            return "private"
        return "other"
    if ip in LOOP_V4:
        return "loopback"
    if any(ip in n for n in PRIVATE_V4):
        return "private"
    return "other"


def parse_ip(s):
    try:
        return ipaddress.ip_address(s)
    except ValueError:
        return None


EDGE_IPS = ["9.255.255.255", "10.0.0.0", "10.0.0.1", "10.255.255.255", "11.0.0.0", "126.255.255.255", "127.0.0.0",
            "127.0.0.1", "127.255.255.255", "128.0.0.0", "172.15.255.255", "172.16.0.0", "172.20.1.1",
            "172.31.255.255", "172.32.0.0", "192.167.255.255", "192.168.0.0", "192.168.1.1", "192.168.255.255",
            "192.169.0.0", "0.0.0.0", "169.254.1.1", "100.64.0.1", "8.8.8.8", "1.1.1.1", "17.1.2.3", "19.1.1.1",
            "12.0.0.1", "100.1.1.1", "101.2.3.4", "120.1.1.1", "197.1.1.1", "255.255.255.255", "1.2.3.4"]
V6_LITS = ["::1", "::", "fc00::1", "fd12:3456::1", "fe80::1", "2001:db8::1", "2606:4700::1111", "::ffff:10.0.0.1",
           "::ffff:127.0.0.1", "::ffff:8.8.8.8", "0:0:0:0:0:0:0:1", "2001:4860:4860::8888"]
ODD_HOSTS = ["", ".", "a..b", "a." + "b" * 64 + ".com", "x" * 64, ".example.com", "example.com.", "a\0b", "None",
             "127.1", "2130706433", "0x7f.0.0.1", "010.0.0.1", "[::1]", "::1%lo", "host:80", "user@host",
             " 10.0.0.1", "10.0.0.1 ", "localhost", "LOCALHOST", "bücher.example", "١٢٧.0.0.1",
             "1.2.3", "1.2.3.4.5", "256.1.1.1", "-", "_srv._tcp.example.com", "xn--", "a" * 300, "\ud800.com",
             "10.0.0.1.", "ex ample.com", "*", "%", "\n"]
NAMES = {  # name -> resolution
    "example.com": "93.184.216.34", "api.pub.test": "8.8.8.8", "edge1.test": "9.255.255.255",
    "db.internal": "10.1.2.3", "lo.test": "127.0.0.1", "lo2.test": "127.255.255.254", "p172.test": "172.16.0.1",
    "p172b.test": "172.31.255.255", "n172.test": "172.32.0.1", "p192.test": "192.168.0.1", "n192.test": "192.169.0.1",
    "zero.test": "0.0.0.0", "ll.test": "169.254.1.1", "cgn.test": "100.64.0.1", "seventeen.test": "17.5.5.5",
    "nineteen.test": "19.5.5.5", "twelve.test": "12.1.1.1", "hundred.test": "100.2.2.2",
    "localhost": "127.0.0.1", "LOCALHOST": "127.0.0.1", "bücher.example": "8.8.4.4",
    "blocked.test": "8.8.8.8", "Blocked.Test": "8.8.8.8", "allowed.test": "8.8.8.8", "allowed-int.test": "10.9.9.9",
    "uni.test": UnicodeError("label empty or too long"), "oserr.test": OSError("resolver exploded"),
    "herr.test": socket.herror(1, "Unknown host"), "tmo.test": socket.timeout("timed out"),
}
LISTS = [  # (block_raw, allow_raw)
    (None, None), ("", ""), ("blocked.test", None), ("blocked.test,db.internal,10.0.0.1", None), (None, "allowed.test"),
    (None, "allowed.test,allowed-int.test,192.168.1.1"), ("blocked.test", "allowed.test"), ("bad host!", None),
    ("blocked.test,bad!!", None), (None, "bad!!"), (None, "allowed.test,bad!!"), ("::1", None), (None, "::1"),
    ("1.2.3", None), (",", None), (None, ","), ("blocked.test, spaced.test", None), ("8.8.8.8", None),
    ("BLOCKED.TEST", None), ("example.com.", None),
]
HEADERS = [None, {}, {"accept": "*/*"}, {"x-lunar-allow": "true"}, {"x-lunar-allow": "false"},
           {"x-lunar-allow": "yes"}, {"X-Lunar-Allow": "true"}]


def split_list(raw):
    return [] if not raw else raw.split(",")


def run_filter_case(repo, case):
    """case: {block, allow, table, queries:[[host, headers|None], ...]}. Returns (violations, stats)."""
    env = {}
    if case["block"] is not None:
        env[ENV_BLOCK] = case["block"]
    if case["allow"] is not None:
        env[ENV_ALLOW] = case["allow"]
    boot = Boot.get(repo, env)
    Resolver.table = {}
    for k, val in case["table"].items():
        if isinstance(val, list):
            val = {"UnicodeError": UnicodeError, "OSError": OSError, "herror": socket.herror,
                   "timeout": socket.timeout, "gaierror": socket.gaierror}[val[0]](*val[1:])
        Resolver.table[k] = val
    try:
        tf = boot.traffic_filter()
    except BaseException as e:  # noqa
        return [("C19/filter-raises/constructor/" + type(e).__name__,
                 "TrafficFilter construction raised %r for block=%r allow=%r" % (e, case["block"], case["allow"]), case)], {}
    block, allow = split_list(case["block"]), split_list(case["allow"])
    viols, stats = [], {}
    for qi, (host, headers) in enumerate(case["queries"]):
        hdr = None if headers is None else dict(headers)
        one = dict(case, queries=[[host, headers]])
        try:
            got = tf.is_allowed(host, hdr)
        except BaseException as e:  # noqa
            ip = parse_ip(host)
            if ip is not None and ip.version == 6:
                cat = "ipv6-literal"
            elif isinstance(e, UnicodeError):
                cat = "bad-label"
            else:
                cat = "nul-in-host" if "\0" in host else type(e).__name__
            tbl = traceback.extract_tb(e.__traceback__)[-1]
            viols.append(("C19/filter-raises/" + cat,
                          "is_allowed(%r, %r) with block=%r allow=%r raised %s: %s (at %s:%d) into the caller; "
                          "the routing decision must never raise" % (host, headers, case["block"], case["allow"],
                                                                     type(e).__name__, e, os.path.basename(tbl.filename), tbl.lineno), one))
            stats["raised"] = stats.get("raised", 0) + 1
            continue
        if not isinstance(got, bool):
            viols.append(("C19/filter-result/not-bool", "is_allowed(%r) returned %r" % (host, got), one))
            continue
        override = bool(headers) and "x-lunar-allow" in headers
        if override:
            stats["header_override_not_judged"] = stats.get("header_override_not_judged", 0) + 1
            continue
        if host in allow:
            stats["allow_list_entry_not_judged"] = stats.get("allow_list_entry_not_judged", 0) + 1
            continue
        # reasons for which the statement forbids routing through the gateway
        reason = None
        if allow:
            reason = "not-on-allow-list"
        elif host in block:
            reason = "block-listed"
        else:
            ip = parse_ip(host)
            if ip is not None:
                c = addr_class(ip)
                if c != "other":
                    reason = c + "-literal"
            else:
                try:
                    r = Resolver.resolve(host)
                    rc = addr_class(ipaddress.ip_address(r))
                    if rc != "other":
                        reason = "resolves-to-" + rc
                except (socket.gaierror, socket.herror):
                    reason = "unresolvable"
                except BaseException:  # noqa - resolver failures of other kinds: only never-raises is judged
                    reason = None
        key = ("tf", "b" if block else "-", "a" if allow else "-", reason or "none", got)
        stats.setdefault("keys", set()).add(key)
        if reason is not None and got:
            viols.append(("C19/filter-allows/" + reason,
                          "is_allowed(%r, %r) = True with block=%r allow=%r although the destination is %s "
                          "(resolver table entry: %r)" % (host, headers, case["block"], case["allow"], reason,
                                                          case["table"].get(host)), one))
        elif reason is not None:
            stats["kept_off_gateway:" + reason] = stats.get("kept_off_gateway:" + reason, 0) + 1
        elif got:
            stats["routed_public"] = stats.get("routed_public", 0) + 1
        else:
            stats["refused_unjudged"] = stats.get("refused_unjudged", 0) + 1
        if reason is None and got and block and host.lower().rstrip(".") in [b.lower().rstrip(".") for b in block]:
            stats["info_blocklist_entry_differs_only_by_case_or_dot_routed"] = \
                stats.get("info_blocklist_entry_differs_only_by_case_or_dot_routed", 0) + 1
    return viols, stats


def table_json():
    out = {}
    for k, val in NAMES.items():
        if isinstance(val, BaseException):
            nm = {UnicodeError: "UnicodeError", OSError: "OSError", socket.herror: "herror", socket.timeout: "timeout"}
            name = "timeout" if isinstance(val, socket.timeout) else nm.get(type(val), "OSError")
            out[k] = [name] + [a for a in val.args]
        else:
            out[k] = val
    return out


def rand_host(rng):
    x = rng.random()
    if x < 0.3:
        base = ipaddress.ip_address(rng.choice(EDGE_IPS))
        return str(ipaddress.ip_address((int(base) + rng.choice([-2, -1, 0, 1, 2, 255, 256, 65536])) % 2 ** 32))
    if x < 0.45:
        return str(ipaddress.ip_address(rng.getrandbits(32)))
    if x < 0.6:
        pre = rng.choice([0, 1 << 120, 0xfc << 120, 0xfd << 120, 0xfe80 << 112, 0x2001 << 112, 0xffff << 32])
        return str(ipaddress.ip_address(pre | rng.getrandbits(rng.choice([8, 32, 64]))))
    if x < 0.8:
        labels = ["".join(rng.choice("abcxyz0189-_é.") for _ in range(rng.choice([0, 1, 3, 8, 63, 64])))
                  for _ in range(rng.choice([1, 2, 3, 5]))]
        return ".".join(labels)
    return rng.choice(list(NAMES) + ODD_HOSTS)


def env_safe(raw):
    """lists travel through environment variables: no NUL, no lone surrogates."""
    return raw.replace("\0", "").encode("utf-8", "ignore").decode("utf-8")


def filter_cases(args):
    table = table_json()
    hosts = EDGE_IPS + V6_LITS + ODD_HOSTS + list(NAMES) + ["nosuch.test", "nosuch2.test", "192.168.1.1"]
    cases = []
    # systematic: every list pair x every host x every header shape (hosts in chunks per filter instance)
    for li, (b, a) in enumerate(LISTS):
        for hi, hdr in enumerate(HEADERS):
            hs = hosts if hi < 3 else hosts[::5]
            q = [[h, hdr] for h in hs]
            q += [[h, hdr] for h in hs[::7]]  # second look at the same host: cached decision
            cases.append({"kind": "filter", "block": b, "allow": a, "table": table, "queries": q, "name": "sys%d.%d" % (li, hi)})
    n_rand = 600 if args.tier == "thorough" else 120
    for i in range(n_rand):
        rng = case_rand(args.seed, "tf", i)
        b, a = rng.choice(LISTS)
        if rng.random() < 0.3:
            b = env_safe(",".join(rand_host(rng) for _ in range(rng.choice([1, 2, 4]))))
        if rng.random() < 0.15:
            a = env_safe(",".join(rand_host(rng) for _ in range(rng.choice([1, 2, 4]))))
        q = [[rand_host(rng), rng.choice(HEADERS[:3] + HEADERS)] for _ in range(40)]
        # a host listed in the block / allow list is queried as well
        for raw in (b, a):
            for e in split_list(raw)[:2]:
                q.append([e, None])
        cases.append({"kind": "filter", "block": b, "allow": a, "table": table, "queries": q, "name": "rnd%d" % i})
    # resolution that fails first and succeeds later (failures must not be remembered as 'external')
    cases.append({"kind": "filter-flaky", "name": "flaky"})
    return cases


def run_flaky(repo, v):
    boot = Boot.get(repo, {})
    tf = boot.traffic_filter()
    Resolver.table = {}
    seq = []
    for name, later in (("late-int.test", "10.0.0.5"), ("late-pub.test", "8.8.8.8")):
        try:
            r1 = tf.is_allowed(name, None)
            Resolver.table[name] = later
            r2 = tf.is_allowed(name, None)
            r3 = tf.is_allowed(name, {})
        except BaseException as e:  # noqa
            v.violate("C19/filter-raises/" + type(e).__name__, "flaky resolution of %s raised %r" % (name, e),
                      {"kind": "filter-flaky"})
            continue
        seq.append((name, r1, r2, r3))
        if r1:
            v.violate("C19/filter-allows/unresolvable", "is_allowed(%r) = True while the name does not resolve" % name, {"kind": "filter-flaky"})
        if later.startswith("10.") and (r2 or r3):
            v.violate("C19/filter-allows/resolves-to-private", "%s resolves to %s after a failed lookup and is routed through the gateway" % (name, later), {"kind": "filter-flaky"})
        v.distinct_key(("tf-flaky", name, r1, r2))
    v.eval(len(seq))
    v.count("tf_flaky_sequences", len(seq))


def filter_part(repo, args, v):
    cases = filter_cases(args)
    lo, hi = share(len(cases), args.batch, args.batches)
    for ci in range(lo, hi):
        case = cases[ci]
        if case["kind"] == "filter-flaky":
            run_flaky(repo, v)
            continue
        print("filter case", case["name"], repr(case["block"])[:60], repr(case["allow"])[:60], len(case["queries"]), flush=True)
        viols, stats = run_filter_case(repo, case)
        v.eval(len(case["queries"]))
        for k in stats.pop("keys", set()):
            v.distinct_key(k)
        for k, n in stats.items():
            v.count("tf_" + k, n)
        for sig, detail, rep in viols:
            v.violate(sig, detail, rep)
        if ci % 41 == 0 and not viols:
            v.sample({"filter_case": case["name"], "block": case["block"], "allow": case["allow"], "queries": len(case["queries"])})


# ----------------------------------------------------------------------------------------------
# hook level: the real RequestsHook wrapper over a stub `requests` and a scripted network
# ----------------------------------------------------------------------------------------------
HOOK_HOSTS = {  # url -> kept off the gateway by the filter?
    "http://api.pub.test/v1/x?y=1": False, "https://example.com:8443/a": False, "http://blocked.test/": True,
    "http://db.internal/q": True, "http://192.168.1.1:9000/": True, "http://127.0.0.1/": True, "http://nosuch.test/": True,
}


def gen_hook_case(rng, length):
    th = rng.choice([1, 2, 2, 3, 4])
    cd = rng.choice([1, 2, 5])
    evs = []
    urls = list(HOOK_HOSTS)
    for _ in range(length):
        x = rng.random()
        if x < 0.25:
            evs.append(["adv", float(rng.choice([0, 0.5, cd - 1, cd, cd, cd + 0.25, 2 * cd]))])
        else:
            url = rng.choice(urls[:2] * 4 + urls)
            out = rng.choice(["ok", "ok", "errhdr", "errhdr", "conn", "conn", "connsub", "app", "appbase"])
            y = rng.random()
            if out == "errhdr" and y < 0.5:
                # any x-lunar-error marks a gateway-side failure: codes the interceptor has texts for (1-5), the code
                # haproxy.cfg sends while the gateway shuts down (10), and one a newer gateway might add
                out = "errhdr" + rng.choice(["1", "2", "4", "5", "10", "10", "77"])
            elif out in ("ok", "errhdr", "conn") and y > 0.7:
                # the gateway first asks the interceptor to retry (x-lunar-retry-after + sequence id); the outcome
                # of the application call is that of the last leg
                out = rng.choice(["retry>", "retry>", "retry>retry>"]) + out
            evs.append(["req", url, out])
    return {"kind": "hook", "env": {ENV_TH: str(th), ENV_CD: str(cd), ENV_BLOCK: "blocked.test"}, "th": th, "cd": cd, "events": evs,
            "second_hook": rng.random() < 0.5}


def run_hook_case(repo, case):
    boot = Boot.get(repo, case["env"])
    th, cd = case["th"], float(case["cd"])
    os.environ["LUNAR_PROXY_HOST"] = "gw.test:8000"
    try:
        conn = boot.cfgmod.get_connection_config(boot.pkg._LOGGER)
    finally:
        del os.environ["LUNAR_PROXY_HOST"]
    Resolver.table = {k: val for k, val in NAMES.items() if not isinstance(val, BaseException)}
    fs = boot.pkg._load_fail_safe()
    tf = boot.traffic_filter()
    hook = boot.reqhook.RequestsHook(logger=boot.pkg._LOGGER, fail_safe=fs, traffic_filter=tf, lunar_proxy_configuration=conn)
    if case.get("second_hook"):
        # the interceptor gives ONE FailSafe to all its hooks (aiohttp, requests, tornado): a later hook registers
        # its own transport errors with it; those of the requests hook must stay registered
        fs.handle_on((OtherHookConnError,))
    request = hook._hook_module()
    session = object()
    CLOCK.t = 1000.0
    convs = CONVS8
    refs = [INIT] * len(convs)
    stats = {"gw_calls": 0, "direct_after_gw_failure": 0, "filtered": 0, "bypassed": 0, "opens": 0, "recoveries": 0,
             "calls_with_gateway_retry_legs": 0, "gateway_error_codes_other_than_3": 0}
    last = True
    obs = []

    def viol(idx, suffix, text):
        ev = case["events"][: idx + 1]
        return {"signature": "C19/" + suffix, "detail": "RequestsHook wrapper, threshold=%d cooldown=%gs: %s\nevents: %s\nobserved: %s"
                % (th, cd, text, json.dumps(ev), obs), "replay": dict(case, events=ev)}

    for idx, ev in enumerate(case["events"]):
        if ev[0] == "adv":
            CLOCK.t += ev[1]
            refs = [ref_adv(r, cd, float(ev[1])) for r in refs]
            obs.append(None)
            continue
        _, url, out = ev
        Net.log = []
        exc_obj = None
        steps = out.split(">")
        out = steps[-1]
        nlegs = len(steps)
        if out == "ok" or out.startswith("errhdr"):
            Net.script = steps[:-1] + [out]
        else:
            Net.script = steps[:-1] + ["raise"]
            exc_obj = {"conn": GwConnError, "connsub": GwConnErrorSub, "app": AppError, "appbase": AppBase}[out]("net")
            Net.exc = exc_obj
        if nlegs > 1:
            stats["calls_with_gateway_retry_legs"] += 1
        if out.startswith("errhdr") and out != "errhdr":
            stats["gateway_error_codes_other_than_3"] += 1
        esc, resp = None, None
        try:
            resp = request(session, "GET", url, headers={"accept": "*/*"})
        except BaseException as e:  # noqa
            esc = e
        legs = [l[0] for l in Net.log]
        routed = bool(legs) and legs[0] == "gw"
        obs.append(legs)
        filtered = HOOK_HOSTS[url]
        if filtered:
            stats["filtered"] += 1
            if "gw" in legs:
                return viol(idx, "hook/filtered-destination-routed", "%s must be kept off the gateway but the gateway was contacted" % url), stats
            if esc is not None:
                return viol(idx, "hook/raises", "direct call to %s raised %r" % (url, esc)), stats
            refs = [ref_call(r, th, cd, c, "D", False) for r, c in zip(refs, convs)]
            continue
        kind = "S" if out == "ok" else ("A" if out.startswith("app") else "E")
        if routed:
            stats["gw_calls"] += 1
            if not last:
                stats["recoveries"] += 1
            if kind == "A":
                if esc is not exc_obj:
                    return viol(idx, "failsafe/swallowed-app-exception" if esc is None else "failsafe/exception-replaced",
                                "exception %r raised on the gateway leg came out as %r" % (exc_obj, esc)), stats
            elif esc is not None:
                return viol(idx, "failsafe/gateway-error-propagated" if kind == "E" else "hook/raises",
                            "call raised %r into the application (gateway leg outcome %s)" % (esc, out)), stats
            elif kind == "E":
                if legs != ["gw"] * nlegs + ["direct"] or resp is None or resp.tag != "direct":
                    return viol(idx, "hook/no-direct-fallback", "after a gateway-side failure the call must be served directly; legs=%s" % legs), stats
                stats["direct_after_gw_failure"] += 1
            elif legs != ["gw"] * nlegs or resp.tag != "gw":
                return viol(idx, "hook/legs", "successful gateway call produced legs %s" % legs), stats
        else:
            stats["bypassed"] += 1
            if last:
                stats["opens"] += 1
            if esc is not None or legs != ["direct"]:
                return viol(idx, "hook/raises", "bypassed call raised %r / legs %s" % (esc, legs)), stats
        before = refs
        refs = [ref_call(r, th, cd, c, kind, routed) for r, c in zip(refs, convs)]
        if not any(refs):
            alive = [r for r in before if r]
            return viol(idx, "failsafe/" + diagnose(alive, cd, routed),
                        "request #%d to %s was %s; reference breaker states before it: %s"
                        % (idx, url, "routed through the gateway" if routed else "sent directly", sorted(set().union(*alive)))), stats
        last = routed
    return None, stats


def hook_part(repo, args, v):
    total = 160 if args.tier == "thorough" else 32
    lo, hi = share(total, args.batch, args.batches)
    for i in range(lo, hi):
        rng = case_rand(args.seed, "hook", i)
        case = gen_hook_case(rng, rng.choice([30, 80, 200]))
        case["case"] = i
        print("hook case", i, case["env"], len(case["events"]), flush=True)
        viol, st = run_hook_case(repo, case)
        v.eval(1)
        for k, n in st.items():
            v.count("hook_" + k, n)
        if st["opens"]:
            v.distinct_key(("hook", case["th"], case["cd"], min(st["opens"], 4), min(st["recoveries"], 4), st["filtered"] > 0))
        if viol:
            v.violate(viol["signature"], viol["detail"], viol["replay"])


def run_hook_url(repo, case):
    boot = Boot.get(repo, case["env"])
    os.environ["LUNAR_PROXY_HOST"] = "gw.test:8000"
    try:
        conn = boot.cfgmod.get_connection_config(boot.pkg._LOGGER)
    finally:
        del os.environ["LUNAR_PROXY_HOST"]
    Resolver.table = {}
    hook = boot.reqhook.RequestsHook(logger=boot.pkg._LOGGER, fail_safe=boot.pkg._load_fail_safe(),
                                     traffic_filter=boot.traffic_filter(), lunar_proxy_configuration=conn)
    Net.log, Net.script = [], "ok"
    try:
        hook._hook_module()(object(), "GET", case["url"], headers={})
    except BaseException as e:  # noqa
        host = FakeURL(case["url"]).host or ""
        ip = parse_ip(host)
        cat = "ipv6-literal" if ip is not None and ip.version == 6 else ("bad-label" if isinstance(e, UnicodeError) else type(e).__name__)
        return ("C19/filter-raises/" + cat,
                "requests wrapper: GET %s raised %s: %s into the application (no network leg was attempted: %s)"
                % (case["url"], type(e).__name__, e, Net.log), case)
    return None


# ----------------------------------------------------------------------------------------------
def replay(repo, path, v):
    with open(path) as f:
        doc = json.load(f)
    case = doc.get("replay", doc)
    kind = case.get("kind")
    print("replaying", json.dumps(case)[:400], flush=True)
    v.eval(1)
    if kind == "failsafe":
        viol, _ = run_failsafe_case(repo, case)
        if viol:
            v.violate(viol["signature"], viol["detail"], viol["replay"])
    elif kind == "filter":
        viols, _ = run_filter_case(repo, case)
        for sig, detail, rep in viols:
            v.violate(sig, detail, rep)
    elif kind == "filter-flaky":
        run_flaky(repo, v)
    elif kind == "hook":
        viol, _ = run_hook_case(repo, case)
        if viol:
            v.violate(viol["signature"], viol["detail"], viol["replay"])
    elif kind == "hook-url":
        viol = run_hook_url(repo, case)
        if viol:
            v.violate(*viol)
    else:
        v.inconclude("unknown replay kind %r" % kind)
    v.distinct_key(("replay", kind))
    v.distinct_key(("replay2", kind))


def main():
    ap = argparse.ArgumentParser()
    ap.add_argument("--seed", type=int, default=1)
    ap.add_argument("--tier", default="quick")
    ap.add_argument("--batch", type=int, default=0)
    ap.add_argument("--batches", type=int, default=1)
    ap.add_argument("--out", required=True)
    ap.add_argument("--repo", default=os.environ.get("VERIF_REPO", "/repo"))
    ap.add_argument("--replay", default="")
    args = ap.parse_args()
    v = Verdict(args.seed, args.tier, args.batch, args.out)
    v.rule = ("fail-safe: a sequence is non-trivial iff the circuit was observed open at least once; shape = (threshold, cooldown, "
              "#opens<=3, #recoveries<=3, app-exception seen). filter: shape = (block list?, allow list?, reason the statement "
              "forbids routing | none, decision)")
    v.assumptions = [
        "third-party imports (yarl, multidict, aiohttp, requests, tornado, pkg_resources) are fabricated stubs; only lunar_interceptor code is real",
        "fail_safe.time is the only time source of FailSafe (patched to a virtual clock); traffic_filter.gethostbyname the only resolver (scripted; argument conversion mimics CPython)",
        "calls are driven the way all three hooks do it: `with fail_safe: if fail_safe.state_ok and <filter>: <gateway leg>`; no in-flight concurrency",
        "conventions left open, one per history: cool-down edge instant inclusive/exclusive, application exception neutral/clears count, filtered call neutral/clears count; per event: failures needed to re-open after a recovery (1 or threshold)",
        "allow-list entries and the x-lunar-allow header are user overrides: only 'never raises' is judged for them; a name's resolution is stable during one filter's life",
        "private range = 10/8, 172.16/12, 192.168/16, fc00::/7, loopback = 127/8, ::1 (and IPv4-mapped forms); link-local, CGNAT, 0.0.0.0 not judged",
        "unset / unparsable environment values are judged against the defaults documented in the interceptor README (5 attempts, 10 s)",
    ]
    repo = os.path.abspath(args.repo)
    try:
        if args.replay:
            replay(repo, args.replay, v)
        else:
            budget = 1200 if args.tier == "thorough" else 240
            deadline = _wall.time() + budget
            if args.batch == 0:
                # the filter defects as an application sees them (through the requests wrapper)
                for url in ("http://[::1]:8080/health", "http://a..b/x", "http://api.pub.test/ok"):
                    viol = run_hook_url(repo, {"kind": "hook-url", "env": {}, "url": url})
                    v.eval(1)
                    if viol:
                        v.violate(*viol)
            complete = False
            for part in (filter_part, failsafe_random, hook_part):
                try:
                    part(repo, args, v)
                except Exception:
                    v.inconclude("harness error in %s: %s" % (part.__name__, traceback.format_exc()[-1200:]))
            complete = failsafe_exhaustive(repo, args, v, deadline)
            v.exhaustive = complete
            if not v.distinct and not v.violations:
                v.inconclude("batch observed no non-trivial case")
    except Exception:
        v.inconclude("harness error: " + traceback.format_exc()[-1500:])
    rc = v.write()
    print("verdict rc=%d evaluations=%d distinct=%d violations=%d inconclusive=%s" % (
        rc, v.evaluations, len(v.distinct), len(v.violations), v.inconclusive), flush=True)
    return rc


if __name__ == "__main__":
    sys.exit(main())
