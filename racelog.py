"""Parser for Go race-detector logs: one signature per report = sorted pair of the innermost
lunar/ function of each of the two conflicting accesses."""
import re
import sys


def _first_lunar(frames):
    for fn, loc in frames:
        if fn.startswith("lunar/") and "/clock.(*MockClock)" not in fn and "/clock.(*MockTimer)" not in fn and "verifhook." not in fn:
            return fn, loc
    return None, None


def parse(text):
    reports = []
    for block in text.split("WARNING: DATA RACE")[1:]:
        block = block.split("==================")[0]
        # sections: access 1, access 2 (Previous ...), then goroutine creation stacks
        secs = re.split(r"\n(?=(?:Previous )?(?:[Rr]ead|[Ww]rite|[Aa]tomic \w+) at 0x|Goroutine \d+ )", "\n" + block)
        accesses = []
        for sec in secs:
            head = sec.strip().split("\n", 1)[0]
            if not re.match(r"(Previous )?([Rr]ead|[Ww]rite|[Aa]tomic \w+) at 0x", head):
                continue
            frames = re.findall(r"\n\s+(\S+)\(\)\n\s+(\S+:\d+)", sec)
            accesses.append((head.split(" at ")[0], frames))
        if len(accesses) < 2:
            continue
        a, la = _first_lunar(accesses[0][1])
        b, lb = _first_lunar(accesses[1][1])
        if a is None and b is None:
            continue
        names = sorted([(a or "external"), (b or "external")])
        reports.append({"signature": "|".join(names), "access": [accesses[0][0], accesses[1][0]], "where": [la, lb],
                        "stacks": [[f for f, _ in accesses[0][1]][:8], [f for f, _ in accesses[1][1]][:8]]})
    return reports


if __name__ == "__main__":
    from collections import Counter
    c = Counter()
    ex = {}
    for p in sys.argv[1:]:
        for r in parse(open(p, errors="replace").read()):
            c[r["signature"]] += 1
            ex.setdefault(r["signature"], r)
    for s, n in c.most_common():
        print(n, s, ex[s]["where"])
