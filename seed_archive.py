#!/usr/bin/env python3
"""usage: seed_archive.py NN k 'needs' 'result line'  -- copies a confirmed seeded change into /verif/seeded/C<NN>-<k>/"""
import json, os, shutil, sys
nn, k, needs, result = sys.argv[1], sys.argv[2], sys.argv[3], sys.argv[4]
pfx = os.environ.get("SEEDPFX", "seed")
off = int(os.environ.get("SEEDOFF", "0"))
src = f"/tmp/{pfx}-c{nn}-out"
dst = f"/verif/seeded/C{nn}-{int(k)+off}"
shutil.rmtree(dst, ignore_errors=True)
os.makedirs(dst)
shutil.copy(f"{src}/change-{k}.diff", f"{dst}/patch.diff")
shutil.copytree(f"{src}/demo-{k}", f"{dst}/demo")
for f in ("clean.log", "changed.log"):
    try: os.remove(f"{dst}/demo/{f}")
    except OSError: pass
desc = open(f"{src}/change-{k}.md").read() if os.path.exists(f"{src}/change-{k}.md") else ""
caught = "rc=1" in result
meta = {"property": f"C{nn}", "author": "fresh sub-agent given only the property record and a scratch worktree",
        "description": desc, "needs_to_manifest": needs,
        "confirmed_by_me": "seed_confirm.sh: demo passes on the clean current tree, fails with the patch applied; existing tests of the touched packages pass (agent ran the whole lunar-engine suite)",
        "check_result": result, "caught": caught}
json.dump(meta, open(f"{dst}/meta.json", "w"), indent=1)
print(dst, "caught" if caught else "MISSED")
