#!/bin/bash
# usage: seed_confirm.sh NN k   -- confirms a seeded change: demo passes on the clean (current) tree, fails with the change,
# then runs the property's check against the change. Prints one summary line.
NN=$1; K=$2; PFX=${SEEDPFX:-seed}; WT=/tmp/$PFX-c$NN; OUT=/tmp/$PFX-c$NN-out
export GOFLAGS=-mod=mod GOPROXY=off GOSUMDB=off GOTOOLCHAIN=local
git -C $WT checkout -q -- . 2>/dev/null; git -C $WT clean -fdq 2>/dev/null
git -C $WT checkout -q --detach $(git -C /repo rev-parse HEAD) || { echo "C$NN/$K: cannot move worktree"; exit 9; }
if ! git -C $WT apply --check $OUT/change-$K.diff 2>/dev/null; then echo "C$NN/$K: DIFF-DOES-NOT-APPLY to current HEAD"; exit 8; fi
bash $OUT/demo-$K/RUN.txt > $OUT/demo-$K/clean.log 2>&1
cl=$(grep -cE "^(--- FAIL|FAIL|panic:)" $OUT/demo-$K/clean.log); co=$(grep -cE "^(ok |PASS)" $OUT/demo-$K/clean.log)
git -C $WT checkout -q -- . ; git -C $WT clean -fdq
git -C $WT apply $OUT/change-$K.diff
bash $OUT/demo-$K/RUN.txt > $OUT/demo-$K/changed.log 2>&1
ch=$(grep -cE "^(--- FAIL|FAIL|panic:)" $OUT/demo-$K/changed.log)
git -C $WT checkout -q -- . ; git -C $WT clean -fdq
demo="demo: clean(fail=$cl ok=$co) changed(fail=$ch)"
cd /verif; res=$(./mutant_run.sh C$NN $OUT/change-$K.diff ${3:-quick} 2>&1 | head -1 | cut -c1-400)
echo "C$NN/$K: $demo | check: $res"
